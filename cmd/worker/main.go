// worker runs one shard of one property's workload against the SDK as built
// from the repository's current working tree.
package main

import (
	"fmt"
	"os"

	"verif/internal/props"
	"verif/internal/wk"
)

func main() {
	c := wk.FromFlags()
	f, ok := props.Registry[c.Prop]
	if !ok {
		fmt.Fprintf(os.Stderr, "worker: no workload for %s\n", c.Prop)
		os.Exit(3)
	}
	f(c)
	c.Finish()
}
