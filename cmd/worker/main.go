// worker runs one shard of one property's workload against the SDK as built
// from the repository's current working tree.
package main

import (
	"fmt"
	"os"

	"verif/internal/props"
	"verif/internal/wk"
)

func main() {
	if spec := os.Getenv("VERIF_C13_CHILD"); spec != "" {
		// a process whose only job is to use the SDK's package-level values for the first time from
		// several goroutines at once
		props.C13Child(spec)
		return
	}
	c := wk.FromFlags()
	f, ok := props.Registry[c.Prop]
	if !ok {
		fmt.Fprintf(os.Stderr, "worker: no workload for %s\n", c.Prop)
		os.Exit(3)
	}
	f(c)
	c.Finish()
}
