package main

import (
	"fmt"

	"go.flow.arcalot.io/pluginsdk/schema"

	"verif/internal/gen"
	"verif/internal/wk"
)

func walk(v any, depth int) {
	switch x := v.(type) {
	case map[string]any:
		if t, ok := x["type_id"]; ok {
			fmt.Printf("%T %v props=%T\n", t, t, x["properties"])
		}
		for _, e := range x {
			walk(e, depth+1)
		}
	case map[any]any:
		for _, e := range x {
			walk(e, depth+1)
		}
	case []any:
		for _, e := range x {
			walk(e, depth+1)
		}
	default:
		_ = x
	}
}

func main() {
	r := wk.NewRand(1, "x", 5)
	cfg := gen.Full()
	cfg.Describable, cfg.TypedEnum, cfg.NilDisplay, cfg.GoodDefaults = true, false, false, true
	sh := gen.GenScope(r, cfg)
	t := gen.Build(sh)
	d, err := t.(*schema.ScopeSchema).SelfSerialize()
	fmt.Println(err)
	walk(d, 0)
}
