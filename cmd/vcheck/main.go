// vcheck is the driver: it rebuilds the worker from the repository's current
// working tree, shards the case space over child processes, supervises them
// (fatal crashes and hangs are observations, not the end of the run), merges
// their event logs, applies /verif/known_findings.json and writes
// /verif/evidence/<id>.json.
//
// It deliberately does not import the SDK.
package main

import (
	"bufio"
	"bytes"
	"encoding/binary"
	"encoding/json"
	"errors"
	"fmt"
	"io"
	"os"
	"os/exec"
	"path/filepath"
	"sort"
	"strconv"
	"strings"
	"sync"
	"syscall"
	"time"
)

type variant struct {
	Name    string   // plain | race | overlay | overlayrace
	Race    bool     // build with -race
	Overlay []string // repo-relative files to instrument with yield points
}

type propCfg struct {
	Level    string
	Variants []variant
	// CPU seconds on one case after which a pure-function worker is judged
	// non-terminating (0 = the worker decides hangs itself, e.g. quiescence).
	CPUHang float64
	Shards  int
}

var atpFiles = []string{"atp/client.go", "atp/server.go", "schema/step.go", "schema/schema.go"}

var props = map[string]propCfg{
	"C01": {Level: "exploration", Variants: []variant{{Name: "plain"}}, CPUHang: 20},
	"C02": {Level: "exploration", Variants: []variant{{Name: "plain"}}, CPUHang: 20},
	"C03": {Level: "exploration", Variants: []variant{{Name: "plain"}}, CPUHang: 20},
	"C04": {Level: "exploration", Variants: []variant{{Name: "plain"}}, CPUHang: 20},
	// The monitored sessions of C05-C08 are journalled one by one and end on a logical verdict within moments; their
	// monitor polls, so the CPU-time rule is set well above what polling for a whole watchdog period can use. What
	// it catches there is an SDK goroutine that computes forever (the monitor keeps such a case open, see rig.Monitor).
	"C05": {Level: "exploration", Variants: []variant{{Name: "overlay", Overlay: atpFiles}, {Name: "race", Race: true}}, CPUHang: 60},
	"C06": {Level: "exploration", Variants: []variant{{Name: "overlay", Overlay: atpFiles}}, CPUHang: 60},
	"C07": {Level: "fault_enumeration", Variants: []variant{{Name: "plain"}, {Name: "race", Race: true}}, CPUHang: 60},
	"C08": {Level: "fault_enumeration", Variants: []variant{{Name: "plain"}}, CPUHang: 60},
	"C09": {Level: "exploration", Variants: []variant{{Name: "plain"}}, CPUHang: 20},
	"C10": {Level: "fault_enumeration", Variants: []variant{{Name: "plain"}}, CPUHang: 20},
	"C11": {Level: "exploration", Variants: []variant{{Name: "plain"}, {Name: "overlay", Overlay: atpFiles}, {Name: "race", Race: true}}},
	"C12": {Level: "exploration", Variants: []variant{{Name: "plain"}}, CPUHang: 20},
	"C13": {Level: "exploration", Variants: []variant{{Name: "plain"}, {Name: "race", Race: true}}},
	"C14": {Level: "exploration", Variants: []variant{{Name: "plain"}}, CPUHang: 20},
	"C15": {Level: "exploration", Variants: []variant{{Name: "plain"}}, CPUHang: 20},
	"C16": {Level: "exploration", Variants: []variant{{Name: "plain"}}, CPUHang: 20},
	"C17": {Level: "exploration", Variants: []variant{{Name: "plain"}}, CPUHang: 20},
	"C18": {Level: "exploration", Variants: []variant{{Name: "plain"}}, CPUHang: 20},
	"C19": {Level: "exploration", Variants: []variant{{Name: "plain"}}},
}

type finding struct {
	Property string `json:"property"`
	Key      string `json:"key"`
	Status   string `json:"status"` // known | fixed
	Commit   string `json:"commit,omitempty"`
	What     string `json:"what"`
}

type viol struct {
	Key     string `json:"key"`
	What    string `json:"what"`
	Idx     int64  `json:"idx"`
	Shard   int    `json:"shard"`
	Variant string `json:"variant"`
	Witness any    `json:"witness,omitempty"`
	Count   int    `json:"count"`
}

var (
	verifDir = "/verif"
	goEnv    = []string{"GOFLAGS=-mod=mod", "GOPROXY=off", "GOSUMDB=off", "GOTOOLCHAIN=local", "CGO_ENABLED=1"}
)

func die(code int, f string, a ...any) {
	fmt.Fprintf(os.Stderr, "vcheck: "+f+"\n", a...)
	os.Exit(code)
}

func main() {
	if len(os.Args) < 2 {
		die(3, "usage: vcheck <property> [--tier quick|thorough] [--replay path] [--keep]")
	}
	id := os.Args[1]
	cfg, ok := props[id]
	if !ok {
		die(3, "unknown property %s", id)
	}
	tier := os.Getenv("VERIF_TIER")
	if tier == "" {
		tier = "quick"
	}
	replay := ""
	keep := false
	for i := 2; i < len(os.Args); i++ {
		switch os.Args[i] {
		case "--tier":
			i++
			tier = os.Args[i]
		case "--replay":
			i++
			replay = os.Args[i]
		case "--keep":
			keep = true
		default:
			die(3, "unknown argument %s", os.Args[i])
		}
	}
	if tier != "quick" && tier != "thorough" {
		die(3, "bad tier %q", tier)
	}
	if d := os.Getenv("VERIF_DIR"); d != "" {
		verifDir = d
	} else if exe, err := os.Executable(); err == nil {
		if d := filepath.Dir(filepath.Dir(exe)); fileExists(filepath.Join(d, "go.mod")) {
			verifDir = d
		}
	}
	seed := uint64(1)
	if s := os.Getenv("VERIF_SEED"); s != "" {
		if v, err := strconv.ParseInt(s, 10, 64); err == nil {
			seed = uint64(v)
		}
	}
	repo := os.Getenv("VERIF_REPO")
	if repo == "" {
		repo = "/repo"
	}
	jobs := 16
	if s := os.Getenv("VERIF_JOBS"); s != "" {
		if v, err := strconv.Atoi(s); err == nil && v > 0 {
			jobs = v
		}
	}
	start := time.Now()
	work := filepath.Join(verifDir, ".work", fmt.Sprintf("%s-%d", id, os.Getpid()))
	if err := os.MkdirAll(work, 0o755); err != nil {
		die(3, "mkdir: %v", err)
	}
	if !keep {
		defer os.RemoveAll(work)
	}
	exit := run(id, cfg, tier, seed, repo, jobs, work, replay, start)
	if !keep {
		os.RemoveAll(work)
	}
	os.Exit(exit)
}

func fileExists(p string) bool { _, err := os.Stat(p); return err == nil }

// buildWorker builds the worker for one variant from repo's working tree.
func buildWorker(cfg variant, repo, work string) (string, map[string]any, error) {
	modfile := filepath.Join(work, "go.mod")
	if !fileExists(modfile) {
		src, err := os.ReadFile(filepath.Join(verifDir, "go.mod"))
		if err != nil {
			return "", nil, err
		}
		out := strings.Replace(string(src), "=> /repo", "=> "+repo, 1)
		if err := os.WriteFile(modfile, []byte(out), 0o644); err != nil {
			return "", nil, err
		}
		sum, _ := os.ReadFile(filepath.Join(verifDir, "go.sum"))
		_ = os.WriteFile(filepath.Join(work, "go.sum"), sum, 0o644)
	}
	bin := filepath.Join(work, "worker-"+cfg.Name)
	args := []string{"build", "-modfile=" + modfile, "-o", bin}
	if cfg.Race {
		args = append(args, "-race")
	}
	info := map[string]any{}
	if len(cfg.Overlay) > 0 {
		ovDir := filepath.Join(work, "overlay-"+cfg.Name)
		ya := []string{repo, ovDir}
		ya = append(ya, cfg.Overlay...)
		cmd := exec.Command(filepath.Join(verifDir, "bin", "yieldgen"), ya...)
		cmd.Env = append(os.Environ(), goEnv...)
		out, err := cmd.CombinedOutput()
		if err != nil {
			return "", nil, fmt.Errorf("yieldgen: %v\n%s", err, out)
		}
		args = append(args, "-overlay="+filepath.Join(ovDir, "overlay.json"), "-tags=verifoverlay")
		info["yield_table"] = filepath.Join(ovDir, "points.json")
	}
	args = append(args, "./cmd/worker")
	cmd := exec.Command("go", args...)
	cmd.Dir = verifDir
	cmd.Env = append(os.Environ(), goEnv...)
	out, err := cmd.CombinedOutput()
	if err != nil {
		return "", nil, fmt.Errorf("go %s: %v\n%s", strings.Join(args, " "), err, out)
	}
	return bin, info, nil
}

type shardResult struct {
	evals        int64
	counts       map[string]int64
	samples      []any
	viols        []viol
	nviol        map[string]int
	inconclusive []string
	metas        map[string]any
	floors       map[string]int64
	crashes      int
}

func run(id string, cfg propCfg, tier string, seed uint64, repo string, jobs int, work, replay string, start time.Time) int {
	merged := shardResult{counts: map[string]int64{}, nviol: map[string]int{}, metas: map[string]any{}, floors: map[string]int64{}}
	var distinctAll []uint64
	var replayCase *struct {
		Variant string `json:"variant"`
		Idx     int64  `json:"idx"`
		Seed    uint64 `json:"seed"`
		Tier    string `json:"tier"`
	}
	if replay != "" {
		b, err := os.ReadFile(replay)
		if err != nil {
			die(3, "replay: %v", err)
		}
		if err := json.Unmarshal(b, &replayCase); err != nil {
			die(3, "replay: %v", err)
		}
		seed, tier = replayCase.Seed, replayCase.Tier
	}
	nshards := cfg.Shards
	if nshards == 0 {
		nshards = jobs
	}
	variantNames := []string{}
	for _, v := range cfg.Variants {
		if replayCase != nil && replayCase.Variant != v.Name {
			continue
		}
		variantNames = append(variantNames, v.Name)
		bin, _, err := buildWorker(v, repo, work)
		if err != nil {
			// A tree that does not build cannot be judged; this is not a property violation.
			fmt.Fprintf(os.Stderr, "vcheck: BUILD FAILED for variant %s:\n%v\n", v.Name, err)
			return 2
		}
		var wg sync.WaitGroup
		var mu sync.Mutex
		sem := make(chan struct{}, jobs)
		n := nshards
		if replayCase != nil {
			n = 1
		}
		for sh := 0; sh < n; sh++ {
			wg.Add(1)
			sem <- struct{}{}
			go func(sh int) {
				defer wg.Done()
				defer func() { <-sem }()
				only := int64(-1)
				if replayCase != nil {
					only = replayCase.Idx
				}
				r := superviseShard(id, cfg, v, bin, tier, seed, sh, n, work, only, repo, replay)
				mu.Lock()
				defer mu.Unlock()
				merged.evals += r.evals
				for k, c := range r.counts {
					merged.counts[k] += c
				}
				for k, c := range r.nviol {
					merged.nviol[k] += c
				}
				for k, m := range r.metas {
					merged.metas[k] = m
				}
				for k, m := range r.floors {
					merged.floors[k] = m
				}
				merged.crashes += r.crashes
				merged.viols = append(merged.viols, r.viols...)
				merged.inconclusive = append(merged.inconclusive, r.inconclusive...)
				if len(merged.samples) < 24 {
					merged.samples = append(merged.samples, r.samples...)
				}
				hb, _ := os.ReadFile(filepath.Join(work, fmt.Sprintf("%s-%d.hashes", v.Name, sh)))
				for i := 0; i+8 <= len(hb); i += 8 {
					distinctAll = append(distinctAll, binary.LittleEndian.Uint64(hb[i:]))
				}
				_ = os.Remove(filepath.Join(work, fmt.Sprintf("%s-%d.hashes", v.Name, sh)))
			}(sh)
		}
		wg.Wait()
	}

	sort.Slice(distinctAll, func(i, j int) bool { return distinctAll[i] < distinctAll[j] })
	ndistinct := 0
	for i := range distinctAll {
		if i == 0 || distinctAll[i] != distinctAll[i-1] {
			ndistinct++
		}
	}
	distinctAll = nil
	// Group violations by key.
	byKey := map[string]*viol{}
	keys := []string{}
	for i := range merged.viols {
		v := merged.viols[i]
		if _, ok := byKey[v.Key]; !ok {
			vv := v
			byKey[v.Key] = &vv
			keys = append(keys, v.Key)
		}
	}
	sort.Strings(keys)
	for _, k := range keys {
		byKey[k].Count = merged.nviol[k]
		if byKey[k].Count == 0 {
			byKey[k].Count = 1
		}
	}
	findings := loadFindings()
	exit := 0
	known := []string{}
	unknown := 0
	replayDir := filepath.Join(verifDir, "replays", id)
	for _, k := range keys {
		v := byKey[k]
		if f := matchFinding(findings, id, k); f != nil {
			fmt.Printf("KNOWN-FINDING: property=%s %s [key=%s, %d occurrence(s)]\n", id, f.What, k, v.Count)
			known = append(known, k)
			continue
		}
		unknown++
		_ = os.MkdirAll(replayDir, 0o755)
		path := filepath.Join(replayDir, fmt.Sprintf("%016x.json", fnv64(k)))
		rb, _ := json.MarshalIndent(map[string]any{
			"property": id, "key": v.Key, "what": v.What, "variant": v.Variant, "idx": v.Idx, "seed": seed, "tier": tier,
			"witness": v.Witness, "count": v.Count,
		}, "", " ")
		_ = os.WriteFile(path, rb, 0o644)
		if unknown <= 25 {
			fmt.Printf("VIOLATION property=%s replay=%s\n", id, path)
			fmt.Printf("  key=%s (%d occurrence(s))\n  %s\n", v.Key, v.Count, oneLine(v.What, 400))
		}
		exit = 1
	}
	if unknown > 25 {
		fmt.Printf("  ... and %d more distinct violation keys (replays under %s)\n", unknown-25, replayDir)
	}
	for _, s := range merged.inconclusive {
		fmt.Printf("INCONCLUSIVE property=%s case=%s\n", id, s)
	}
	// Coverage floors: a run that observed too little decided nothing.
	broken := []string{}
	if replayCase == nil {
		fk := make([]string, 0, len(merged.floors))
		for k := range merged.floors {
			fk = append(fk, k)
		}
		sort.Strings(fk)
		for _, k := range fk {
			if merged.counts[k] < merged.floors[k] {
				broken = append(broken, fmt.Sprintf("%s=%d<%d", k, merged.counts[k], merged.floors[k]))
			}
		}
		if merged.evals == 0 {
			broken = append(broken, "evaluations=0")
		}
	}
	wall := time.Since(start).Seconds()
	if replayCase == nil && os.Getenv("VERIF_NO_EVIDENCE") == "" {
		// (VERIF_NO_EVIDENCE: runs against a deliberately broken scratch tree must not replace the evidence of the real one)
		writeEvidence(id, cfg, tier, seed, merged, ndistinct, keys, known, variantNames, wall, unknown)
	}
	fmt.Printf("%s tier=%s seed=%d evaluations=%d distinct_nontrivial=%d violations=%d known=%d inconclusive=%d crashes=%d wall=%.1fs\n",
		id, tier, seed, merged.evals, ndistinct, unknown, len(known), len(merged.inconclusive), merged.crashes, wall)
	if exit == 0 && len(broken) > 0 {
		fmt.Printf("BROKEN-RUN property=%s coverage floor(s) not met: %s\n", id, strings.Join(broken, ", "))
		return 2
	}
	return exit
}

func exitCode(err error) int {
	var ee *exec.ExitError
	if errors.As(err, &ee) {
		return ee.ExitCode()
	}
	return -1
}

func oneLine(s string, n int) string {
	s = strings.ReplaceAll(s, "\n", " | ")
	if len(s) > n {
		s = s[:n] + "..."
	}
	return s
}

func fnv64(s string) uint64 {
	h := uint64(14695981039346656037)
	for i := 0; i < len(s); i++ {
		h ^= uint64(s[i])
		h *= 1099511628211
	}
	return h
}

func loadFindings() []finding {
	b, err := os.ReadFile(filepath.Join(verifDir, "known_findings.json"))
	if err != nil {
		return nil
	}
	var f struct {
		Findings []finding `json:"findings"`
	}
	if err := json.Unmarshal(b, &f); err != nil {
		die(3, "known_findings.json: %v", err)
	}
	return f.Findings
}

func matchFinding(fs []finding, id, key string) *finding {
	for i := range fs {
		f := &fs[i]
		if f.Property != id || f.Status != "known" {
			continue
		}
		if f.Key == key {
			return f
		}
	}
	return nil
}

// superviseShard runs one shard to completion, restarting the worker after each
// fatal crash or hang verdict at the case after the one that was open.
func superviseShard(id string, cfg propCfg, v variant, bin, tier string, seed uint64, shard, nshards int, work string, only int64, repo, replayFile string) shardResult {
	res := shardResult{counts: map[string]int64{}, nviol: map[string]int{}, metas: map[string]any{}, floors: map[string]int64{}}
	prefix := filepath.Join(work, fmt.Sprintf("%s-%d", v.Name, shard))
	resume := int64(0)
	for attempt := 0; ; attempt++ {
		_ = os.Remove(prefix + ".journal")
		errFile := fmt.Sprintf("%s.%d.err", prefix, attempt)
		ef, _ := os.Create(errFile)
		args := []string{"-prop", id, "-seed", strconv.FormatUint(seed, 10), "-shard", strconv.Itoa(shard), "-nshards", strconv.Itoa(nshards),
			"-tier", tier, "-out", prefix, "-resume", strconv.FormatInt(resume, 10), "-variant", v.Name}
		if only >= 0 {
			args = append(args, "-only", strconv.FormatInt(only, 10))
			if replayFile != "" {
				args = append(args, "-replayfile", replayFile)
			}
		}
		cmd := exec.Command(bin, args...)
		cmd.Stdout = ef
		cmd.Stderr = ef
		cmd.Dir = work
		cmd.Env = append(os.Environ(), "VERIF_REPO="+repo, "VERIF_WORK="+work, "VERIF_DIR="+verifDir,
			"GORACE=halt_on_error=0 log_path="+prefix+".race", "GOTRACEBACK=all")
		cmd.Env = append(cmd.Env, goEnv...)
		if err := cmd.Start(); err != nil {
			res.inconclusive = append(res.inconclusive, fmt.Sprintf("shard %d: cannot start worker: %v", shard, err))
			ef.Close()
			return res
		}
		verdict, werr := watchAndWait(cmd, prefix+".journal", cfg.CPUHang)
		ef.Close()
		ended := absorb(prefix+".jsonl", v.Name, &res)
		if ended && (werr == nil || (v.Race && exitCode(werr) == 66)) {
			// 66 is the race detector's exit status for "reports were written" (halt_on_error=0)
			absorbRace(prefix, v.Name, &res)
			return res
		}
		// Abnormal end: attribute to the open case.
		idx, key := readJournal(prefix + ".journal")
		tail := tailFile(errFile, 6000)
		res.crashes++
		switch {
		case verdict == "cpu-hang" && busyOutsideSDK(headFile(errFile, 400000)):
			// the goroutines that were computing when the worker was stopped are all in the harness' own code (a
			// generator that takes its time, for instance): that says nothing about the SDK
			res.inconclusive = append(res.inconclusive, fmt.Sprintf("variant=%s idx=%d key=%s: %.0fs CPU on one case, spent in the harness' own code, not in the SDK: %s", v.Name, idx, key, cfg.CPUHang, busyFrames(headFile(errFile, 400000))))
		case verdict == "cpu-hang":
			res.viols = append(res.viols, viol{Key: "hang:" + key, What: fmt.Sprintf("no return after %.0fs CPU on one case (idx %d, %s)", cfg.CPUHang, idx, key),
				Idx: idx, Shard: shard, Variant: v.Name, Witness: map[string]any{"goroutines": tail}})
			res.nviol["hang:"+key]++
		case verdict == "blocked":
			res.viols = append(res.viols, viol{Key: "blocked:" + key, What: fmt.Sprintf("no progress and no processor use for 120 s on one case (idx %d, %s): every goroutine of the worker is blocked", idx, key),
				Idx: idx, Shard: shard, Variant: v.Name, Witness: map[string]any{"goroutines": tail}})
			res.nviol["blocked:"+key]++
		case verdict == "wall-timeout":
			res.inconclusive = append(res.inconclusive, fmt.Sprintf("variant=%s idx=%d key=%s: wall-clock watchdog fired without a logical verdict", v.Name, idx, key))
		case idx < 0 && fatalFrame(headFile(errFile, 20000)) != "":
			// the worker died while it prepared its cases (the unperturbed baseline sessions), in a goroutine that
			// was executing SDK code: that is an observation about the SDK, not a broken harness
			k := "fatal:" + fatalSite(headFile(errFile, 20000)) + ":" + fatalFrame(headFile(errFile, 20000))
			res.viols = append(res.viols, viol{Key: k, What: fmt.Sprintf("worker process died (%v) while preparing its cases (unperturbed baseline sessions): %s", werr, firstLines(headFile(errFile, 800), 3)),
				Idx: -1, Shard: shard, Variant: v.Name, Witness: map[string]any{"stderr_head": headFile(errFile, 3000), "stderr_tail": tail}})
			res.nviol[k]++
			return res
		case idx < 0:
			res.inconclusive = append(res.inconclusive, fmt.Sprintf("variant=%s shard=%d: worker died outside any case: %v: %s", v.Name, shard, werr, oneLine(tailFile(errFile, 600), 600)))
			return res
		default:
			site := fatalSite(headFile(errFile, 20000))
			k := "fatal:" + site
			if site == "stack-overflow" {
				// the frame on top when the stack ran out is arbitrary; the journalled call identifies the case
				k += ":" + key
			} else if fr := fatalFrame(headFile(errFile, 20000)); fr != "" {
				k += ":" + fr
			} else {
				k += ":" + key
			}
			res.viols = append(res.viols, viol{Key: k, What: fmt.Sprintf("worker process died (%v) in case idx %d (%s): %s", werr, idx, key, firstLines(headFile(errFile, 800), 3)),
				Idx: idx, Shard: shard, Variant: v.Name, Witness: map[string]any{"stderr_head": headFile(errFile, 3000), "stderr_tail": tail}})
			res.nviol[k]++
		}
		if only >= 0 || idx < 0 {
			return res
		}
		resume = idx + 1
		if attempt > 400 {
			res.inconclusive = append(res.inconclusive, fmt.Sprintf("variant=%s shard=%d: more than 400 worker restarts; giving up on the rest of the shard", v.Name, shard))
			return res
		}
	}
}

// watchAndWait polls the child until it exits: CPU time consumed while the
// journal record does not change decides non-termination for pure-function
// workers; a generous wall-clock watchdog only yields "inconclusive".
func watchAndWait(cmd *exec.Cmd, journal string, cpuHang float64) (string, error) {
	waitDone := make(chan error, 1)
	go func() { waitDone <- cmd.Wait() }()
	verdict := ""
	last := ""
	lastChange := time.Now()
	cpuAtChange := 0.0
	wallLimit := 900.0
	if cpuHang > 0 {
		wallLimit = cpuHang * 15
	}
	tick := time.NewTicker(250 * time.Millisecond)
	defer tick.Stop()
	killed := false
	idleSince, cpuAtIdle := time.Now(), 0.0
	for {
		select {
		case err := <-waitDone:
			return verdict, err
		case <-tick.C:
		}
		if killed {
			continue
		}
		cpu := procCPU(cmd.Process.Pid)
		if cpu < 0 {
			continue
		}
		b, _ := os.ReadFile(journal)
		cur := strings.TrimSpace(string(b))
		if cur != last {
			last, lastChange, cpuAtChange = cur, time.Now(), cpu
			idleSince, cpuAtIdle = time.Now(), cpu
			continue
		}
		if cpu-cpuAtIdle > 0.3 || hasChildren(cmd.Process.Pid) {
			idleSince, cpuAtIdle = time.Now(), cpu // it is computing, or waiting for a child process it started
		}
		if cpuHang > 0 && cpu-cpuAtChange > cpuHang && (cpuHang < 60 || strings.HasPrefix(cur, "B ")) {
			// (the session-based checks, whose rule is 60 s, prepare their cases by running unperturbed baseline
			// sessions first: the rule applies to journalled cases only)
			verdict = "cpu-hang"
		} else if strings.HasPrefix(cur, "B ") && time.Since(idleSince).Seconds() > 120 {
			// one case open, and for two minutes the process has neither used the processor nor had a child to wait
			// for: all its goroutines are blocked for good (the Go runtime only reports that itself when no
			// goroutine at all could still run, which background goroutines of the race detector prevent)
			verdict = "blocked"
		} else if time.Since(lastChange).Seconds() > wallLimit {
			verdict = "wall-timeout"
		}
		if verdict != "" {
			killed = true
			_ = cmd.Process.Signal(syscall.SIGQUIT)
			go func() {
				time.Sleep(3 * time.Second)
				_ = cmd.Process.Kill()
			}()
		}
	}
}

// hasChildren: does the process have live child processes (workers of C13 and C19 start some and wait for them)?
func hasChildren(pid int) bool {
	tasks, _ := filepath.Glob(fmt.Sprintf("/proc/%d/task/*/children", pid))
	for _, t := range tasks {
		if b, err := os.ReadFile(t); err == nil && strings.TrimSpace(string(b)) != "" {
			return true
		}
	}
	return false
}

func procStat(pid int) []string {
	b, err := os.ReadFile(fmt.Sprintf("/proc/%d/stat", pid))
	if err != nil {
		return nil
	}
	s := string(b)
	i := strings.LastIndex(s, ")")
	if i < 0 {
		return nil
	}
	return strings.Fields(s[i+1:])
}

// procCPU returns utime+stime in seconds, or -1 when the process is gone.
func procCPU(pid int) float64 {
	f := procStat(pid)
	if len(f) < 13 {
		return -1
	}
	if f[0] == "Z" {
		return -1
	}
	ut, _ := strconv.ParseFloat(f[11], 64)
	st, _ := strconv.ParseFloat(f[12], 64)
	return (ut + st) / 100.0
}

func readJournal(path string) (int64, string) {
	b, err := os.ReadFile(path)
	if err != nil {
		return -1, ""
	}
	s := strings.TrimSpace(string(b))
	if !strings.HasPrefix(s, "B ") {
		return -1, ""
	}
	parts := strings.SplitN(s[2:], " ", 2)
	idx, err := strconv.ParseInt(parts[0], 10, 64)
	if err != nil {
		return -1, ""
	}
	key := ""
	if len(parts) > 1 {
		key = strings.TrimSpace(parts[1])
	}
	return idx, key
}

// absorb merges a shard's JSONL (which may hold several attempts) and truncates
// it, returning whether the last attempt ended normally.
func absorb(path, variantName string, res *shardResult) bool {
	f, err := os.Open(path)
	if err != nil {
		return false
	}
	defer func() {
		f.Close()
		_ = os.Truncate(path, 0)
	}()
	ended := false
	var lastProgress map[string]any
	defer func() {
		// a worker that died credits what it had counted at its last progress record
		if !ended && lastProgress != nil {
			res.evals += int64(num(lastProgress["evals"]))
			if m, ok := lastProgress["counts"].(map[string]any); ok {
				for k, c := range m {
					res.counts[k] += int64(num(c))
				}
			}
		}
	}()
	rd := bufio.NewReaderSize(f, 1<<20)
	for {
		line, err := rd.ReadBytes('\n')
		if len(bytes.TrimSpace(line)) > 0 {
			var ev map[string]any
			if json.Unmarshal(line, &ev) == nil {
				switch ev["t"] {
				case "viol":
					v := viol{Key: str(ev["key"]), What: str(ev["what"]), Idx: int64(num(ev["idx"])), Shard: int(num(ev["shard"])), Variant: variantName, Witness: ev["witness"]}
					res.viols = append(res.viols, v)
				case "inconclusive":
					res.inconclusive = append(res.inconclusive, fmt.Sprintf("variant=%s idx=%d %s", variantName, int64(num(ev["idx"])), str(ev["what"])))
				case "meta":
					res.metas[str(ev["k"])] = ev["v"]
				case "floor":
					res.floors[str(ev["k"])] = int64(num(ev["min"]))
				case "progress":
					lastProgress = ev
				case "end":
					ended = true
					res.evals += int64(num(ev["evals"]))
					if m, ok := ev["counts"].(map[string]any); ok {
						for k, c := range m {
							res.counts[k] += int64(num(c))
						}
					}
					if m, ok := ev["nviol"].(map[string]any); ok {
						for k, c := range m {
							res.nviol[k] += int(num(c))
						}
					}
					if s, ok := ev["samples"].([]any); ok && len(res.samples) < 8 {
						res.samples = append(res.samples, s...)
					}
				}
			}
		}
		if err != nil {
			break
		}
	}
	return ended
}

// absorbRace turns race-detector log files into violations, de-duplicated by
// the pair of outermost SDK frames.
func absorbRace(prefix, variantName string, res *shardResult) {
	matches, _ := filepath.Glob(prefix + ".race.*")
	for _, m := range matches {
		b, _ := os.ReadFile(m)
		for _, block := range strings.Split(string(b), "==================") {
			if !strings.Contains(block, "WARNING: DATA RACE") {
				continue
			}
			res.counts["race_reports"]++
			sites := raceSites(block)
			sdk := false
			for _, st := range sites {
				sdk = sdk || !strings.HasPrefix(st, "non-sdk:")
			}
			if !sdk {
				// neither access has an SDK frame anywhere on its stack: a race inside the harness says
				// nothing about the property
				res.inconclusive = append(res.inconclusive, fmt.Sprintf("variant=%s: race report without any SDK frame (harness race): %s", variantName, strings.Join(sites, " vs ")))
				continue
			}
			k := "race:" + strings.Join(sites, "|")
			res.nviol[k]++
			if res.nviol[k] == 1 {
				res.viols = append(res.viols, viol{Key: k, What: "data race reported by the Go race detector: " + strings.Join(sites, " vs "), Variant: variantName, Idx: -1,
					Witness: map[string]any{"report": clip(block, 6000)}})
			}
		}
		_ = os.Remove(m)
	}
}

// raceSites extracts, for each of the two accesses of a report, the innermost
// SDK function; falls back to the innermost function at all.
func raceSites(block string) []string {
	var sites []string
	sections := strings.Split(block, "\n\n")
	for _, sec := range sections {
		t := strings.TrimSpace(sec)
		if !(strings.HasPrefix(t, "WARNING: DATA RACE") || strings.HasPrefix(t, "Read at") || strings.HasPrefix(t, "Write at") ||
			strings.HasPrefix(t, "Previous read") || strings.HasPrefix(t, "Previous write") || strings.HasPrefix(t, "Previous atomic") || strings.HasPrefix(t, "Atomic")) {
			continue
		}
		site := ""
		first := ""
		for _, ln := range strings.Split(t, "\n") {
			ln = strings.TrimSpace(ln)
			if strings.HasSuffix(ln, ")") && !strings.HasPrefix(ln, "/") && strings.Contains(ln, "(") && !strings.Contains(ln, " at 0x") && !strings.HasPrefix(ln, "WARNING") {
				fn := ln[:strings.LastIndex(ln, "(")]
				if first == "" {
					first = fn
				}
				if strings.Contains(fn, "go.flow.arcalot.io/pluginsdk/") {
					site = strings.TrimPrefix(fn, "go.flow.arcalot.io/pluginsdk/")
					break
				}
			}
		}
		if site == "" {
			site = "non-sdk:" + first
		}
		if i := strings.Index(site, "["); i >= 0 {
			if j := strings.LastIndex(site, "]"); j > i {
				site = site[:i] + site[j+1:]
			}
		}
		sites = append(sites, site)
	}
	sort.Strings(sites)
	if len(sites) > 2 {
		sites = sites[:2]
	}
	return sites
}

func clip(s string, n int) string {
	if len(s) > n {
		return s[:n] + "\n...[clipped]"
	}
	return s
}

func str(v any) string {
	s, _ := v.(string)
	return s
}

func num(v any) float64 {
	f, _ := v.(float64)
	return f
}

func tailFile(path string, n int64) string {
	f, err := os.Open(path)
	if err != nil {
		return ""
	}
	defer f.Close()
	st, _ := f.Stat()
	off := st.Size() - n
	if off < 0 {
		off = 0
	}
	_, _ = f.Seek(off, io.SeekStart)
	b, _ := io.ReadAll(f)
	return string(b)
}

func headFile(path string, n int64) string {
	f, err := os.Open(path)
	if err != nil {
		return ""
	}
	defer f.Close()
	b, _ := io.ReadAll(io.LimitReader(f, n))
	return string(b)
}

func firstLines(s string, n int) string {
	lines := strings.Split(s, "\n")
	if len(lines) > n {
		lines = lines[:n]
	}
	return strings.Join(lines, " | ")
}

// fatalFrame returns the innermost SDK function of the first goroutine in a crash dump
// (the panicking one), or "" if there is none.
func fatalFrame(dump string) string {
	i := strings.Index(dump, "\ngoroutine ")
	if i < 0 {
		return ""
	}
	block := dump[i+1:]
	if j := strings.Index(block, "\n\n"); j > 0 {
		block = block[:j]
	}
	for _, ln := range strings.Split(block, "\n") {
		if strings.HasPrefix(ln, "go.flow.arcalot.io/pluginsdk/") {
			f := strings.TrimPrefix(ln, "go.flow.arcalot.io/pluginsdk/")
			if k := strings.LastIndexByte(f, '('); k > 0 {
				f = f[:k]
			}
			if a := strings.Index(f, "["); a >= 0 {
				if b := strings.LastIndex(f, "]"); b > a {
					f = f[:a] + f[b+1:]
				}
			}
			return f
		}
	}
	return ""
}

// runningBlocks returns the goroutine blocks of a dump (SIGQUIT, GOTRACEBACK=all) whose goroutine was running or
// runnable, runtime-internal workers excluded.
func runningBlocks(dump string) []string {
	var out []string
	for _, b := range strings.Split(dump, "\n\n") {
		b = strings.TrimLeft(b, "\n")
		if !strings.HasPrefix(b, "goroutine ") {
			continue
		}
		hdr := b
		if i := strings.IndexByte(b, '\n'); i > 0 {
			hdr = b[:i]
		}
		if !(strings.Contains(hdr, "[running") || strings.Contains(hdr, "[runnable")) {
			continue
		}
		if strings.Contains(b, "runtime.gcBgMarkWorker") || strings.Contains(b, "runtime.bgsweep") || strings.Contains(b, "runtime.bgscavenge") || strings.Contains(b, "os/signal.") {
			continue
		}
		out = append(out, b)
	}
	return out
}

// busyOutsideSDK: the dump shows at least one computing goroutine, and none of them has a frame of the SDK.
func busyOutsideSDK(dump string) bool {
	blocks := runningBlocks(dump)
	if len(blocks) == 0 {
		return false
	}
	for _, b := range blocks {
		if strings.Contains(b, "go.flow.arcalot.io/pluginsdk/") {
			return false
		}
		if !strings.Contains(b, "verif/internal/") {
			// no stack to read (a goroutine running on another thread is listed without one), or only runtime
			// frames: nothing shows that this is the harness, so the overrun stays a hang
			return false
		}
	}
	return true
}

// busyFrames: the top frames of the computing goroutines, for the inconclusive note.
func busyFrames(dump string) string {
	var out []string
	for _, b := range runningBlocks(dump) {
		n := 0
		for _, ln := range strings.Split(b, "\n")[1:] {
			if ln != "" && !strings.HasPrefix(ln, "\t") && !strings.HasPrefix(ln, "runtime.") {
				if k := strings.LastIndexByte(ln, '('); k > 0 {
					ln = ln[:k]
				}
				out = append(out, ln)
				if n++; n >= 3 {
					break
				}
			}
		}
	}
	return strings.Join(out, " < ")
}

// fatalSite classifies a fatal crash from the head of the goroutine dump.
func fatalSite(dump string) string {
	switch {
	case strings.Contains(dump, "stack overflow"), strings.Contains(dump, "goroutine stack exceeds"):
		return "stack-overflow"
	case strings.Contains(dump, "concurrent map"):
		return "concurrent-map"
	case strings.Contains(dump, "checkptr"):
		return "checkptr"
	case strings.Contains(dump, "send on closed channel"):
		return "send-on-closed-channel"
	case strings.Contains(dump, "all goroutines are asleep"):
		return "deadlock"
	case strings.Contains(dump, "panic:"):
		return "panic"
	}
	return "exit"
}

func writeEvidence(id string, cfg propCfg, tier string, seed uint64, m shardResult, distinct int, keys, known, variants []string, wall float64, unknown int) {
	cov := map[string]any{
		"evaluations":         m.evals,
		"distinct_nontrivial": distinct,
		"rule":                str(m.metas["rule"]),
		"samples":             m.samples,
		"counters":            m.counts,
		"variants":            variants,
		"inconclusive":        len(m.inconclusive),
		"worker_crashes":      m.crashes,
		"known_findings":      known,
		"violation_keys":      keys,
	}
	if ex, ok := m.metas["exhaustive"].(bool); ok {
		cov["exhaustive"] = ex
	}
	for k, v := range m.metas {
		if strings.HasPrefix(k, "cov.") {
			cov[strings.TrimPrefix(k, "cov.")] = v
		}
	}
	if len(m.samples) == 0 {
		// no case was sampled by the workers (e.g. they all died early): say so instead of leaving the list empty
		cov["samples"] = []any{map[string]any{"kind": "none", "note": "no case was sampled in this run", "evaluations": m.evals}}
	}
	assumptions := []string{}
	if a, ok := m.metas["assumptions"].([]any); ok {
		for _, x := range a {
			assumptions = append(assumptions, str(x))
		}
	}
	ev := map[string]any{
		"property_id": id,
		"tier":        tier,
		"seed":        int64(seed),
		"level":       cfg.Level,
		"coverage":    cov,
		"assumptions": assumptions,
		"wall_s":      wall,
		"violations":  unknown,
	}
	b, _ := json.MarshalIndent(ev, "", " ")
	_ = os.MkdirAll(filepath.Join(verifDir, "evidence"), 0o755)
	_ = os.WriteFile(filepath.Join(verifDir, "evidence", id+".json"), append(b, '\n'), 0o644)
}
