// yieldgen is the build-overlay instrumenter: it puts a call verifY(<n>) before
// every statement of every block, case clause and select clause of the given
// files of the repository's *current working tree* and writes a `go build
// -overlay` description. Nothing in the repository is modified.
//
// The insertion is textual (at the byte offset of each statement, on the same
// line), so line numbers in stack traces still refer to the original source.
// A call statement placed before a statement cannot change the meaning of the
// program: labels stay attached (`verifY(3); L: for {`), `fallthrough` stays
// last, and the clause lists of switch/select bodies are not statement lists
// and are skipped.
package main

import (
	"encoding/json"
	"fmt"
	"go/ast"
	"go/parser"
	"go/token"
	"os"
	"path/filepath"
	"sort"
	"strings"
)

type point struct {
	N    int    `json:"n"`
	File string `json:"file"`
	Line int    `json:"line"`
	Func string `json:"func"`
	Kind string `json:"kind"`
}

func main() {
	if len(os.Args) < 4 {
		fmt.Fprintln(os.Stderr, "usage: yieldgen <repo> <outdir> <relfile>...")
		os.Exit(2)
	}
	repo, out := os.Args[1], os.Args[2]
	if err := os.MkdirAll(out, 0o755); err != nil {
		panic(err)
	}
	replace := map[string]string{}
	var points []point
	n := 0
	pkgs := map[string]string{} // dir -> package name
	for _, rel := range os.Args[3:] {
		src := filepath.Join(repo, rel)
		b, err := os.ReadFile(src)
		if err != nil {
			fmt.Fprintf(os.Stderr, "yieldgen: %v\n", err)
			os.Exit(1)
		}
		fset := token.NewFileSet()
		f, err := parser.ParseFile(fset, src, b, parser.ParseComments)
		if err != nil {
			fmt.Fprintf(os.Stderr, "yieldgen: %v\n", err)
			os.Exit(1)
		}
		pkgs[filepath.Dir(src)] = f.Name.Name
		clauseBodies := map[*ast.BlockStmt]bool{}
		ast.Inspect(f, func(nd ast.Node) bool {
			switch s := nd.(type) {
			case *ast.SwitchStmt:
				clauseBodies[s.Body] = true
			case *ast.TypeSwitchStmt:
				clauseBodies[s.Body] = true
			case *ast.SelectStmt:
				clauseBodies[s.Body] = true
			}
			return true
		})
		type ins struct {
			off int
			n   int
		}
		var inserts []ins
		var funcStack []string
		var walk func(nd ast.Node)
		addList := func(list []ast.Stmt) {
			fn := "?"
			if len(funcStack) > 0 {
				fn = funcStack[len(funcStack)-1]
			}
			for _, st := range list {
				pos := fset.Position(st.Pos())
				n++
				inserts = append(inserts, ins{pos.Offset, n})
				points = append(points, point{N: n, File: rel, Line: pos.Line, Func: fn, Kind: fmt.Sprintf("%T", st)[5:]})
			}
		}
		walk = func(nd ast.Node) {
			ast.Inspect(nd, func(x ast.Node) bool {
				switch s := x.(type) {
				case *ast.FuncDecl:
					name := s.Name.Name
					if s.Recv != nil && len(s.Recv.List) > 0 {
						name = recvName(s.Recv.List[0].Type) + "." + name
					}
					funcStack = append(funcStack, name)
					if s.Body != nil {
						walk(s.Body)
					}
					funcStack = funcStack[:len(funcStack)-1]
					return false
				case *ast.FuncLit:
					parent := "?"
					if len(funcStack) > 0 {
						parent = funcStack[len(funcStack)-1]
					}
					funcStack = append(funcStack, parent+".func")
					walk(s.Body)
					funcStack = funcStack[:len(funcStack)-1]
					return false
				case *ast.BlockStmt:
					if !clauseBodies[s] {
						addList(s.List)
					}
				case *ast.CaseClause:
					addList(s.Body)
				case *ast.CommClause:
					addList(s.Body)
				}
				return true
			})
		}
		for _, d := range f.Decls {
			walk(d)
		}
		sort.Slice(inserts, func(i, j int) bool { return inserts[i].off > inserts[j].off })
		res := append([]byte{}, b...)
		for _, in := range inserts {
			call := []byte(fmt.Sprintf("verifY(%d); ", in.n))
			res = append(res[:in.off], append(call, res[in.off:]...)...)
		}
		dst := filepath.Join(out, strings.ReplaceAll(rel, "/", "__"))
		if err := os.WriteFile(dst, res, 0o644); err != nil {
			panic(err)
		}
		replace[src] = dst
	}
	for dir, name := range pkgs {
		dst := filepath.Join(out, "zz_"+name+"_verif_yield.go")
		code := fmt.Sprintf(`package %s

// VerifYield is set by the verification harness (build overlay only).
var VerifYield func(int)

func verifY(n int) {
	if f := VerifYield; f != nil {
		f(n)
	}
}
`, name)
		if err := os.WriteFile(dst, []byte(code), 0o644); err != nil {
			panic(err)
		}
		replace[filepath.Join(dir, "zz_verif_yield.go")] = dst
	}
	ob, _ := json.MarshalIndent(map[string]any{"Replace": replace}, "", " ")
	if err := os.WriteFile(filepath.Join(out, "overlay.json"), ob, 0o644); err != nil {
		panic(err)
	}
	pb, _ := json.Marshal(points)
	if err := os.WriteFile(filepath.Join(out, "points.json"), pb, 0o644); err != nil {
		panic(err)
	}
	fmt.Printf("yieldgen: %d yield points in %d files\n", n, len(os.Args)-3)
}

func recvName(e ast.Expr) string {
	switch t := e.(type) {
	case *ast.StarExpr:
		return recvName(t.X)
	case *ast.Ident:
		return t.Name
	case *ast.IndexExpr:
		return recvName(t.X)
	case *ast.IndexListExpr:
		return recvName(t.X)
	}
	return "?"
}
