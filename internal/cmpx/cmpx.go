// Package cmpx: canonical rendering and comparison of decoded values (NaN equal
// to NaN, regexps by source, map order independent), CBOR normalisation and a
// deep copy for argument snapshots.
package cmpx

import (
	"fmt"
	"math"
	"reflect"
	"regexp"
	"sort"
	"strconv"
	"strings"

	"github.com/fxamacker/cbor/v2"
)

// Canon renders v so that two values are equal iff their renderings are equal.
// Dynamic types are part of the rendering (int64(1) != uint64(1) != float64(1)).
func Canon(v any) string {
	var sb strings.Builder
	canon(&sb, reflect.ValueOf(v), 0)
	return sb.String()
}

// CanonLoose is Canon without scalar type tags for integers (int64(1) == uint64(1)),
// used where only the CBOR-level value matters.
func CanonLoose(v any) string {
	var sb strings.Builder
	canonOpt(&sb, reflect.ValueOf(v), 0, true)
	return sb.String()
}

func canon(sb *strings.Builder, v reflect.Value, depth int) { canonOpt(sb, v, depth, false) }

func canonOpt(sb *strings.Builder, v reflect.Value, depth int, loose bool) {
	if depth > 200 {
		sb.WriteString("<deep>")
		return
	}
	if !v.IsValid() {
		sb.WriteString("nil")
		return
	}
	if v.Type() == reflect.TypeOf((*regexp.Regexp)(nil)) {
		if v.IsNil() {
			sb.WriteString("regexp(nil)")
		} else {
			sb.WriteString("regexp(" + strconv.Quote(v.Interface().(*regexp.Regexp).String()) + ")")
		}
		return
	}
	switch v.Kind() {
	case reflect.Interface:
		if v.IsNil() {
			sb.WriteString("nil")
			return
		}
		canonOpt(sb, v.Elem(), depth, loose)
	case reflect.Pointer:
		if v.IsNil() {
			sb.WriteString("nilptr:" + v.Type().String())
			return
		}
		sb.WriteString("&")
		canonOpt(sb, v.Elem(), depth+1, loose)
	case reflect.Bool:
		fmt.Fprintf(sb, "%s(%v)", v.Type(), v.Bool())
	case reflect.Int, reflect.Int8, reflect.Int16, reflect.Int32, reflect.Int64:
		if loose {
			fmt.Fprintf(sb, "i(%d)", v.Int())
		} else {
			fmt.Fprintf(sb, "%s(%d)", v.Type(), v.Int())
		}
	case reflect.Uint, reflect.Uint8, reflect.Uint16, reflect.Uint32, reflect.Uint64, reflect.Uintptr:
		if loose {
			fmt.Fprintf(sb, "i(%d)", v.Uint())
		} else {
			fmt.Fprintf(sb, "%s(%d)", v.Type(), v.Uint())
		}
	case reflect.Float32, reflect.Float64:
		f := v.Float()
		s := strconv.FormatFloat(f, 'g', -1, 64)
		if math.IsNaN(f) {
			s = "NaN"
		}
		// -0 and +0 are the same quantity (they are == in Go and identified by treat-empty-as-default)
		if f == 0 {
			s = "0"
		}
		if loose {
			fmt.Fprintf(sb, "f(%s)", s)
		} else {
			fmt.Fprintf(sb, "%s(%s)", v.Type(), s)
		}
	case reflect.String:
		if loose {
			sb.WriteString("s(" + strconv.Quote(v.String()) + ")")
		} else {
			sb.WriteString(v.Type().String() + "(" + strconv.Quote(v.String()) + ")")
		}
	case reflect.Slice, reflect.Array:
		if v.Kind() == reflect.Slice && v.Type().Elem().Kind() == reflect.Uint8 {
			fmt.Fprintf(sb, "bytes(%x)", v.Bytes())
			return
		}
		if !loose {
			sb.WriteString(v.Type().String())
		}
		// a nil slice and an empty slice are the same (empty) list
		sb.WriteString("[")
		for i := 0; i < v.Len(); i++ {
			if i > 0 {
				sb.WriteString(",")
			}
			canonOpt(sb, v.Index(i), depth+1, loose)
		}
		sb.WriteString("]")
	case reflect.Map:
		if !loose {
			sb.WriteString(v.Type().String())
		}
		// a nil map and an empty map are the same (empty) mapping
		items := make([]string, 0, v.Len())
		it := v.MapRange()
		for it.Next() {
			var kb, vb strings.Builder
			canonOpt(&kb, it.Key(), depth+1, loose)
			canonOpt(&vb, it.Value(), depth+1, loose)
			items = append(items, kb.String()+":"+vb.String())
		}
		sort.Strings(items)
		sb.WriteString("{" + strings.Join(items, ",") + "}")
	case reflect.Struct:
		sb.WriteString(v.Type().String() + "{")
		for i := 0; i < v.NumField(); i++ {
			if i > 0 {
				sb.WriteString(",")
			}
			sb.WriteString(v.Type().Field(i).Name + ":")
			f := v.Field(i)
			if !f.CanInterface() {
				fmt.Fprintf(sb, "<unexported %s>", f.Type())
				continue
			}
			canonOpt(sb, f, depth+1, loose)
		}
		sb.WriteString("}")
	case reflect.Func, reflect.Chan, reflect.UnsafePointer:
		fmt.Fprintf(sb, "%s@%x", v.Type(), v.Pointer())
	default:
		fmt.Fprintf(sb, "%s(%v)", v.Type(), v)
	}
}

func Equal(a, b any) bool { return Canon(a) == Canon(b) }

// CBORNorm passes v through the encoding ATP uses: cbor.Marshal + Unmarshal into any.
func CBORNorm(v any) (any, error) {
	b, err := cbor.Marshal(v)
	if err != nil {
		return nil, err
	}
	var out any
	if err := cbor.Unmarshal(b, &out); err != nil {
		return nil, err
	}
	return out, nil
}

// DeepCopy copies maps, slices and pointers-to-values reachable from v (regexps
// and functions are shared).
func DeepCopy(v any) any {
	if v == nil {
		return nil
	}
	return deepCopy(reflect.ValueOf(v), 0).Interface()
}

func deepCopy(v reflect.Value, depth int) reflect.Value {
	if depth > 10100 {
		return v
	}
	switch v.Kind() {
	case reflect.Interface:
		if v.IsNil() {
			return v
		}
		c := deepCopy(v.Elem(), depth+1)
		n := reflect.New(v.Type()).Elem()
		n.Set(c)
		return n
	case reflect.Map:
		if v.IsNil() {
			return v
		}
		n := reflect.MakeMapWithSize(v.Type(), v.Len())
		it := v.MapRange()
		for it.Next() {
			n.SetMapIndex(deepCopy(it.Key(), depth+1), deepCopy(it.Value(), depth+1))
		}
		return n
	case reflect.Slice:
		if v.IsNil() {
			return v
		}
		n := reflect.MakeSlice(v.Type(), v.Len(), v.Len())
		for i := 0; i < v.Len(); i++ {
			n.Index(i).Set(deepCopy(v.Index(i), depth+1))
		}
		return n
	case reflect.Pointer:
		if v.IsNil() || v.Type() == reflect.TypeOf((*regexp.Regexp)(nil)) {
			return v
		}
		if v.Elem().Kind() == reflect.Struct {
			// copy exported fields shallowly-deep
			n := reflect.New(v.Type().Elem())
			n.Elem().Set(v.Elem())
			for i := 0; i < n.Elem().NumField(); i++ {
				f := n.Elem().Field(i)
				if f.CanSet() {
					f.Set(deepCopy(f, depth+1))
				}
			}
			return n
		}
		n := reflect.New(v.Type().Elem())
		n.Elem().Set(deepCopy(v.Elem(), depth+1))
		return n
	case reflect.Struct:
		n := reflect.New(v.Type()).Elem()
		n.Set(v)
		for i := 0; i < n.NumField(); i++ {
			f := n.Field(i)
			if f.CanSet() {
				f.Set(deepCopy(f, depth+1))
			}
		}
		return n
	}
	return v
}
