package rig

import (
	"context"
	"fmt"
	"runtime"
	"sync"
	"sync/atomic"

	"go.flow.arcalot.io/pluginsdk/schema"
)

// CallRec is one observed step-handler invocation.
type CallRec struct {
	Step   string
	Nonce  string
	Input  map[string]any
	DataID int64
}

// SigRec is one observed signal-handler invocation.
type SigRec struct {
	DataID int64
	V      int64
}

type sigData struct {
	id int64
	mu sync.Mutex
	// got: the values of the signals this run's handler has recorded, for a step in mode "await"
	got chan int64
}

// Fixture is a plugin whose handlers are pure functions of their input that
// embed the input's unique nonce in the output, plus recording of everything
// the handlers saw.
type Fixture struct {
	Schema *schema.CallableSchema
	Gate   *Gate

	mu      sync.Mutex
	Calls   []CallRec
	Signals []SigRec
	inits   atomic.Int64
}

func (f *Fixture) Inits() int64 { return f.inits.Load() }

func (f *Fixture) Snapshot() ([]CallRec, []SigRec) {
	f.mu.Lock()
	defer f.mu.Unlock()
	return append([]CallRec{}, f.Calls...), append([]SigRec{}, f.Signals...)
}

func dv(name string) *schema.DisplayValue { return schema.NewDisplayValue(&name, nil, nil) }

func prop(t schema.Type, required bool) *schema.PropertySchema {
	return schema.NewPropertySchema(t, nil, required, nil, nil, nil, nil, nil)
}

func propDefault(t schema.Type, def string) *schema.PropertySchema {
	return schema.NewPropertySchema(t, nil, false, nil, nil, nil, &def, nil)
}

func echoInputScope() *schema.ScopeSchema {
	return schema.NewScopeSchema(schema.NewObjectSchema("EchoIn", map[string]*schema.PropertySchema{
		"nonce":   prop(schema.NewStringSchema(schema.IntPointer(1), nil, nil), true),
		"n":       prop(schema.NewIntSchema(schema.IntPointer(-1000000), schema.IntPointer(1000000), nil), false),
		"payload": prop(schema.NewAnySchema(), false),
		"mode": propDefault(schema.NewStringEnumSchema(map[string]*schema.DisplayValue{
			"ok": dv("OK"), "err": dv("Error output"), "undeclared": dv("Undeclared output"), "badout": dv("Bad output"), "panic": dv("Panic"), "gated": dv("Gated"),
			"badpanic": dv("Panic with a value that is not valid UTF-8"), "badundeclared": dv("Undeclared output ID that is not valid UTF-8"),
			"await": dv("Waits for a signal (step sig)")}), `"ok"`),
		"tags": prop(schema.NewListSchema(schema.NewStringSchema(nil, schema.IntPointer(16), nil), nil, schema.IntPointer(8)), false),
		// a one-of with integer keys whose discriminator is not a field of the members: over ATP the key arrives as
		// whatever integer type the CBOR decoder picks
		"choice": prop(schema.NewOneOfIntSchema[any](map[int64]schema.Object{
			1:  schema.NewObjectSchema("ChoiceA", map[string]*schema.PropertySchema{"x": prop(schema.NewIntSchema(nil, nil, nil), false)}),
			2:  schema.NewObjectSchema("ChoiceB", map[string]*schema.PropertySchema{"y": prop(schema.NewStringSchema(nil, nil, nil), false)}),
			-3: schema.NewObjectSchema("ChoiceC", map[string]*schema.PropertySchema{}),
		}, "kind", false), false),
	}))
}

func echoOutputs() map[string]*schema.StepOutputSchema {
	return map[string]*schema.StepOutputSchema{
		"success": schema.NewStepOutputSchema(schema.NewScopeSchema(schema.NewObjectSchema("EchoOut", map[string]*schema.PropertySchema{
			"nonce":   prop(schema.NewStringSchema(schema.IntPointer(1), nil, nil), true),
			"n2":      prop(schema.NewIntSchema(nil, nil, nil), false),
			"payload": prop(schema.NewAnySchema(), false),
			"tags":    prop(schema.NewMapSchema(schema.NewStringSchema(nil, nil, nil), schema.NewIntSchema(nil, nil, nil), nil, nil), false),
			"data_id": prop(schema.NewIntSchema(nil, nil, nil), false),
			"signals": prop(schema.NewListSchema(schema.NewIntSchema(nil, nil, nil), nil, nil), false),
		})), nil, false),
		"error": schema.NewStepOutputSchema(schema.NewScopeSchema(schema.NewObjectSchema("EchoErr", map[string]*schema.PropertySchema{
			"nonce":  prop(schema.NewStringSchema(nil, nil, nil), true),
			"reason": prop(schema.NewStringSchema(nil, nil, nil), true),
		})), nil, true),
	}
}

// echoBehaviour is the pure function behind every step handler.
func (f *Fixture) echoBehaviour(step string, dataID int64, in map[string]any) (string, any) {
	nonce, _ := in["nonce"].(string)
	f.mu.Lock()
	f.Calls = append(f.Calls, CallRec{Step: step, Nonce: nonce, Input: in, DataID: dataID})
	f.mu.Unlock()
	mode, _ := in["mode"].(string)
	switch mode {
	case "err":
		return "error", map[string]any{"nonce": nonce, "reason": "declared error output for " + nonce}
	case "undeclared":
		return "nope", map[string]any{"nonce": nonce}
	case "badout":
		return "success", map[string]any{"nonce": int64(5), "bogus": true}
	case "panic":
		panic("step handler panics for " + nonce)
	case "badpanic":
		panic("step handler panics with bytes that are not text: \xff\xfe\xc3( for " + nonce)
	case "badundeclared":
		return "nope-\xff\xc3(", map[string]any{"nonce": nonce}
	case "gated":
		f.Gate.Wait(nonce)
	}
	out := map[string]any{"nonce": nonce}
	if n, ok := in["n"].(int64); ok {
		out["n2"] = n*2 + 1
	}
	if p, ok := in["payload"]; ok {
		out["payload"] = p
	}
	if tags, ok := in["tags"].([]string); ok {
		m := map[string]int64{}
		for i, t := range tags {
			m[t] = int64(i)
		}
		out["tags"] = m
	}
	return "success", out
}

// SignalPanicValue is the value of "v" for which the fixture's signal handler panics.
const SignalPanicValue = 999999

// SignalSlowValue is the value of "v" for which the fixture's signal handler parks in the gate SlowHandlerGate+<data
// id> after recording the signal.
const SignalSlowValue = 888888

// SlowHandlerGate prefixes the gate keys of parked signal handlers. Gate.Waiting does not list them: they are opened
// with Gate.OpenPrefix.
const SlowHandlerGate = "slow-handler:"

// NewFixture builds a fresh plugin schema (fresh per-run state).
func NewFixture() *Fixture {
	f := &Fixture{Gate: NewGate()}
	echo := schema.NewCallableStep[map[string]any]("echo", echoInputScope(), echoOutputs(), nil,
		func(_ context.Context, in map[string]any) (string, any) { return f.echoBehaviour("echo", 0, in) })
	echo2 := schema.NewCallableStep[map[string]any]("echo2", echoInputScope(), echoOutputs(), nil,
		func(_ context.Context, in map[string]any) (string, any) {
			id, out := f.echoBehaviour("echo2", 0, in)
			if m, ok := out.(map[string]any); ok && id == "success" {
				m["data_id"] = int64(-2) // marks which step produced it
			}
			return id, out
		})
	sigScope := func() *schema.ScopeSchema {
		return schema.NewScopeSchema(schema.NewObjectSchema("SigIn", map[string]*schema.PropertySchema{
			"v": prop(schema.NewIntSchema(schema.IntPointer(0), schema.IntPointer(1000000), nil), true),
		}))
	}
	record := schema.NewCallableSignal[*sigData, map[string]any]("record", sigScope(), nil,
		func(_ context.Context, d *sigData, in map[string]any) {
			v, _ := in["v"].(int64)
			if v == SignalPanicValue {
				panic("signal handler panics")
			}
			f.mu.Lock()
			f.Signals = append(f.Signals, SigRec{DataID: d.id, V: v})
			f.mu.Unlock()
			if v == SignalSlowValue {
				// a handler that takes its time: it goes on when the session's calls are over (rig.RunSession), not at
				// the next quiet moment
				f.Gate.Wait(fmt.Sprintf("%s%d", SlowHandlerGate, d.id))
			}
			select {
			case d.got <- v:
			default:
			}
		})
	emitted := schema.NewSignalSchema("progress", sigScope(), nil)
	sig := schema.NewCallableStepWithSignals[*sigData, map[string]any]("sig", echoInputScope(), echoOutputs(),
		map[string]schema.CallableSignal{"record": record},
		map[string]*schema.SignalSchema{"progress": emitted}, nil,
		func() *sigData {
			// plugin code may take its time: yielding here is what a slow initialiser looks like to the scheduler
			for i := 0; i < 40; i++ {
				runtime.Gosched()
			}
			return &sigData{id: f.inits.Add(1), got: make(chan int64, 64)}
		},
		func(ctx context.Context, d *sigData, in map[string]any) (string, any) {
			awaited := int64(-1)
			if mode, _ := in["mode"].(string); mode == "await" {
				// the step needs a signal to finish: it reaches it through the run's step data or not at all
				// (the step data outlives a run: values left by an earlier run under the same ID are skipped)
				want, _ := in["n"].(int64)
			wait:
				for {
					select {
					case v := <-d.got:
						if v == want {
							awaited = v
							break wait
						}
					case <-ctx.Done():
						break wait
					}
				}
			}
			id, out := f.echoBehaviour("sig", d.id, in)
			if m, ok := out.(map[string]any); ok && id == "success" {
				m["data_id"] = d.id
				if awaited >= 0 {
					m["signals"] = []int64{awaited}
				}
			}
			return id, out
		})
	// a step whose input is a single-property object in front of a cycle of single-property objects: a scalar given
	// in place of the input is passed down by the shorthand rule, which has to notice that it goes round in circles
	chainScope := schema.NewScopeSchema(
		schema.NewObjectSchema("ChainIn", map[string]*schema.PropertySchema{"list": prop(schema.NewRefSchema("ChainNode", nil), true)}),
		schema.NewObjectSchema("ChainNode", map[string]*schema.PropertySchema{"next": prop(schema.NewRefSchema("ChainNode", nil), false)}))
	chain := schema.NewCallableStep[map[string]any]("chain", chainScope, echoOutputs(), nil,
		func(_ context.Context, in map[string]any) (string, any) {
			depth := int64(0)
			for m, _ := in["list"].(map[string]any); m != nil; m, _ = m["next"].(map[string]any) {
				depth++
			}
			return "success", map[string]any{"nonce": "chain", "n2": depth}
		})
	f.Schema = schema.NewCallableSchema(echo, echo2, sig, chain)
	return f
}

// InProcess computes what CallStep on a fresh identical plugin returns for this
// input - the reference result for transparency. A panicking handler is
// reported as an error, as the server must do.
func InProcess(runID, stepID string, input any) (outID string, data any, err error) {
	f := NewFixture()
	f.Gate.OpenAll()
	defer func() {
		if p := recover(); p != nil {
			err = fmt.Errorf("panic: %v", p)
		}
	}()
	if m, ok := input.(map[string]any); ok && stepID == "sig" && m["mode"] == "await" {
		// the signal the step waits for: in-process it is simply there before the step is called
		if n, ok := m["n"].(int64); ok {
			_ = f.Schema.CallSignal(context.Background(), runID, stepID, "record", map[string]any{"v": n})
		}
	}
	return f.Schema.CallStep(context.Background(), runID, stepID, input)
}
