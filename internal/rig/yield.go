package rig

import (
	"sync"
	"sync/atomic"
)

// PauseAt parks the goroutine that reaches yield point Point for the Hit-th
// time (1-based) until the monitor finds the rest of the system quiescent.
type PauseAt struct {
	Point int `json:"point"`
	Hit   int `json:"hit"`
}

// YieldCtl is the process-wide yield-point controller. With no schedule armed
// a hit costs one atomic load.
type YieldCtl struct {
	armed atomic.Bool

	mu      sync.Mutex
	cond    *sync.Cond
	hits    map[int]int
	sched   map[PauseAt]bool
	paused  []*pausedG
	lifo    bool
	sig     uint64 // order-sensitive hash of the hit sequence (interleaving signature)
	nhits   int64
	pausedN int // how many pauses actually happened
}

type pausedG struct {
	at       PauseAt
	released bool
}

// Y is the controller the overlay build calls into.
var Y = newYieldCtl()

func newYieldCtl() *YieldCtl {
	y := &YieldCtl{hits: map[int]int{}, sched: map[PauseAt]bool{}}
	y.cond = sync.NewCond(&y.mu)
	return y
}

// Arm starts recording hits and applies the schedule.
func (y *YieldCtl) Arm(sched []PauseAt, lifo bool) {
	y.mu.Lock()
	y.hits = map[int]int{}
	y.sched = map[PauseAt]bool{}
	for _, p := range sched {
		y.sched[p] = true
	}
	y.paused = nil
	y.lifo = lifo
	y.sig = 1469598103934665603
	y.nhits = 0
	y.pausedN = 0
	y.mu.Unlock()
	y.armed.Store(true)
}

// Disarm stops recording and lets every parked goroutine go.
func (y *YieldCtl) Disarm() {
	y.mu.Lock()
	y.armed.Store(false) // under the lock: a goroutine that is between its armed check and the lock sees it below
	y.sched = map[PauseAt]bool{}
	for _, p := range y.paused {
		p.released = true
	}
	y.paused = nil
	y.cond.Broadcast()
	y.mu.Unlock()
}

// Hook is what verifY(n) calls in overlay builds.
func (y *YieldCtl) Hook(n int) {
	if !y.armed.Load() {
		return
	}
	y.mu.Lock()
	if !y.armed.Load() {
		y.mu.Unlock()
		return
	}
	y.hits[n]++
	h := y.hits[n]
	y.nhits++
	y.sig = (y.sig ^ uint64(n)) * 1099511628211
	at := PauseAt{n, h}
	if !y.sched[at] {
		y.mu.Unlock()
		return
	}
	delete(y.sched, at)
	y.pausedN++
	Seq.Add(1)
	y.pause(at)
}

// pause is called with y.mu held; the function name is what the quiescence
// monitor looks for in goroutine dumps.
func (y *YieldCtl) pause(at PauseAt) {
	g := &pausedG{at: at}
	y.paused = append(y.paused, g)
	for !g.released {
		y.cond.Wait()
	}
	y.mu.Unlock()
}

// Park parks the calling goroutine like a scheduled pause does (released by the monitor at a quiescent point, in the
// schedule's order), without a yield point: used by transports whose Write returns late. No-op when nothing is armed.
func (y *YieldCtl) Park(label int) {
	if !y.armed.Load() {
		return
	}
	y.mu.Lock()
	if !y.armed.Load() {
		y.mu.Unlock()
		return
	}
	Seq.Add(1)
	y.pause(PauseAt{Point: label, Hit: 0})
}

// ReleaseOne lets one parked goroutine continue (oldest first, or newest first
// when the schedule says lifo). Returns false if none is parked.
func (y *YieldCtl) ReleaseOne() (PauseAt, bool) {
	y.mu.Lock()
	defer y.mu.Unlock()
	if len(y.paused) == 0 {
		return PauseAt{}, false
	}
	i := 0
	if y.lifo {
		i = len(y.paused) - 1
	}
	g := y.paused[i]
	y.paused = append(y.paused[:i], y.paused[i+1:]...)
	g.released = true
	y.cond.Broadcast()
	return g.at, true
}

// Stats returns hit counts per point, the interleaving signature and totals.
func (y *YieldCtl) Stats() (hits map[int]int, sig uint64, nhits int64, pauses int) {
	y.mu.Lock()
	defer y.mu.Unlock()
	hits = make(map[int]int, len(y.hits))
	for k, v := range y.hits {
		hits[k] = v
	}
	return hits, y.sig, y.nhits, y.pausedN
}

// HasPaused reports whether a goroutine is parked at a yield point.
func (y *YieldCtl) HasPaused() bool {
	y.mu.Lock()
	defer y.mu.Unlock()
	return len(y.paused) > 0
}
