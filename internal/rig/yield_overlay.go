//go:build verifoverlay

package rig

import (
	"go.flow.arcalot.io/pluginsdk/atp"
	"go.flow.arcalot.io/pluginsdk/schema"
)

// OverlayBuild reports whether this binary was built with the yield-point overlay.
const OverlayBuild = true

func init() {
	atp.VerifYield = Y.Hook
	schema.VerifYield = Y.Hook
}
