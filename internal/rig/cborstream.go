package rig

import (
	"bytes"
	"fmt"

	"github.com/fxamacker/cbor/v2"
)

// Msg is one top-level CBOR data item of a tapped stream.
type Msg struct {
	Start, End int64
	Value      any
	Raw        []byte
}

// SplitStream cuts a byte stream into its top-level CBOR items. It stops at the
// first item that does not decode (rest holds the undecodable tail).
func SplitStream(b []byte) (msgs []Msg, rest []byte, err error) {
	dm, _ := cbor.DecOptions{MaxNestedLevels: 64, MaxArrayElements: 1 << 20, MaxMapPairs: 1 << 20}.DecMode()
	dec := dm.NewDecoder(bytes.NewReader(b))
	pos := 0
	for pos < len(b) {
		var raw cbor.RawMessage
		if e := dec.Decode(&raw); e != nil {
			return msgs, b[pos:], e
		}
		end := dec.NumBytesRead()
		var v any
		if e := dm.Unmarshal(raw, &v); e != nil {
			return msgs, b[pos:], e
		}
		msgs = append(msgs, Msg{Start: int64(pos), End: int64(end), Value: v, Raw: append([]byte{}, raw...)})
		pos = end
	}
	return msgs, nil, nil
}

// Field reads m[key] from a decoded CBOR map (map[any]any).
func Field(v any, key string) (any, bool) {
	m, ok := v.(map[any]any)
	if !ok {
		return nil, false
	}
	x, ok := m[key]
	return x, ok
}

// RuntimeMsg is the decoded envelope of an ATP v3 runtime message.
type RuntimeMsg struct {
	ID    uint64
	RunID string
	Data  any
	OK    bool
}

func AsRuntime(v any) RuntimeMsg {
	var r RuntimeMsg
	id, ok1 := Field(v, "id")
	run, ok2 := Field(v, "run_id")
	data, _ := Field(v, "data")
	if !ok1 || !ok2 {
		return r
	}
	switch x := id.(type) {
	case uint64:
		r.ID = x
	case int64:
		r.ID = uint64(x)
	default:
		return r
	}
	r.RunID, _ = run.(string)
	r.Data = data
	r.OK = true
	return r
}

func (r RuntimeMsg) String() string {
	return fmt.Sprintf("{id:%d run:%q data:%v}", r.ID, r.RunID, r.Data)
}
