package rig

import (
	"runtime"
	"time"
)

// MonitorResult is the verdict of one monitored execution.
type MonitorResult struct {
	// "done": the session completed; "deadlock": a stop-the-world snapshot showed
	// every goroutine blocked on a channel/cond/mutex/WaitGroup with nothing
	// parked by the harness and no SDK timer pending, while the session was not
	// complete - nothing can ever run again; "inconclusive": the wall-clock
	// watchdog fired first.
	Outcome   string
	Snap      *Snapshot
	Snapshots int
	Released  []PauseAt
	Verdict   Verdict
}

// SendTimerStallIsVerdict makes Monitor return the outcome "send-timer-stall" as soon as a snapshot shows that only
// the server's send timeout can still fire (set by the checks that judge healthy connections).
var SendTimerStallIsVerdict = false

// Monitor drives logical-time scheduling: whenever the system is quiescent it
// asks onQuiescent to let something parked continue; if nothing is parked the
// system is dead. done must be safe to call concurrently with the session.
func Monitor(done func() bool, onQuiescent func(*Snapshot, Verdict) bool, wall time.Duration) MonitorResult {
	var res MonitorResult
	start := time.Now()
	spins := 0
	for {
		if done() {
			res.Outcome = "done"
			return res
		}
		snap := TakeSnapshot()
		res.Snapshots++
		v := snap.Classify()
		if v.Stalled() {
			if done() {
				res.Outcome = "done"
				return res
			}
			progressed := false
			if onQuiescent != nil {
				progressed = onQuiescent(snap, v)
			}
			if !progressed {
				if at, ok := Y.ReleaseOne(); ok {
					res.Released = append(res.Released, at)
					progressed = true
				}
			}
			if progressed {
				spins = 0
				continue
			}
			if v.Dead() {
				res.Outcome, res.Snap, res.Verdict = "deadlock", snap, v
				return res
			}
			if SendTimerStallIsVerdict && v.SendTimerStall() && !Y.HasPaused() {
				// logical verdict, no waiting: only the 60 s send timeout can move this state on
				res.Outcome, res.Snap, res.Verdict = "send-timer-stall", snap, v
				return res
			}
			// only SDK timers can move the system on: keep waiting (ends inconclusive)
		}
		spins++
		if spins < 20 {
			runtime.Gosched()
		} else {
			d := time.Duration(spins) * 2 * time.Microsecond
			if d > 300*time.Microsecond {
				d = 300 * time.Microsecond
			}
			time.Sleep(d)
		}
		if spins%64 == 0 && time.Since(start) > wall {
			if snap.BusyInSDK() && time.Since(start) < 15*wall {
				// a goroutine is still computing inside the SDK: that is not for a wall clock to judge. The case
				// stays open, and a computation that never ends is the driver's CPU-time verdict for it.
				continue
			}
			res.Outcome, res.Snap, res.Verdict = "inconclusive", snap, v
			return res
		}
	}
}

// Settle waits until no goroutine other than the caller is runnable (used
// between sessions so that stragglers of one session do not hit yield points
// of the next). Returns the final snapshot.
func Settle(wall time.Duration) *Snapshot {
	start := time.Now()
	for {
		snap := TakeSnapshot()
		v := snap.Classify()
		if v.Running == 0 {
			return snap
		}
		if time.Since(start) > wall {
			return snap
		}
		time.Sleep(50 * time.Microsecond)
	}
}

// BusyInSDK reports whether some goroutine other than the monitor's is running (not blocked) inside SDK code.
func (s *Snapshot) BusyInSDK() bool {
	for _, g := range s.others {
		if (g.State == "running" || g.State == "runnable") && g.Has("go.flow.arcalot.io/pluginsdk/") {
			return true
		}
	}
	return false
}
