//go:build !verifoverlay

package rig

// OverlayBuild reports whether this binary was built with the yield-point overlay.
const OverlayBuild = false
