package rig

import (
	"sort"
	"sync"
)

// Gate parks step handlers ("slow" steps) until the script opens them. A
// goroutine parked in a gate counts as *paused* for the quiescence monitor: the
// harness, not the SDK, decides when it continues.
type Gate struct {
	mu      sync.Mutex
	cond    *sync.Cond
	open    map[string]bool
	waiting map[string]int
	allOpen bool
}

func NewGate() *Gate {
	g := &Gate{open: map[string]bool{}, waiting: map[string]int{}}
	g.cond = sync.NewCond(&g.mu)
	return g
}

// Wait blocks until key is opened.
func (g *Gate) Wait(key string) { g.wait(key) }

//go:noinline
func (g *Gate) wait(key string) {
	g.mu.Lock()
	g.waiting[key]++
	for !g.open[key] && !g.allOpen {
		g.cond.Wait()
	}
	g.waiting[key]--
	g.mu.Unlock()
}

func (g *Gate) Open(key string) {
	g.mu.Lock()
	g.open[key] = true
	g.cond.Broadcast()
	g.mu.Unlock()
}

func (g *Gate) OpenAll() {
	g.mu.Lock()
	g.allOpen = true
	g.cond.Broadcast()
	g.mu.Unlock()
}

// Waiting lists keys with parked goroutines, sorted.
func (g *Gate) Waiting() []string {
	g.mu.Lock()
	defer g.mu.Unlock()
	var out []string
	for k, n := range g.waiting {
		if n > 0 && !g.open[k] && !g.allOpen {
			out = append(out, k)
		}
	}
	sort.Strings(out)
	return out
}
