package rig

import (
	"sort"
	"strings"
	"sync"
)

// Gate parks step handlers ("slow" steps) until the script opens them. A
// goroutine parked in a gate counts as *paused* for the quiescence monitor: the
// harness, not the SDK, decides when it continues.
type Gate struct {
	mu       sync.Mutex
	cond     *sync.Cond
	open     map[string]bool
	waiting  map[string]int
	allOpen  bool
	prefixes []string
}

func NewGate() *Gate {
	g := &Gate{open: map[string]bool{}, waiting: map[string]int{}}
	g.cond = sync.NewCond(&g.mu)
	return g
}

// Wait blocks until key is opened.
func (g *Gate) Wait(key string) {
	if strings.HasPrefix(key, SlowHandlerGate) {
		g.parkSlow(key)
		return
	}
	g.wait(key)
}

// parkSlow is wait under another name: the quiescence monitor counts a goroutine in wait as parked by the harness
// (something the harness will release at a quiet moment), and one in parkSlow as blocked - it goes on only when the
// session's calls are over, so a session that cannot finish its calls while a handler is parked here is dead.
//
//go:noinline
func (g *Gate) parkSlow(key string) {
	g.mu.Lock()
	g.waiting[key]++
	for !g.open[key] && !g.allOpen && !g.prefixOpen(key) {
		g.cond.Wait()
	}
	g.waiting[key]--
	g.mu.Unlock()
}

//go:noinline
func (g *Gate) wait(key string) {
	g.mu.Lock()
	g.waiting[key]++
	for !g.open[key] && !g.allOpen && !g.prefixOpen(key) {
		g.cond.Wait()
	}
	g.waiting[key]--
	g.mu.Unlock()
}

func (g *Gate) Open(key string) {
	g.mu.Lock()
	g.open[key] = true
	g.cond.Broadcast()
	g.mu.Unlock()
}

func (g *Gate) OpenAll() {
	g.mu.Lock()
	g.allOpen = true
	g.cond.Broadcast()
	g.mu.Unlock()
}

// Waiting lists keys with parked goroutines, sorted.
func (g *Gate) Waiting() []string {
	g.mu.Lock()
	defer g.mu.Unlock()
	var out []string
	for k, n := range g.waiting {
		if strings.HasPrefix(k, SlowHandlerGate) {
			continue // not a slow step: see OpenPrefix
		}
		if n > 0 && !g.open[k] && !g.allOpen {
			out = append(out, k)
		}
	}
	sort.Strings(out)
	return out
}

// OpenPrefix opens every gate whose key starts with prefix, for goroutines parked there now and for later ones.
func (g *Gate) OpenPrefix(prefix string) {
	g.mu.Lock()
	g.prefixes = append(g.prefixes, prefix)
	g.cond.Broadcast()
	g.mu.Unlock()
}

func (g *Gate) prefixOpen(key string) bool {
	for _, p := range g.prefixes {
		if strings.HasPrefix(key, p) {
			return true
		}
	}
	return false
}
