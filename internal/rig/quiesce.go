package rig

import (
	"bytes"
	"go/ast"
	"go/parser"
	"go/token"
	"os"
	"path/filepath"
	"runtime"
	"strconv"
	"strings"
	"sync"
)

// GState is one goroutine of a stop-the-world snapshot.
type GState struct {
	ID     int64
	State  string // first token of the bracket, e.g. "sync.Cond.Wait"
	Funcs  []string
	Header string
	Text   string
}

func (g GState) Has(sub string) bool {
	for _, f := range g.Funcs {
		if strings.Contains(f, sub) {
			return true
		}
	}
	return false
}

// Snapshot is an atomic picture of all goroutines: runtime.Stack(all=true)
// stops the world while it walks them.
type Snapshot struct {
	Self   int64
	Gs     []GState
	Raw    string
	others []GState
}

var blockedStates = map[string]bool{
	"chan receive": true, "chan send": true, "select": true, "sync.Cond.Wait": true,
	"sync.Mutex.Lock": true, "sync.RWMutex.RLock": true, "sync.RWMutex.Lock": true,
	"semacquire": true, "sync.WaitGroup.Wait": true, "select (no cases)": true,
	"chan receive (nil chan)": true, "chan send (nil chan)": true,
}

// timed SDK waits: a goroutine parked in one of these selects has a timer
// pending, so the system is not dead yet (60 s send timeout, 5 s close timeout).
var timedWaitFuncs = []string{"sendRuntimeMessage", "waitWithTimeout"}

// sendTimerFuncs: those of timedWaitFuncs that live in the server (the 60 s send timeout).
var sendTimerFuncs = []string{"sendRuntimeMessage"}

var timedOnce sync.Once

// loadTimedWaitFuncs finds the functions of the tree under test (VERIF_REPO/atp) that contain a select with a timer
// case (time.After, time.Tick, a Timer's / Ticker's C), so that renaming or adding one does not turn its timed wait
// into a "blocked for ever" verdict. The two names known at design time stay in the list.
func loadTimedWaitFuncs() {
	repo := os.Getenv("VERIF_REPO")
	if repo == "" {
		repo = "/repo"
	}
	files, _ := filepath.Glob(filepath.Join(repo, "atp", "*.go"))
	fset := token.NewFileSet()
	add := func(list *[]string, name string) {
		for _, x := range *list {
			if x == name {
				return
			}
		}
		*list = append(*list, name)
	}
	for _, fn := range files {
		if strings.HasSuffix(fn, "_test.go") {
			continue
		}
		f, err := parser.ParseFile(fset, fn, nil, 0)
		if err != nil {
			continue
		}
		for _, d := range f.Decls {
			fd, ok := d.(*ast.FuncDecl)
			if !ok || fd.Body == nil {
				continue
			}
			timed := false
			ast.Inspect(fd.Body, func(n ast.Node) bool {
				sel, ok := n.(*ast.SelectStmt)
				if !ok {
					return true
				}
				for _, cl := range sel.Body.List {
					cc, ok := cl.(*ast.CommClause)
					if !ok || cc.Comm == nil {
						continue
					}
					ast.Inspect(cc.Comm, func(m ast.Node) bool {
						if se, ok := m.(*ast.SelectorExpr); ok {
							if id, ok := se.X.(*ast.Ident); ok && id.Name == "time" && (se.Sel.Name == "After" || se.Sel.Name == "Tick") {
								timed = true
							}
							if se.Sel.Name == "C" {
								timed = true
							}
						}
						return true
					})
				}
				return true
			})
			if timed {
				add(&timedWaitFuncs, fd.Name.Name)
				if strings.Contains(filepath.Base(fn), "server") {
					add(&sendTimerFuncs, fd.Name.Name)
				}
			}
		}
	}
}

func TakeSnapshot() *Snapshot {
	buf := make([]byte, 1<<18)
	for {
		n := runtime.Stack(buf, true)
		if n < len(buf) {
			buf = buf[:n]
			break
		}
		buf = make([]byte, 2*len(buf))
	}
	s := &Snapshot{Raw: string(buf)}
	blocks := bytes.Split(buf, []byte("\n\n"))
	for i, b := range blocks {
		lines := strings.Split(string(b), "\n")
		if len(lines) == 0 || !strings.HasPrefix(lines[0], "goroutine ") {
			continue
		}
		h := lines[0]
		var g GState
		g.Header = h
		g.Text = string(b)
		rest := strings.TrimPrefix(h, "goroutine ")
		sp := strings.IndexByte(rest, ' ')
		if sp < 0 {
			continue
		}
		g.ID, _ = strconv.ParseInt(rest[:sp], 10, 64)
		lb, rb := strings.IndexByte(rest, '['), strings.LastIndexByte(rest, ']')
		if lb >= 0 && rb > lb {
			st := rest[lb+1 : rb]
			st = strings.Split(st, ",")[0]
			st = strings.TrimSuffix(st, " (scan)")
			g.State = strings.TrimSpace(st)
		}
		for _, ln := range lines[1:] {
			if strings.HasPrefix(ln, "\t") || ln == "" {
				continue
			}
			if strings.HasPrefix(ln, "created by ") {
				g.Funcs = append(g.Funcs, "created-by:"+strings.TrimPrefix(ln, "created by "))
				continue
			}
			if k := strings.LastIndexByte(ln, '('); k > 0 {
				ln = ln[:k]
			}
			g.Funcs = append(g.Funcs, ln)
		}
		if i == 0 {
			s.Self = g.ID
		}
		s.Gs = append(s.Gs, g)
	}
	for _, g := range s.Gs {
		if g.ID != s.Self {
			s.others = append(s.others, g)
		}
	}
	return s
}

// Classify the snapshot.
//
//	running:  some goroutine other than the caller can still make progress on its own
//	          (running / runnable / syscall / sleep / IO wait / timed SDK wait)
//	paused:   goroutines parked by the yield controller (harness decides when they go on)
//	blocked:  every other goroutine waits on a channel / cond / mutex / WaitGroup
type Verdict struct {
	Running      int
	Timed        int
	TimedSend    int // of Timed: goroutines in the server's 60 s send timeout (sendRuntimeMessage)
	Paused       int
	Blocked      int
	RunningDescr []string
}

func (s *Snapshot) Classify() Verdict {
	timedOnce.Do(loadTimedWaitFuncs)
	var v Verdict
	for _, g := range s.others {
		blocked := blockedStates[g.State]
		if g.State == "semacquire" && !g.Has("sync.(*WaitGroup).Wait") && !g.Has("sync.runtime_Semacquire") {
			// waiting for a runtime-internal semaphore (typically the world semaphore
			// our own snapshot holds, e.g. a goroutine about to start a GC cycle): it
			// runs on as soon as the snapshot ends.
			blocked = false
		}
		switch {
		case blocked && (g.Has("rig.(*YieldCtl).pause") || g.Has("rig.(*Gate).wait")):
			v.Paused++
		case blocked:
			timed := false
			if g.State == "select" {
				for _, f := range timedWaitFuncs {
					if g.Has("." + f) {
						timed = true
					}
				}
			}
			if timed {
				v.Timed++
				for _, f := range sendTimerFuncs {
					if g.Has("." + f) {
						v.TimedSend++
						break
					}
				}
				v.RunningDescr = append(v.RunningDescr, g.Header+" (timed wait)")
			} else {
				v.Blocked++
			}
		default:
			v.Running++
			v.RunningDescr = append(v.RunningDescr, g.Header)
		}
	}
	return v
}

// SendTimerStall: every goroutine is blocked, nothing is parked by the harness, and the only thing that can still
// happen is the expiry of the server's send timeout: a write that nobody will take for a minute.
func (v Verdict) SendTimerStall() bool {
	return v.Running == 0 && v.Paused == 0 && v.Timed > 0 && v.TimedSend == v.Timed
}

// Stalled: nothing runs by itself right now (timers of the SDK may still be pending).
func (v Verdict) Stalled() bool { return v.Running == 0 }

// Dead: nothing can ever run again: all blocked, nothing parked by the harness, no timer.
func (v Verdict) Dead() bool { return v.Running == 0 && v.Timed == 0 && v.Paused == 0 }

// MaxGID is the largest goroutine ID in the snapshot.
func (s *Snapshot) MaxGID() int64 {
	var m int64
	for _, g := range s.Gs {
		if g.ID > m {
			m = g.ID
		}
	}
	return m
}

// BlockedIn lists goroutines (other than the caller) with an ID above minGID whose stack contains sub.
func (s *Snapshot) BlockedIn(sub string, minGID int64) []GState {
	var out []GState
	for _, g := range s.others {
		if g.ID > minGID && g.Has(sub) {
			out = append(out, g)
		}
	}
	return out
}

// Summary renders the blocked goroutines compactly for witnesses.
func (s *Snapshot) Summary() []string {
	var out []string
	for _, g := range s.others {
		top := ""
		for _, f := range g.Funcs {
			if strings.Contains(f, "pluginsdk/") {
				top = f
				break
			}
		}
		if top == "" && len(g.Funcs) > 0 {
			for _, f := range g.Funcs {
				if strings.Contains(f, "verif/") {
					top = f
					break
				}
			}
		}
		out = append(out, g.State+" @ "+top)
	}
	return out
}

// Detail renders every goroutine with its SDK frames (innermost first, up to four), for diagnosing a stall.
func (s *Snapshot) Detail() []string {
	var out []string
	for _, g := range s.others {
		var frames []string
		for _, f := range g.Funcs {
			if strings.Contains(f, "pluginsdk/") && !strings.HasPrefix(f, "created-by:") {
				f = strings.TrimPrefix(f, "go.flow.arcalot.io/pluginsdk/")
				if i := strings.Index(f, "("); i > 0 && strings.HasSuffix(f, ")") && !strings.HasPrefix(f, "atp.(") && !strings.HasPrefix(f, "schema.(") {
					f = f[:i]
				}
				frames = append(frames, f)
				if len(frames) == 4 {
					break
				}
			}
		}
		if len(frames) == 0 {
			for _, f := range g.Funcs {
				if strings.Contains(f, "verif/") {
					frames = append(frames, f)
					break
				}
			}
		}
		out = append(out, g.State+" @ "+strings.Join(frames, " < "))
	}
	return out
}
