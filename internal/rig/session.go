package rig

import (
	"context"
	"fmt"
	"runtime/debug"
	"strings"
	"sync"
	"sync/atomic"
	"time"

	"go.flow.arcalot.io/pluginsdk/atp"
	"go.flow.arcalot.io/pluginsdk/schema"
)

// ExecSpec is one Execute call of a session history.
type ExecSpec struct {
	RunID     string
	StepID    string
	Input     any
	Signals   []schema.Input // sent through signalsToStep, then the channel is closed
	Emitted   bool           // pass a signalsFromStep channel and drain it
	NoSigCh   bool           // pass nil for signalsToStep even without signals
	HoldSigCh bool           // pass a signalsToStep channel that the caller never closes (closing is only recommended)
}

// SessionSpec is a history: groups run one after the other, the Execute calls
// of one group concurrently; then Close.
type SessionSpec struct {
	C2S, S2C  Mode
	ChunkSeed uint64
	Groups    [][]ExecSpec
	Sched     []PauseAt
	Lifo      bool
	Wall      time.Duration
	// CloseOverlap: Close is called while the Execute calls of the last group are in flight - as soon
	// as all their work-start messages have been written - instead of after they returned.
	CloseOverlap bool
	// PausesFirst: at a quiescent point a goroutine parked at a yield point is released before a
	// gated (slow) step is let go; otherwise slow steps are released first.
	PausesFirst bool
	// PluginExits: the plugin process exits when RunATPServer returns (its output ends, its input is closed).
	PluginExits bool
	// ExecAtClose: one more Execute, issued concurrently with the final Close.
	ExecAtClose *ExecSpec
	// LateClientWrites: every Write of the client returns only at the next quiescent point (after its bytes were
	// delivered): the plugin may have answered a message before the client knows it is out.
	LateClientWrites bool
	// CloseAfterItems: with CloseOverlap, Close is additionally held back until the client has written that many
	// messages in all (so that it lands in the middle of the signal traffic).
	CloseAfterItems int
	// SlowClientReads: the client's reads of the plugin's output each yield the processor that many times first,
	// which makes the client's read loop the slowest stage.
	SlowClientReads int
}

type ExecOutcome struct {
	Spec     ExecSpec
	Returned int32
	Result   atp.ExecutionResult
	Emitted  []schema.Input
}

type SessionResult struct {
	Monitor       MonitorResult
	ReadSchemaErr error
	SchemaOK      bool
	Execs         []*ExecOutcome
	CloseErr      error
	CloseReturned bool
	ServerErrors  []*atp.ServerError
	ServerDone    bool
	Panic         string // panic recovered on a goroutine the harness started (client calls / RunATPServer itself)
	PanicStack    string
	Fixture       *Fixture
	C2S, S2C      *Pipe
	Hits          map[int]int
	Sig           uint64
	NHits         int64
	Pauses        int
	Leaked        []string // goroutines with client frames still blocked after a completed session
	BaseGID       int64    // goroutines with a larger ID belong to this session
	// flags as they were when the monitor reached its verdict (before cleanup)
	CloseReturnedAtVerdict, ServerDoneAtVerdict bool
}

func chunker(seed uint64) func() int {
	s := seed | 1
	return func() int {
		s ^= s << 13
		s ^= s >> 7
		s ^= s << 17
		switch s % 5 {
		case 0:
			return 1
		case 1:
			return 1 + int(s>>8)%4
		case 2:
			return 1 + int(s>>8)%32
		default:
			return 1 + int(s>>8)%512
		}
	}
}

// RunSession executes one history against the real client and the real server
// in this process, under the quiescence monitor. It must be called from the
// goroutine that acts as the monitor (normally the worker's main goroutine).
func RunSession(spec SessionSpec) *SessionResult {
	res := &SessionResult{Fixture: NewFixture()}
	res.C2S = NewPipe("c2s", spec.C2S, chunker(spec.ChunkSeed))
	res.S2C = NewPipe("s2c", spec.S2C, chunker(spec.ChunkSeed*31+7))
	res.S2C.SlowRead = spec.SlowClientReads
	res.C2S.LateWrite = spec.LateClientWrites
	var doneCount atomic.Int32
	var panicMu sync.Mutex
	guard := func(name string, f func()) {
		defer doneCount.Add(1)
		defer func() {
			if p := recover(); p != nil {
				panicMu.Lock()
				if res.Panic == "" {
					res.Panic = fmt.Sprintf("%s: %v", name, p)
					res.PanicStack = string(debug.Stack())
				}
				panicMu.Unlock()
			}
		}()
		f()
	}
	res.BaseGID = TakeSnapshot().MaxGID()
	Y.Arm(spec.Sched, spec.Lifo)
	ctx, cancel := context.WithCancel(context.Background())
	go guard("RunATPServer", func() {
		res.ServerErrors = atp.RunATPServer(ctx, ReadEnd{res.C2S}, WriteEnd{res.S2C}, res.Fixture.Schema)
		res.ServerDone = true
		if spec.PluginExits {
			// the plugin is a process: when its server returns it exits, which ends its output and makes writes to
			// its input fail
			_ = res.S2C.CloseWrite()
			_ = res.C2S.CloseRead()
		}
	})
	go guard("client", func() {
		cli := atp.NewClient(Duplex{In: res.S2C, Out: res.C2S})
		s, err := cli.ReadSchema()
		res.ReadSchemaErr = err
		res.SchemaOK = err == nil && s != nil
		for gi, group := range spec.Groups {
			if err != nil {
				break // no healthy connection: the histories are about healthy ones
			}
			overlapClose := spec.CloseOverlap && gi == len(spec.Groups)-1
			var wg sync.WaitGroup
			for _, ex := range group {
				o := &ExecOutcome{Spec: ex}
				res.Execs = append(res.Execs, o)
				wg.Add(1)
				go func() {
					defer wg.Done()
					defer func() {
						if p := recover(); p != nil {
							panicMu.Lock()
							if res.Panic == "" {
								res.Panic = fmt.Sprintf("Execute(%s): %v", o.Spec.RunID, p)
								res.PanicStack = string(debug.Stack())
							}
							panicMu.Unlock()
						}
					}()
					var toStep chan schema.Input
					if len(o.Spec.Signals) > 0 || !o.Spec.NoSigCh {
						toStep = make(chan schema.Input, len(o.Spec.Signals)+1)
						for _, s := range o.Spec.Signals {
							toStep <- s
						}
						if !o.Spec.HoldSigCh {
							close(toStep) // (a caller is not obliged to close it: HoldSigCh leaves it open)
						}
					}
					var fromStep chan schema.Input
					var drained sync.WaitGroup
					if o.Spec.Emitted {
						fromStep = make(chan schema.Input)
						drained.Add(1)
						go func() {
							defer drained.Done()
							for s := range fromStep {
								o.Emitted = append(o.Emitted, s)
							}
						}()
					}
					var in <-chan schema.Input
					if toStep != nil {
						in = toStep
					}
					r := cli.Execute(schema.Input{RunID: o.Spec.RunID, ID: o.Spec.StepID, InputData: o.Spec.Input}, in, fromStep)
					o.Result = r
					atomic.AddInt32(&o.Returned, 1)
				}()
			}
			if overlapClose {
				want := map[string]bool{}
				for _, ex := range group {
					want[ex.RunID] = true
				}
				res.C2S.WaitWritten(func(tap []byte) bool {
					items, _, _ := SplitStream(tap)
					n := 0
					for _, it := range items {
						if rm := AsRuntime(it.Value); rm.OK && rm.ID == 1 && want[rm.RunID] {
							n++
						}
					}
					return n >= len(want) && len(items) >= spec.CloseAfterItems
				})
				res.Fixture.Gate.OpenPrefix(SlowHandlerGate) // the plugin does not end while a handler is still at work
				res.CloseErr = cli.Close()
				res.CloseReturned = true
			}
			wg.Wait()
		}
		// the calls of the history are over: signal handlers that were taking their time go on now
		res.Fixture.Gate.OpenPrefix(SlowHandlerGate)
		if !res.CloseReturned {
			var late sync.WaitGroup
			if spec.ExecAtClose != nil {
				// one more call, issued at the moment Close is called (the client is idle by then): it either gets its
				// result or is refused, and it returns
				o := &ExecOutcome{Spec: *spec.ExecAtClose}
				res.Execs = append(res.Execs, o)
				late.Add(1)
				go func() {
					defer late.Done()
					defer func() {
						if p := recover(); p != nil {
							panicMu.Lock()
							if res.Panic == "" {
								res.Panic = fmt.Sprintf("Execute(%s): %v", o.Spec.RunID, p)
								res.PanicStack = string(debug.Stack())
							}
							panicMu.Unlock()
						}
					}()
					o.Result = cli.Execute(schema.Input{RunID: o.Spec.RunID, ID: o.Spec.StepID, InputData: o.Spec.Input}, nil, nil)
					atomic.AddInt32(&o.Returned, 1)
				}()
			}
			res.CloseErr = cli.Close()
			late.Wait()
			res.CloseReturned = true
		}
		// Like an engine that is done with a plugin, keep the plugin's output flowing until it exits:
		// on a rendezvous transport a trailing message (e.g. a late signal error report) would
		// otherwise hold the server in its 60 s send timeout.
		go func() {
			buf := make([]byte, 4096)
			for {
				if _, err := res.S2C.Read(buf); err != nil {
					return
				}
			}
		}()
	})
	wall := spec.Wall
	if wall == 0 {
		wall = 20 * time.Second
	}
	// gated ("slow") steps are released one at a time whenever nothing else can run
	openGate := func(_ *Snapshot, v Verdict) bool {
		if spec.PausesFirst {
			if _, ok := Y.ReleaseOne(); ok {
				return true
			}
		}
		if w := res.Fixture.Gate.Waiting(); len(w) > 0 {
			res.Fixture.Gate.Open(w[0])
			return true
		}
		return false
	}
	res.Monitor = Monitor(func() bool { return doneCount.Load() == 2 }, openGate, wall)
	res.CloseReturnedAtVerdict, res.ServerDoneAtVerdict = res.CloseReturned, res.ServerDone
	res.Hits, res.Sig, res.NHits, res.Pauses = Y.Stats()
	Y.Disarm()
	cancel()
	if res.Monitor.Outcome == "done" {
		_ = res.S2C.CloseRead() // releases the drainer
		snap := Settle(2 * time.Second)
		for _, g := range snap.BlockedIn("atp.(*client)", res.BaseGID) {
			res.Leaked = append(res.Leaked, g.State+" @ "+firstSDKFrame(g))
		}
	} else {
		// free whatever can be freed so that later sessions are not disturbed
		_ = res.C2S.CloseRead()
		_ = res.C2S.CloseWrite()
		_ = res.S2C.CloseRead()
		_ = res.S2C.CloseWrite()
		res.Fixture.Gate.OpenAll()
		Settle(500 * time.Millisecond)
	}
	return res
}

func firstSDKFrame(g GState) string {
	for _, f := range g.Funcs {
		if strings.Contains(f, "pluginsdk/") && !strings.HasPrefix(f, "created-by:") {
			return f
		}
	}
	if len(g.Funcs) > 0 {
		return g.Funcs[0]
	}
	return "?"
}
