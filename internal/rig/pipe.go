// Package rig is the ATP test rig: in-memory transports with taps, chunking and
// fault injection; an independent CBOR stream splitter; a yield-point
// controller; and a stop-the-world quiescence monitor.
package rig

import (
	"errors"
	"io"
	"os"
	"runtime"
	"sync"
	"sync/atomic"
)

// Seq is the global logical clock for tap and yield events of one process.
var Seq atomic.Int64

type Mode int

const (
	// ModeSync is an io.Pipe-like rendezvous: Write returns only when every byte was read.
	ModeSync Mode = iota
	// ModeBuffered never blocks writers; reads return everything available.
	ModeBuffered
	// ModeChunked never blocks writers; a Read returns 1..k bytes, k drawn from
	// the chunker, regardless of message boundaries (fragmentation and coalescing).
	ModeChunked
)

func (m Mode) String() string { return [...]string{"sync", "buffered", "chunked"}[m] }

type FaultKind int

const (
	FaultNone FaultKind = iota
	FaultEOF
	FaultReadError
	FaultGarbage // the stream from the cut on is replaced by garbage bytes, then EOF
	FaultFlip    // the single byte at the offset is XORed with garbage[0]; the stream itself is not cut
	// FaultReadTimeout: from the offset on every Read fails with an error whose Timeout() is true - an expired read
	// deadline, which stays expired
	FaultReadTimeout
)

func (f FaultKind) String() string {
	return [...]string{"none", "eof", "read-error", "garbage", "byte-flip", "read-timeout"}[f]
}

var ErrInjectedRead = errors.New("injected read error")
var ErrInjectedWrite = errors.New("injected write error")

// ErrInjectedTimeout is what a connection with an expired read deadline returns, again and again.
var ErrInjectedTimeout error = injectedTimeout{}

type injectedTimeout struct{}

func (injectedTimeout) Error() string   { return "injected i/o timeout (read deadline exceeded)" }
func (injectedTimeout) Timeout() bool   { return true }
func (injectedTimeout) Temporary() bool { return true }
func (injectedTimeout) Is(target error) bool {
	return target == os.ErrDeadlineExceeded
}

// TapEvent is one Write as seen on the wire.
type TapEvent struct {
	Seq   int64
	Start int64 // offset of the first byte in the stream
	Len   int
}

// Pipe is a unidirectional byte stream. All blocking is on sync.Cond so that
// blocked users show as "sync.Cond.Wait" in a goroutine dump.
type Pipe struct {
	// OSFileClose makes closing an end that is already closed an error (os.ErrClosed), as *os.File does - and
	// os.Stdin / os.Stdout are what a plugin's server really runs on; io.Pipe never complains.
	OSFileClose bool
	Name        string
	mode        Mode

	mu     sync.Mutex
	cond   *sync.Cond
	buf    []byte // written, not yet read
	tap    []byte // everything ever written
	events []TapEvent

	delivered int64 // bytes handed to readers
	wclosed   bool  // writer closed: EOF after drain
	rclosed   bool  // reader closed: writes fail

	chunk func() int // next maximum read size for ModeChunked

	// fault on the read side at absolute delivered-offset cutAt
	fault     FaultKind
	cutAt     int64
	garbage   []byte
	garbagePo int

	// write-side failure: writes fail once writeOps reaches failWriteAt (0-based count of Write calls)
	failWriteAt int
	writeOps    int
	broken      bool // a write was refused: the stream is dead for its reader too
	lateFail    func()
	// LateWrite: see Write.
	LateWrite bool
	// SlowRead makes every Read call yield the processor that many times first: a consumer that is the slowest
	// stage of the pipeline.
	SlowRead int

	overlap atomic.Int32 // concurrent Write calls observed (framing monitor)
	Overlap atomic.Int32 // maximum seen
}

func NewPipe(name string, mode Mode, chunk func() int) *Pipe {
	p := &Pipe{Name: name, mode: mode, chunk: chunk, failWriteAt: -1, cutAt: -1}
	p.cond = sync.NewCond(&p.mu)
	return p
}

// CutAt arms a read-side fault after off bytes have been delivered.
func (p *Pipe) CutAt(off int64, kind FaultKind, garbage []byte) {
	p.mu.Lock()
	p.fault, p.cutAt, p.garbage = kind, off, garbage
	p.mu.Unlock()
}

// FailWritesFrom makes the n-th (0-based) and all later Write calls fail.
func (p *Pipe) FailWritesFrom(n int) {
	p.mu.Lock()
	p.failWriteAt = n
	p.mu.Unlock()
}

// FailWriteLate makes the n-th (0-based) Write call deliver its bytes, then call gate (which may block), then
// report an error; all later Write calls fail at once.
func (p *Pipe) FailWriteLate(n int, gate func()) {
	p.mu.Lock()
	p.failWriteAt, p.lateFail = n, gate
	p.mu.Unlock()
}

// WaitDelivered blocks until n bytes of the stream have been handed to the reader, or the stream has ended or
// reached its fault; it reports whether n bytes were delivered.
func (p *Pipe) WaitDelivered(n int64) bool {
	p.mu.Lock()
	defer p.mu.Unlock()
	for p.delivered < n {
		if p.wclosed || p.rclosed || p.faultReachedLocked() {
			return false
		}
		p.cond.Wait()
	}
	return true
}

// Write hands the bytes over; with LateWrite the call then stays parked until the monitor finds the rest of the system
// quiescent: the bytes have long reached the peer (and may have been answered) when the writer learns that they are out.
func (p *Pipe) Write(b []byte) (int, error) {
	n, err := p.write(b)
	if err == nil && p.LateWrite {
		Y.Park(-2)
	}
	return n, err
}

func (p *Pipe) write(b []byte) (int, error) {
	if c := p.overlap.Add(1); c > p.Overlap.Load() {
		p.Overlap.Store(c)
	}
	defer p.overlap.Add(-1)
	p.mu.Lock()
	defer p.mu.Unlock()
	op := p.writeOps
	p.writeOps++
	if p.failWriteAt >= 0 && op >= p.failWriteAt {
		if p.lateFail != nil && op == p.failWriteAt && !p.rclosed && !p.wclosed {
			// the bytes do reach the peer, the call takes its time and then reports an error (what a write on a
			// connection that dies under it can do)
			p.events = append(p.events, TapEvent{Seq: Seq.Add(1), Start: int64(len(p.tap)), Len: len(b)})
			p.tap = append(p.tap, b...)
			p.buf = append(p.buf, b...)
			p.cond.Broadcast()
			gate := p.lateFail
			p.mu.Unlock()
			gate()
			p.mu.Lock()
		}
		p.broken = true
		p.cond.Broadcast()
		return 0, ErrInjectedWrite
	}
	if p.rclosed || p.wclosed {
		return 0, io.ErrClosedPipe
	}
	p.events = append(p.events, TapEvent{Seq: Seq.Add(1), Start: int64(len(p.tap)), Len: len(b)})
	p.tap = append(p.tap, b...)
	p.buf = append(p.buf, b...)
	p.cond.Broadcast()
	if p.mode == ModeSync {
		// rendezvous: wait until our bytes were consumed (or the pipe died)
		target := int64(len(p.tap))
		for p.delivered < target && !p.rclosed && !p.faultReachedLocked() {
			p.cond.Wait()
		}
		if p.delivered < target && p.rclosed {
			return int(int64(len(b)) - (target - p.delivered)), io.ErrClosedPipe
		}
	}
	return len(b), nil
}

func (p *Pipe) faultReachedLocked() bool {
	return p.fault != FaultNone && p.fault != FaultFlip && p.delivered >= p.cutAt
}

func (p *Pipe) Read(b []byte) (int, error) {
	if len(b) == 0 {
		return 0, nil
	}
	for i := 0; i < p.SlowRead; i++ {
		runtime.Gosched()
	}
	p.mu.Lock()
	defer p.mu.Unlock()
	for {
		if p.rclosed {
			return 0, io.ErrClosedPipe
		}
		if p.faultReachedLocked() {
			switch p.fault {
			case FaultEOF:
				return 0, io.EOF
			case FaultReadError:
				return 0, ErrInjectedRead
			case FaultReadTimeout:
				return 0, ErrInjectedTimeout
			case FaultGarbage:
				if p.garbagePo >= len(p.garbage) {
					return 0, io.EOF
				}
				n := copy(b, p.garbage[p.garbagePo:])
				p.garbagePo += n
				return n, nil
			}
		}
		if len(p.buf) > 0 {
			n := len(b)
			if n > len(p.buf) {
				n = len(p.buf)
			}
			if p.mode == ModeChunked && p.chunk != nil {
				if k := p.chunk(); k >= 1 && k < n {
					n = k
				}
			}
			if p.fault != FaultNone && p.fault != FaultFlip && p.delivered+int64(n) > p.cutAt {
				n = int(p.cutAt - p.delivered)
			}
			copy(b, p.buf[:n])
			if p.fault == FaultFlip && p.cutAt >= p.delivered && p.cutAt < p.delivered+int64(n) {
				mask := byte(0x01)
				if len(p.garbage) > 0 {
					mask = p.garbage[0]
				}
				b[p.cutAt-p.delivered] ^= mask
			}
			p.buf = p.buf[n:]
			p.delivered += int64(n)
			Seq.Add(1)
			p.cond.Broadcast()
			if n == 0 {
				continue
			}
			return n, nil
		}
		if p.wclosed {
			return 0, io.EOF
		}
		p.cond.Wait()
	}
}

// CloseWrite ends the stream: readers get EOF after draining.
func (p *Pipe) CloseWrite() error {
	p.mu.Lock()
	defer p.mu.Unlock()
	if p.OSFileClose && p.wclosed {
		return os.ErrClosed
	}
	p.wclosed = true
	p.cond.Broadcast()
	return nil
}

// CloseRead makes pending and future reads and writes fail.
func (p *Pipe) CloseRead() error {
	p.mu.Lock()
	defer p.mu.Unlock()
	if p.OSFileClose && p.rclosed {
		return os.ErrClosed
	}
	p.rclosed = true
	p.cond.Broadcast()
	return nil
}

// Tap returns a copy of everything written so far and the per-Write events.
func (p *Pipe) Tap() ([]byte, []TapEvent) {
	p.mu.Lock()
	defer p.mu.Unlock()
	return append([]byte{}, p.tap...), append([]TapEvent{}, p.events...)
}

func (p *Pipe) Delivered() int64 {
	p.mu.Lock()
	defer p.mu.Unlock()
	return p.delivered
}

func (p *Pipe) Written() int64 {
	p.mu.Lock()
	defer p.mu.Unlock()
	return int64(len(p.tap))
}

// WaitWritten blocks (on the pipe's cond) until pred(tap) holds or the pipe is closed.
// Used by scripted peers to gate on what the other side has sent.
func (p *Pipe) WaitWritten(pred func(tap []byte) bool) bool {
	p.mu.Lock()
	defer p.mu.Unlock()
	for {
		if pred(p.tap) {
			return true
		}
		if p.wclosed || p.rclosed || p.broken {
			return false
		}
		p.cond.Wait()
	}
}

// ReadEnd / WriteEnd adapt a Pipe to io.ReadCloser / io.WriteCloser.
type ReadEnd struct{ P *Pipe }

func (r ReadEnd) Read(b []byte) (int, error) { return r.P.Read(b) }
func (r ReadEnd) Close() error               { return r.P.CloseRead() }

type WriteEnd struct{ P *Pipe }

func (w WriteEnd) Write(b []byte) (int, error) { return w.P.Write(b) }
func (w WriteEnd) Close() error                { return w.P.CloseWrite() }

// Duplex is the client's view of a connection (atp.ClientChannel).
type Duplex struct {
	In  *Pipe // server -> client
	Out *Pipe // client -> server
}

func (d Duplex) Read(b []byte) (int, error)  { return d.In.Read(b) }
func (d Duplex) Write(b []byte) (int, error) { return d.Out.Write(b) }
func (d Duplex) Close() error {
	_ = d.Out.CloseWrite()
	return d.In.CloseRead()
}
