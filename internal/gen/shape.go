// Package gen generates schemas (through the SDK's public constructors only),
// keeps a shape descriptor beside each one, and generates values.
//
// The shape descriptor is what the reference interpreter and the evidence use;
// the reference never looks at the SDK's own structs.
package gen

import (
	"fmt"
	"strings"
)

type Kind int

const (
	KInt Kind = iota
	KFloat
	KString
	KBool
	KPattern
	KIntEnum
	KStrEnum
	KTypedStrEnum
	KList
	KMap
	KAny
	KObject
	KOneOfStr
	KOneOfInt
	KRef
	KScope
)

var kindNames = [...]string{"int", "float", "string", "bool", "pattern", "enum_int", "enum_string", "typed_enum_string", "list", "map", "any", "object", "one_of_string", "one_of_int", "ref", "scope"}

func (k Kind) String() string { return kindNames[k] }

// NKinds is the number of node kinds.
const NKinds = int(KScope) + 1

type Shape struct {
	Kind Kind

	Min, Max   *int64   // int bounds; string length; list / map size
	FMin, FMax *float64 // float bounds
	Units      string   // "", bytes, ns, s, chars, pct
	Pattern    string   // string pattern ("" = none)
	IntVals    []int64
	StrVals    []string
	Display    bool // enum values carry display names
	NilDisplay bool // enum values have nil displays (D-SCH-20 class)

	Items      *Shape
	Keys, Vals *Shape

	ID         string
	Props      []*Prop
	Struct     string // "" = map-based object; otherwise the name of a pool struct type
	Unenforced bool
	// Typed: where the shape is used as a type (a property's, an item's, a member's), it is built with the typed
	// constructors - NewTypedObject (every third ID: its Any() view) for a struct-mapped object, NewTypedScopeSchema
	// for a scope. Entries of a scope's object table are always plain objects.
	Typed bool

	Disc    string
	Inlined bool
	Members []*Member

	RefID string
	NS    string

	Root    string
	Objects []*Shape
}

type Prop struct {
	Name      string
	T         *Shape
	Required  bool
	ReqIf     []string
	ReqIfNot  []string
	Conflicts []string
	Default   *string // JSON text
	Disabled  bool
	EmptyDef  bool // TreatEmptyAsDefaultValue
	HasDisp   bool
}

type Member struct {
	KeyS string
	KeyI int64
	T    *Shape // object, ref or scope
}

func (s *Shape) Prop(name string) *Prop {
	for _, p := range s.Props {
		if p.Name == name {
			return p
		}
	}
	return nil
}

// Env resolves references lexically: the innermost scope first for the self
// namespace; other namespaces through the tables applied from outside.
type Env struct {
	Parent  *Env
	Objects map[string]*Shape            // self namespace of this scope
	NS      map[string]map[string]*Shape // namespace -> object table applied to this subtree
}

func (e *Env) Push(scope *Shape) *Env {
	objs := map[string]*Shape{}
	for _, o := range scope.Objects {
		objs[o.ID] = o
	}
	return &Env{Parent: e, Objects: objs}
}

// Resolve finds the object a reference denotes, or nil if it is not linked.
func (e *Env) Resolve(ref *Shape) (*Shape, *Env) {
	if ref.NS == "" {
		for env := e; env != nil; env = env.Parent {
			if env.Objects != nil {
				if o, ok := env.Objects[ref.RefID]; ok {
					return o, env
				}
				return nil, nil // the nearest enclosing scope decides
			}
		}
		return nil, nil
	}
	for env := e; env != nil; env = env.Parent {
		if t, ok := env.NS[ref.NS]; ok {
			if o, ok := t[ref.RefID]; ok {
				// objects of an external namespace resolve their own self references in that table
				return o, &Env{Objects: t, NS: env.NS}
			}
			return nil, nil
		}
	}
	return nil, nil
}

// Describe renders a shape compactly (for witnesses and hashing).
func (s *Shape) Describe() string {
	var sb strings.Builder
	s.describe(&sb, 0)
	return sb.String()
}

func pi(p *int64) string {
	if p == nil {
		return "-"
	}
	return fmt.Sprint(*p)
}

func pf(p *float64) string {
	if p == nil {
		return "-"
	}
	return fmt.Sprint(*p)
}

func (s *Shape) describe(sb *strings.Builder, depth int) {
	if s == nil {
		sb.WriteString("<nil>")
		return
	}
	if depth > 12 {
		sb.WriteString("...")
		return
	}
	switch s.Kind {
	case KInt:
		fmt.Fprintf(sb, "int[%s,%s]", pi(s.Min), pi(s.Max))
		if s.Units != "" {
			sb.WriteString("u:" + s.Units)
		}
	case KFloat:
		fmt.Fprintf(sb, "float[%s,%s]", pf(s.FMin), pf(s.FMax))
		if s.Units != "" {
			sb.WriteString("u:" + s.Units)
		}
	case KString:
		fmt.Fprintf(sb, "string[%s,%s]", pi(s.Min), pi(s.Max))
		if s.Pattern != "" {
			fmt.Fprintf(sb, "/%s/", s.Pattern)
		}
	case KBool, KPattern, KAny:
		sb.WriteString(s.Kind.String())
	case KIntEnum:
		fmt.Fprintf(sb, "enum_int%v", s.IntVals)
		if s.Units != "" {
			sb.WriteString("u:" + s.Units)
		}
	case KStrEnum, KTypedStrEnum:
		fmt.Fprintf(sb, "%s%q", s.Kind, s.StrVals)
	case KList:
		fmt.Fprintf(sb, "list[%s,%s]<", pi(s.Min), pi(s.Max))
		s.Items.describe(sb, depth+1)
		sb.WriteString(">")
	case KMap:
		fmt.Fprintf(sb, "map[%s,%s]<", pi(s.Min), pi(s.Max))
		s.Keys.describe(sb, depth+1)
		sb.WriteString(",")
		s.Vals.describe(sb, depth+1)
		sb.WriteString(">")
	case KObject:
		fmt.Fprintf(sb, "object %s", s.ID)
		if s.Struct != "" {
			sb.WriteString("(struct " + s.Struct + ")")
		}
		if s.Typed {
			sb.WriteString("(typed)")
		}
		sb.WriteString("{")
		for i, p := range s.Props {
			if i > 0 {
				sb.WriteString("; ")
			}
			sb.WriteString(p.Name)
			if p.Required {
				sb.WriteString("!")
			}
			if len(p.ReqIf) > 0 {
				fmt.Fprintf(sb, " req_if%v", p.ReqIf)
			}
			if len(p.ReqIfNot) > 0 {
				fmt.Fprintf(sb, " req_if_not%v", p.ReqIfNot)
			}
			if len(p.Conflicts) > 0 {
				fmt.Fprintf(sb, " conflicts%v", p.Conflicts)
			}
			if p.Default != nil {
				fmt.Fprintf(sb, " default=%s", *p.Default)
			}
			if p.Disabled {
				sb.WriteString(" disabled")
			}
			if p.EmptyDef {
				sb.WriteString(" empty_is_default")
			}
			sb.WriteString(": ")
			p.T.describe(sb, depth+1)
		}
		sb.WriteString("}")
	case KOneOfStr, KOneOfInt:
		fmt.Fprintf(sb, "%s(%s,inlined=%v){", s.Kind, s.Disc, s.Inlined)
		for i, m := range s.Members {
			if i > 0 {
				sb.WriteString("; ")
			}
			if s.Kind == KOneOfStr {
				fmt.Fprintf(sb, "%q: ", m.KeyS)
			} else {
				fmt.Fprintf(sb, "%d: ", m.KeyI)
			}
			m.T.describe(sb, depth+1)
		}
		sb.WriteString("}")
	case KRef:
		fmt.Fprintf(sb, "ref(%s", s.RefID)
		if s.NS != "" {
			sb.WriteString("@" + s.NS)
		}
		sb.WriteString(")")
	case KScope:
		if s.Typed {
			sb.WriteString("typed-")
		}
		fmt.Fprintf(sb, "scope(root=%s){", s.Root)
		for i, o := range s.Objects {
			if i > 0 {
				sb.WriteString(" | ")
			}
			o.describe(sb, depth+1)
		}
		sb.WriteString("}")
	}
}

// Walk visits every shape node once (not following references).
func (s *Shape) Walk(f func(*Shape)) {
	if s == nil {
		return
	}
	f(s)
	switch s.Kind {
	case KList:
		s.Items.Walk(f)
	case KMap:
		s.Keys.Walk(f)
		s.Vals.Walk(f)
	case KObject:
		for _, p := range s.Props {
			p.T.Walk(f)
		}
	case KOneOfStr, KOneOfInt:
		for _, m := range s.Members {
			m.T.Walk(f)
		}
	case KScope:
		for _, o := range s.Objects {
			o.Walk(f)
		}
	}
}

// Depth of the shape tree.
func (s *Shape) Depth() int {
	if s == nil {
		return 0
	}
	d := 0
	sub := func(x *Shape) {
		if dd := x.Depth(); dd > d {
			d = dd
		}
	}
	switch s.Kind {
	case KList:
		sub(s.Items)
	case KMap:
		sub(s.Keys)
		sub(s.Vals)
	case KObject:
		for _, p := range s.Props {
			sub(p.T)
		}
	case KOneOfStr, KOneOfInt:
		for _, m := range s.Members {
			sub(m.T)
		}
	case KScope:
		for _, o := range s.Objects {
			sub(o)
		}
	}
	return d + 1
}

// Clone deep-copies a shape tree.
func (s *Shape) Clone() *Shape {
	if s == nil {
		return nil
	}
	c := *s
	cpI := func(p *int64) *int64 {
		if p == nil {
			return nil
		}
		v := *p
		return &v
	}
	cpF := func(p *float64) *float64 {
		if p == nil {
			return nil
		}
		v := *p
		return &v
	}
	c.Min, c.Max, c.FMin, c.FMax = cpI(s.Min), cpI(s.Max), cpF(s.FMin), cpF(s.FMax)
	c.IntVals = append([]int64{}, s.IntVals...)
	c.StrVals = append([]string{}, s.StrVals...)
	c.Items, c.Keys, c.Vals = s.Items.Clone(), s.Keys.Clone(), s.Vals.Clone()
	c.Props = nil
	for _, p := range s.Props {
		q := *p
		q.T = p.T.Clone()
		q.ReqIf = append([]string{}, p.ReqIf...)
		q.ReqIfNot = append([]string{}, p.ReqIfNot...)
		q.Conflicts = append([]string{}, p.Conflicts...)
		if p.Default != nil {
			d := *p.Default
			q.Default = &d
		}
		c.Props = append(c.Props, &q)
	}
	c.Members = nil
	for _, m := range s.Members {
		mm := *m
		mm.T = m.T.Clone()
		c.Members = append(c.Members, &mm)
	}
	c.Objects = nil
	for _, o := range s.Objects {
		c.Objects = append(c.Objects, o.Clone())
	}
	return &c
}

// Nodes lists every node of the tree (not following references), parents before children.
func (s *Shape) Nodes() []*Shape {
	var out []*Shape
	s.Walk(func(x *Shape) { out = append(out, x) })
	return out
}
