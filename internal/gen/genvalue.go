package gen

import (
	"fmt"
	"math"
	"math/big"
	"regexp"
	"sort"
	"strconv"
	"strings"
	"time"

	"github.com/fxamacker/cbor/v2"

	"verif/internal/wk"
)

var reCache = map[string]*regexp.Regexp{}

func compiled(p string) *regexp.Regexp {
	if re, ok := reCache[p]; ok {
		return re
	}
	re := regexp.MustCompile(p)
	reCache[p] = re
	return re
}

var unitBaseName = map[string]string{"bytes": "B", "ns": "ns", "s": "s", "chars": "chars", "pct": "%", "dbytes": "B", "dsec": "s"}

// unitString renders n in a unit set with one larger unit when possible.
func unitString(r *wk.Rand, units string, n int64) (string, bool) {
	if n < 0 {
		return "", false
	}
	type m struct {
		mult int64
		name string
	}
	var ms []m
	switch units {
	case "bytes":
		ms = []m{{1 << 20, "MB"}, {1 << 10, "kB"}}
	case "ns":
		ms = []m{{int64(time.Second), "s"}, {int64(time.Millisecond), "ms"}}
	case "s":
		ms = []m{{3600, "H"}, {60, "m"}}
	case "dbytes":
		ms = []m{{1000000, "MB"}, {1000, "kB"}}
	case "dsec":
		ms = []m{{10000, "H"}, {100, "m"}}
	}
	base := unitBaseName[units]
	if len(ms) > 0 && r.Bool() {
		u := wk.Pick(r, ms)
		if r.Chance(12) {
			// a larger unit with the count zero is still a well-formed component
			return fmt.Sprintf("0%s%s%d%s", u.name, wk.Pick(r, []string{"", " "}), n, base), true
		}
		if n >= u.mult {
			q, rem := n/u.mult, n%u.mult
			s := fmt.Sprintf("%d%s", q, u.name)
			if rem > 0 {
				s += fmt.Sprintf("%s%d%s", wk.Pick(r, []string{"", " "}), rem, base)
			}
			return s, true
		}
	}
	return fmt.Sprintf("%d%s%s", n, wk.Pick(r, []string{"", " "}), base), true
}

func pickInt(r *wk.Rand, lo, hi *int64) (int64, bool) {
	l, h := int64(math.MinInt64), int64(math.MaxInt64)
	if lo != nil {
		l = *lo
	}
	if hi != nil {
		h = *hi
	}
	if l > h {
		return 0, false
	}
	cands := []int64{l, h}
	if l < h {
		cands = append(cands, l+1, h-1)
	}
	for _, c := range []int64{0, 1, -1, 7, 100, -100, 1 << 40} {
		if c >= l && c <= h {
			cands = append(cands, c)
		}
	}
	// a random value in range
	span := new(big.Int).Sub(big.NewInt(h), big.NewInt(l))
	if span.IsInt64() && span.Int64() > 0 {
		cands = append(cands, l+r.I64n(span.Int64()+1), l+r.I64n(span.Int64()+1))
	} else if !span.IsInt64() {
		cands = append(cands, int64(r.U64()))
	}
	return wk.Pick(r, cands), true
}

func pickFloat(r *wk.Rand, lo, hi *float64) (float64, bool) {
	l, h := math.Inf(-1), math.Inf(1)
	if lo != nil {
		l = *lo
	}
	if hi != nil {
		h = *hi
	}
	if l > h {
		return 0, false
	}
	var cands []float64
	add := func(v float64) {
		if v >= l && v <= h && !math.IsInf(v, 0) && !math.IsNaN(v) {
			cands = append(cands, v)
		}
	}
	add(l)
	add(h)
	for _, c := range []float64{0, 1, -1, 0.5, -2.25, 100, 1e6, 12345.678, -1e-3} {
		add(c)
	}
	if !math.IsInf(l, 0) && !math.IsInf(h, 0) {
		add(l + (h-l)*r.F64())
		add(math.Nextafter(l, h))
	} else if !math.IsInf(l, 0) {
		add(l + float64(r.Intn(1000))/8)
	} else if !math.IsInf(h, 0) {
		add(h - float64(r.Intn(1000))/8)
	}
	if len(cands) == 0 {
		return 0, false
	}
	return wk.Pick(r, cands), true
}

var stringPool = []string{"", "a", "ab", "abc", "abcd", "abcde", "b", "ba", "x", "y", "xy", "a1", "12", "a12b", "1", "10", "007", "A_b-9", "hello world", "üñ", "aaaaaaa", "zzzzzzzzzz", "ab12cd", "GET /x", "POST ", "a ", " a", "x y", "\tz"}

func pickString(r *wk.Rand, s *Shape) (string, bool) {
	ok := func(v string) bool {
		n := int64(len(v))
		if s.Min != nil && n < *s.Min {
			return false
		}
		if s.Max != nil && n > *s.Max {
			return false
		}
		if s.Pattern != "" && !compiled(s.Pattern).MatchString(v) {
			return false
		}
		return true
	}
	for try := 0; try < 30; try++ {
		v := wk.Pick(r, stringPool)
		if try > 10 {
			// synthesise: letters of a random admissible length
			n := 0
			if s.Min != nil {
				n = int(*s.Min)
			}
			if s.Max != nil && *s.Max >= int64(n) {
				n += r.Intn(int(*s.Max) - n + 1)
			} else if s.Max == nil {
				n += r.Intn(4)
			}
			if n > 64 {
				n = 64
			}
			b := make([]byte, n)
			for i := range b {
				b[i] = "abxy1"[r.Intn(5)]
			}
			v = string(b)
		}
		if ok(v) {
			return v, true
		}
	}
	return "", false
}

var validPatterns = []string{"^a+$", "[0-9]+", "", "x|y", "^(foo|bar)$", "\\d{2,3}", "(?i)abc"}

// ValidRaw generates a canonical raw value (int64, float64, string, bool,
// []any, map[string]any / map[any]any) the shape is expected to accept.
func ValidRaw(r *wk.Rand, s *Shape, env *Env, depth int) (any, bool) {
	if depth > 7 {
		return nil, false
	}
	switch s.Kind {
	case KInt:
		v, ok := pickInt(r, s.Min, s.Max)
		return v, ok
	case KFloat:
		v, ok := pickFloat(r, s.FMin, s.FMax)
		return v, ok
	case KString:
		v, ok := pickString(r, s)
		return v, ok
	case KBool:
		return r.Bool(), true
	case KPattern:
		return wk.Pick(r, validPatterns), true
	case KAny:
		return AnyValue(r, 0), true
	case KIntEnum:
		return wk.Pick(r, s.IntVals), true
	case KStrEnum, KTypedStrEnum:
		return wk.Pick(r, s.StrVals), true
	case KList:
		n, ok := sizeWithin(r, s.Min, s.Max, 5)
		if !ok {
			return nil, false
		}
		l := make([]any, n)
		for i := range l {
			v, ok := ValidRaw(r, s.Items, env, depth+1)
			if !ok {
				return nil, false
			}
			l[i] = v
		}
		return l, true
	case KMap:
		n, ok := sizeWithin(r, s.Min, s.Max, 4)
		if !ok {
			return nil, false
		}
		m := map[any]any{}
		for tries := 0; len(m) < n && tries < 40; tries++ {
			k, ok := ValidRaw(r, s.Keys, env, depth+1)
			if !ok {
				return nil, false
			}
			if _, dup := m[k]; dup {
				continue
			}
			v, ok := ValidRaw(r, s.Vals, env, depth+1)
			if !ok {
				return nil, false
			}
			m[k] = v
		}
		if len(m) != n {
			return nil, false
		}
		return m, true
	case KObject:
		return validObject(r, s, env, depth)
	case KOneOfStr, KOneOfInt:
		if len(s.Members) == 0 {
			return nil, false
		}
		m := wk.Pick(r, s.Members)
		v, ok := ValidRaw(r, m.T, env, depth+1)
		if !ok {
			return nil, false
		}
		obj, isMap := v.(map[string]any)
		if !isMap {
			return nil, false
		}
		if s.Kind == KOneOfStr {
			obj[s.Disc] = m.KeyS
		} else {
			obj[s.Disc] = m.KeyI
		}
		return obj, true
	case KRef:
		if env == nil {
			return nil, false
		}
		o, oenv := env.Resolve(s)
		if o == nil {
			return nil, false
		}
		return ValidRaw(r, o, oenv, depth+1)
	case KScope:
		var root *Shape
		for _, o := range s.Objects {
			if o.ID == s.Root {
				root = o
			}
		}
		if root == nil {
			return nil, false
		}
		return ValidRaw(r, root, env.Push(s), depth+1)
	}
	return nil, false
}

func sizeWithin(r *wk.Rand, lo, hi *int64, soft int) (int, bool) {
	l, h := 0, soft
	if lo != nil {
		l = int(*lo)
	}
	if hi != nil && int(*hi) < h {
		h = int(*hi)
	}
	if hi != nil && *hi < int64(l) {
		return 0, false
	}
	if h < l {
		h = l
	}
	if l > 12 || l < 0 {
		return 0, false
	}
	return l + r.Intn(h-l+1), true
}

// PresenceOK applies the declared presence rules to a set of property names
// (after defaulting). It is used by the generator to find admissible subsets;
// the reference interpreter has its own statement of the rules.
func PresenceOK(s *Shape, set map[string]bool) bool {
	for _, p := range s.Props {
		if set[p.Name] {
			for _, c := range p.Conflicts {
				if set[c] {
					return false
				}
			}
			continue
		}
		if p.Required {
			return false
		}
		for _, q := range p.ReqIf {
			if set[q] {
				return false
			}
		}
		if len(p.ReqIfNot) > 0 {
			any := false
			for _, q := range p.ReqIfNot {
				if set[q] {
					any = true
				}
			}
			if !any {
				return false
			}
		}
	}
	return true
}

func validObject(r *wk.Rand, s *Shape, env *Env, depth int) (any, bool) {
	// A subset of properties that breaks a presence rule is cheap to retry. A property value that cannot be generated
	// is not: every level that retries it 25 times multiplies the work (25^depth attempts for one unsatisfiable leaf),
	// so those failures are counted separately and the deeper the object, the sooner it gives up.
	childFails, childFailLimit := 0, 3
	if depth == 1 {
		childFailLimit = 2
	} else if depth > 1 {
		childFailLimit = 1
	}
	for try := 0; try < 25 && childFails < childFailLimit; try++ {
		supplied := map[string]bool{}
		set := map[string]bool{}
		for _, p := range s.Props {
			if p.Disabled {
				continue
			}
			want := p.Required || r.Chance(55)
			if depth > 4 && !p.Required {
				want = false
			}
			if want {
				supplied[p.Name] = true
				set[p.Name] = true
			} else if p.Default != nil {
				set[p.Name] = true
			}
		}
		if !PresenceOK(s, set) {
			continue
		}
		obj := map[string]any{}
		ok := true
		for _, p := range s.Props {
			if !supplied[p.Name] {
				continue
			}
			v, vok := ValidRaw(r, p.T, env, depth+1)
			if !vok {
				ok = false
				childFails++
				break
			}
			if p.EmptyDef && isEmptyRaw(v) {
				// an explicitly supplied empty value of a treat-empty-as-default property is "set" for
				// Unserialize but "absent" for Validate/Serialize by documentation; such inputs have no
				// single reading under presence rules, so the property is left out instead
				if p.Required || !PresenceOK(s, without(set, p.Name)) {
					ok = false
					break
				}
				continue
			}
			obj[p.Name] = v
		}
		if ok {
			return obj, true
		}
	}
	return nil, false
}

// AnyValue generates a value for the any type (homogeneous lists, string- or int-keyed maps).
func AnyValue(r *wk.Rand, depth int) any {
	k := r.Intn(9)
	if depth >= 3 && k >= 6 {
		k = r.Intn(6)
	}
	switch k {
	case 0:
		return int64(r.Intn(2000)) - 1000
	case 1:
		return int64(r.U64() >> uint(1+r.Intn(62)))
	case 2:
		return float64(r.Intn(100000))/8 - 500
	case 3:
		return wk.Pick(r, stringPool)
	case 4:
		return r.Bool()
	case 5:
		return wk.Pick(r, []any{"", int64(0), 0.5, int64(-1), 1e300, int64(math.MaxInt64)})
	case 6, 7:
		n := r.Intn(4)
		l := make([]any, n)
		kind := r.Intn(4)
		for i := range l {
			switch kind {
			case 0:
				l[i] = int64(r.Intn(100))
			case 1:
				l[i] = float64(r.Intn(100)) / 4
			case 2:
				l[i] = fmt.Sprintf("s%d", r.Intn(100))
			default:
				l[i] = map[string]any{"k": int64(i)}
			}
		}
		return l
	default:
		n := r.Intn(4)
		if r.Chance(25) {
			m := map[any]any{}
			for i := 0; i < n; i++ {
				m[int64(r.Intn(20))] = AnyValue(r, depth+1)
			}
			return m
		}
		m := map[string]any{}
		for i := 0; i < n; i++ {
			m[fmt.Sprintf("k%d", r.Intn(20))] = AnyValue(r, depth+1)
		}
		return m
	}
}

// jsonable converts a canonical raw value into something encoding/json can
// marshal (map[any]any -> map[string]any with decimal keys).
func jsonable(v any) any {
	switch x := v.(type) {
	case map[any]any:
		m := map[string]any{}
		for k, val := range x {
			m[fmt.Sprint(k)] = jsonable(val)
		}
		return m
	case map[string]any:
		m := map[string]any{}
		for k, val := range x {
			m[k] = jsonable(val)
		}
		return m
	case []any:
		l := make([]any, len(x))
		for i := range x {
			l[i] = jsonable(x[i])
		}
		return l
	}
	return v
}

// Jsonable is the exported form of jsonable.
func Jsonable(v any) any { return jsonable(v) }

// ---- representations ------------------------------------------------------

// IntReprs returns n in every Go representation a decoder or caller may hand
// over (all integer widths that can hold it, integral floats, decimal strings).
func IntReprs(n int64) []any {
	out := []any{n}
	if n >= math.MinInt32 && n <= math.MaxInt32 {
		out = append(out, int32(n), int(n))
	} else {
		out = append(out, int(n))
	}
	if n >= math.MinInt16 && n <= math.MaxInt16 {
		out = append(out, int16(n))
	}
	if n >= math.MinInt8 && n <= math.MaxInt8 {
		out = append(out, int8(n))
	}
	if n >= 0 {
		out = append(out, uint64(n), uint(n))
		if n <= math.MaxUint32 {
			out = append(out, uint32(n))
		}
		if n <= math.MaxUint16 {
			out = append(out, uint16(n))
		}
		if n <= math.MaxUint8 {
			out = append(out, uint8(n))
		}
	}
	if n > -(1<<53) && n < 1<<53 {
		out = append(out, float64(n))
		if float64(float32(n)) == float64(n) {
			out = append(out, float32(n))
		}
	}
	out = append(out, strconv.FormatInt(n, 10))
	return out
}

// Represent rewrites a canonical raw value into another representation with the
// same intended meaning for shape s (numeric widths, numeric / unit strings,
// boolean words, map[string]any vs map[any]any, typed maps and slices).
func Represent(r *wk.Rand, v any, s *Shape, env *Env, depth int) any {
	if depth > 12 || s == nil {
		return v
	}
	switch s.Kind {
	case KInt, KIntEnum:
		n, ok := v.(int64)
		if !ok {
			return v
		}
		if s.Units != "" && r.Chance(35) {
			if us, ok := unitString(r, s.Units, n); ok {
				return us
			}
		}
		reps := IntReprs(n)
		if s.Units != "" {
			reps = reps[:len(reps)-1] // a bare decimal string is unspecified with units
		}
		return wk.Pick(r, reps)
	case KFloat:
		f, ok := v.(float64)
		if !ok {
			return v
		}
		cands := []any{f}
		if f == math.Trunc(f) && math.Abs(f) < 1<<53 {
			cands = append(cands, IntReprs(int64(f))[:3]...)
		}
		if float64(float32(f)) == f {
			cands = append(cands, float32(f))
		}
		if s.Units == "" {
			cands = append(cands, strconv.FormatFloat(f, 'f', -1, 64), strconv.FormatFloat(f, 'e', -1, 64))
		}
		return wk.Pick(r, cands)
	case KString, KStrEnum, KTypedStrEnum:
		str, ok := v.(string)
		if !ok {
			return v
		}
		if n, err := strconv.ParseInt(str, 10, 64); err == nil && strconv.FormatInt(n, 10) == str && r.Chance(40) {
			return wk.Pick(r, IntReprs(n)[:len(IntReprs(n))-1])
		}
		return str
	case KBool:
		b, ok := v.(bool)
		if !ok {
			return v
		}
		if b {
			return wk.Pick(r, []any{true, "true", "YES", "y", "On", "1", "enable", "Enabled", int64(1), uint8(1), int(1)})
		}
		return wk.Pick(r, []any{false, "false", "no", "N", "OFF", "0", "disable", "DISABLED", int64(0), uint64(0), int32(0)})
	case KList:
		l, ok := v.([]any)
		if !ok {
			return v
		}
		out := make([]any, len(l))
		for i := range l {
			out[i] = Represent(r, l[i], s.Items, env, depth+1)
		}
		return typedSlice(r, out)
	case KMap:
		m, ok := v.(map[any]any)
		if !ok {
			return v
		}
		out := map[any]any{}
		for k, val := range m {
			nk := Represent(r, k, s.Keys, env, depth+1)
			if !hashable(nk) {
				nk = k
			}
			if _, dup := out[nk]; dup {
				nk = k
			}
			out[nk] = Represent(r, val, s.Vals, env, depth+1)
		}
		return typedMap(r, out)
	case KObject:
		m, ok := v.(map[string]any)
		if !ok {
			return v
		}
		out := map[string]any{}
		for k, val := range m {
			if p := s.Prop(k); p != nil {
				out[k] = Represent(r, val, p.T, env, depth+1)
			} else {
				out[k] = val
			}
		}
		if len(s.Props) == 1 && len(out) == 1 && r.Chance(25) {
			for _, val := range out {
				if _, isMap := val.(map[string]any); !isMap {
					if _, isMap2 := val.(map[any]any); !isMap2 {
						return val // single-property shorthand
					}
				}
			}
		}
		if r.Chance(35) {
			am := map[any]any{}
			for k, val := range out {
				am[k] = val
			}
			return am
		}
		return out
	case KOneOfStr, KOneOfInt:
		m, ok := v.(map[string]any)
		if !ok {
			return v
		}
		var mem *Member
		for _, mm := range s.Members {
			if (s.Kind == KOneOfStr && m[s.Disc] == mm.KeyS) || (s.Kind == KOneOfInt && m[s.Disc] == mm.KeyI) {
				mem = mm
			}
		}
		if mem == nil {
			return v
		}
		d := m[s.Disc]
		rest := map[string]any{}
		for k, val := range m {
			if k != s.Disc || s.Inlined {
				rest[k] = val
			}
		}
		rv := Represent(r, rest, derefObject(mem.T, env), env, depth+1)
		var out map[string]any
		switch x := rv.(type) {
		case map[string]any:
			out = x
		case map[any]any:
			out = map[string]any{}
			for k, val := range x {
				out[k.(string)] = val
			}
		default:
			return v
		}
		if !s.Inlined {
			if s.Kind == KOneOfInt {
				out[s.Disc] = wk.Pick(r, IntReprs(d.(int64)))
			} else {
				out[s.Disc] = d
			}
		}
		if r.Chance(35) {
			am := map[any]any{}
			for k, val := range out {
				am[k] = val
			}
			return am
		}
		return out
	case KRef:
		if env == nil {
			return v
		}
		o, oenv := env.Resolve(s)
		if o == nil {
			return v
		}
		return Represent(r, v, o, oenv, depth+1)
	case KScope:
		for _, o := range s.Objects {
			if o.ID == s.Root {
				return Represent(r, v, o, env.Push(s), depth+1)
			}
		}
	}
	return v
}

func derefObject(s *Shape, env *Env) *Shape {
	for i := 0; i < 8 && s != nil; i++ {
		switch s.Kind {
		case KRef:
			if env == nil {
				return nil
			}
			s, env = env.Resolve(s)
		case KScope:
			var root *Shape
			for _, o := range s.Objects {
				if o.ID == s.Root {
					root = o
				}
			}
			env = env.Push(s)
			s = root
		default:
			return s
		}
	}
	return s
}

func hashable(v any) bool {
	switch v.(type) {
	case []any, map[any]any, map[string]any, []int64, []string, []float64:
		return false
	}
	return true
}

func typedSlice(r *wk.Rand, l []any) any {
	if len(l) == 0 || r.Chance(60) {
		return l
	}
	allI, allS, allF := true, true, true
	for _, x := range l {
		if _, ok := x.(int64); !ok {
			allI = false
		}
		if _, ok := x.(string); !ok {
			allS = false
		}
		if _, ok := x.(float64); !ok {
			allF = false
		}
	}
	switch {
	case allI:
		out := make([]int64, len(l))
		for i := range l {
			out[i] = l[i].(int64)
		}
		return out
	case allS:
		out := make([]string, len(l))
		for i := range l {
			out[i] = l[i].(string)
		}
		return out
	case allF:
		out := make([]float64, len(l))
		for i := range l {
			out[i] = l[i].(float64)
		}
		return out
	}
	return l
}

func typedMap(r *wk.Rand, m map[any]any) any {
	if len(m) == 0 || r.Chance(50) {
		return m
	}
	allSK, allIK := true, true
	for k := range m {
		if _, ok := k.(string); !ok {
			allSK = false
		}
		if _, ok := k.(int64); !ok {
			allIK = false
		}
	}
	if allSK {
		out := map[string]any{}
		for k, v := range m {
			out[k.(string)] = v
		}
		return out
	}
	if allIK {
		out := map[int64]any{}
		for k, v := range m {
			out[k.(int64)] = v
		}
		return out
	}
	return m
}

// ViaCBOR passes v through the encoding ATP uses (default modes).
func ViaCBOR(v any) (any, error) {
	b, err := cbor.Marshal(v)
	if err != nil {
		return nil, err
	}
	var out any
	if err := cbor.Unmarshal(b, &out); err != nil {
		return nil, err
	}
	return out, nil
}

// ---- hostile domain ---------------------------------------------------------

type namedInt int64
type namedFloat float64
type namedBool bool
type namedString string
type wrongStruct struct{ Q int }

// DeepNest builds n levels of nested lists or maps.
func DeepNest(n int, asMap bool) any { return DeepNestLeaf(n, asMap, int64(1)) }

// DeepNestLeaf is DeepNest with the innermost value given (e.g. one that no schema accepts).
func DeepNestLeaf(n int, asMap bool, leaf any) any {
	v := leaf
	for i := 0; i < n; i++ {
		if asMap {
			v = map[string]any{"a": v}
		} else {
			v = []any{v}
		}
	}
	return v
}

// HostileValue returns a value from the domain decoders and callers can produce
// but schemas mostly must reject: nil, typed nils, wrong kinds, odd map keys,
// byte strings, tags, big numbers, extreme numbers, named scalars, pointers, funcs.
func HostileValue(r *wk.Rand) (string, any) {
	type hv struct {
		name string
		v    any
	}
	var np *int64
	var nm map[string]any
	var ns []any
	var nps *P1
	x := int64(5)
	str := "s"
	all := []hv{
		{"nil", nil},
		{"typed-nil-ptr", np},
		{"typed-nil-map", nm},
		{"typed-nil-slice", ns},
		{"typed-nil-struct-ptr", nps},
		{"int64", int64(3)},
		{"uint64-max", uint64(math.MaxUint64)},
		{"uint64-2^63", uint64(1) << 63},
		{"int64-min", int64(math.MinInt64)},
		{"float-nan", math.NaN()},
		{"float-inf", math.Inf(1)},
		{"float-neginf", math.Inf(-1)},
		{"float-2^63", math.Ldexp(1, 63)},
		{"float-frac", 1.5},
		{"float-negzero", math.Copysign(0, -1)},
		{"float32-nan", float32(math.NaN())},
		{"string", "str"},
		{"empty-string", ""},
		{"numeric-string", "12"},
		{"unit-string-zero-minutes", "0m"},
		{"unit-string-zero-in-the-middle", "1H 0m 30s"},
		{"unit-string-zero-kB", "0kB 5B"},
		{"unit-string-zero-s-ns", "0s30ns"},
		{"bool", true},
		{"bytes", []byte{1, 2, 3}},
		{"empty-bytes", []byte{}},
		{"cbor-tag", cbor.Tag{Number: 42, Content: "x"}},
		{"big-int", *big.NewInt(0).Lsh(big.NewInt(1), 70)},
		{"big-int-ptr", big.NewInt(0).Lsh(big.NewInt(1), 70)},
		{"time", time.Unix(0, 0)},
		{"json-number", jsonNumber("12")},
		{"list-mixed", []any{int64(1), "a", nil, 1.5}},
		{"list-typed-int", []int{1, 2}},
		{"list-typed-string", []string{"a"}},
		{"list-of-lists", []any{[]any{}, []any{int64(1)}}},
		{"array", [2]int{1, 2}},
		{"map-any-mixed-keys", map[any]any{"a": int64(1), int64(2): "b"}},
		{"map-any-nan-key", map[any]any{math.NaN(): int64(1)}},
		{"map-any-bool-key", map[any]any{true: int64(1)}},
		{"map-any-nil-value", map[any]any{"a": nil}},
		{"map-int-keys", map[int]string{1: "a"}},
		{"map-int64-any", map[int64]any{1: "a"}},
		{"map-uint64-keys", map[uint64]any{1: "a"}},
		{"map-float-keys", map[float64]any{1.5: "a"}},
		{"map-string-string", map[string]string{"a": "b"}},
		{"map-string-any-empty", map[string]any{}},
		{"map-any-any-empty", map[any]any{}},
		{"map-array-key", map[any]any{[1]int{1}: "a"}},
		{"map-named-string-keys", map[namedString]any{"a": int64(1)}},
		{"map-named-string-keys-empty", map[namedString]any{}},
		{"map-NamedStr-keys", map[NamedStr]string{"a": "b"}},
		{"map-named-int-keys", map[namedInt]any{1: "a"}},
		{"map-bool-keys-typed", map[bool]any{true: "a"}},
		{"map-stringer-keys", map[fmt.Stringer]any{}},
		{"map-struct-keys", map[struct{ A int }]any{{1}: "a"}},
		{"map-ptr-keys", map[*int64]any{&x: "a"}},
		{"map-uint8-keys", map[uint8]int{1: 2}},
		{"map-string-named-values", map[string]namedString{"a": "b"}},
		{"list-named-strings", []namedString{"a"}},
		{"list-of-typed-maps", []map[string]int{{"a": 1}}},
		{"named-int", namedInt(4)},
		{"named-float", namedFloat(4.5)},
		{"named-bool", namedBool(true)},
		{"named-string", namedString("ns")},
		{"NamedStr", NamedStr("a")},
		{"ptr-int", &x},
		{"ptr-string", &str},
		{"wrong-struct", wrongStruct{1}},
		{"wrong-struct-ptr", &wrongStruct{1}},
		{"pool-struct-P1", P1{A: 1}},
		{"pool-struct-ptr-P5", &P5{Y: "y"}},
		{"func", func() {}},
		{"chan", make(chan int)},
		{"complex", complex(1, 2)},
		{"regexp", regexp.MustCompile("a")},
		{"nil-regexp", (*regexp.Regexp)(nil)},
		{"uintptr", uintptr(7)},
		{"rune-slice", []rune("ab")},
		{"any-slice-nil-elem", []any{nil}},
		{"interface-holding-nil-map", any(nm)},
	}
	h := wk.Pick(r, all)
	return h.name, h.v
}

type jsonNumber string

// HostileNames lists the hostile value classes (for coverage accounting).
func HostileCount() int { return 66 }

// SubstituteAt replaces the value at a random position of a raw tree with h and
// returns the new tree plus a textual path.
func SubstituteAt(r *wk.Rand, v any, h any) (any, string) {
	type pos struct {
		path string
		set  func(any)
	}
	var ps []pos
	var walk func(cur any, path string, set func(any))
	walk = func(cur any, path string, set func(any)) {
		ps = append(ps, pos{path, set})
		switch x := cur.(type) {
		case []any:
			for i := range x {
				i := i
				walk(x[i], fmt.Sprintf("%s[%d]", path, i), func(n any) { x[i] = n })
			}
		case map[string]any:
			for k, val := range x {
				k := k
				walk(val, path+"."+k, func(n any) { x[k] = n })
			}
		case map[any]any:
			for k, val := range x {
				k := k
				walk(val, fmt.Sprintf("%s{%v}", path, k), func(n any) { x[k] = n })
			}
		}
	}
	root := v
	walk(v, "$", func(n any) { root = n })
	p := wk.Pick(r, ps)
	p.set(h)
	return root, p.path
}

// CopyRaw deep-copies a canonical raw tree.
func CopyRaw(v any) any {
	switch x := v.(type) {
	case []any:
		out := make([]any, len(x))
		for i := range x {
			out[i] = CopyRaw(x[i])
		}
		return out
	case map[string]any:
		out := make(map[string]any, len(x))
		for k, val := range x {
			out[k] = CopyRaw(val)
		}
		return out
	case map[any]any:
		out := make(map[any]any, len(x))
		for k, val := range x {
			out[k] = CopyRaw(val)
		}
		return out
	}
	return v
}

var _ = strings.TrimSpace

// InsertOddKey picks a random map node of a raw tree, turns it into a map[any]any and adds an entry
// with a key decoders can produce but schemas mostly do not expect (NaN, integers, bools, nil-ish).
// Returns ok=false if the tree has no map node.
// StringifyNumbers writes every number of the tree (values and map keys) as decimal text, the form in which a
// YAML or command-line front end hands numbers over - and the only form that reaches a unit parser.
func StringifyNumbers(v any) any {
	switch x := v.(type) {
	case int64:
		return fmt.Sprint(x)
	case float64:
		return strconv.FormatFloat(x, 'f', -1, 64)
	case []any:
		out := make([]any, len(x))
		for i, e := range x {
			out[i] = StringifyNumbers(e)
		}
		return out
	case map[string]any:
		out := map[string]any{}
		for k, e := range x {
			out[k] = StringifyNumbers(e)
		}
		return out
	case map[any]any:
		out := map[any]any{}
		for k, e := range x {
			out[StringifyNumbers(k)] = StringifyNumbers(e)
		}
		return out
	}
	return v
}

// AddCollidingKey gives one map of the tree a second key that denotes the same key as an existing one
// (the integer 7 beside "7", or the other way round). Returns false if the tree has no such map.
func AddCollidingKey(r *wk.Rand, v any) (any, bool) {
	type cand struct {
		m    map[any]any
		twin any
		val  any
	}
	var cands []cand
	var walk func(cur any)
	walk = func(cur any) {
		switch x := cur.(type) {
		case []any:
			for _, e := range x {
				walk(e)
			}
		case map[string]any:
			for _, e := range x {
				walk(e)
			}
		case map[any]any:
			for k, e := range x {
				switch kk := k.(type) {
				case int64:
					cands = append(cands, cand{x, fmt.Sprint(kk), e})
				case string:
					if n, err := strconv.ParseInt(kk, 10, 64); err == nil && fmt.Sprint(n) == kk {
						cands = append(cands, cand{x, n, e})
					}
				}
				walk(e)
			}
		}
	}
	walk(v)
	if len(cands) == 0 {
		return v, false
	}
	sort.Slice(cands, func(i, j int) bool { return fmt.Sprint(cands[i].twin) < fmt.Sprint(cands[j].twin) })
	c := cands[r.Intn(len(cands))]
	if _, exists := c.m[c.twin]; exists {
		return v, false
	}
	if len(c.m) >= 2 && r.Bool() {
		// keep the number of raw keys: another entry makes room for the twin, so that the map shrinks by one
		// when the two are merged (a size bound counted on the raw keys no longer holds for the result)
		var others []string
		byName := map[string]any{}
		for k := range c.m {
			if fmt.Sprint(k) != fmt.Sprint(c.twin) {
				others = append(others, fmt.Sprintf("%T:%v", k, k))
				byName[fmt.Sprintf("%T:%v", k, k)] = k
			}
		}
		sort.Strings(others)
		if len(others) >= 2 {
			delete(c.m, byName[others[len(others)-1]])
		}
	}
	c.m[c.twin] = CopyRaw(c.val)
	return v, true
}

// AddCollidingSpelling rewrites one map with integer keys as a map[string]any whose keys are decimal text and adds
// a second spelling of one key ("07" or "+7" beside "7"): two keys that are different strings but the same integer.
func AddCollidingSpelling(r *wk.Rand, v any) (any, bool) {
	type cand struct {
		m   map[any]any
		set func(any)
	}
	var cands []cand
	var walk func(cur any, set func(any))
	walk = func(cur any, set func(any)) {
		switch x := cur.(type) {
		case []any:
			for i := range x {
				i := i
				walk(x[i], func(n any) { x[i] = n })
			}
		case map[string]any:
			for k := range x {
				k := k
				walk(x[k], func(n any) { x[k] = n })
			}
		case map[any]any:
			allInt := len(x) > 0
			for k := range x {
				if kk, ok := k.(int64); !ok || kk < 0 {
					allInt = false
				}
			}
			if allInt {
				cands = append(cands, cand{x, set})
			}
			for k := range x {
				k := k
				walk(x[k], func(n any) { x[k] = n })
			}
		}
	}
	root := v
	walk(v, func(n any) { root = n })
	if len(cands) == 0 {
		return v, false
	}
	c := cands[r.Intn(len(cands))]
	out := map[string]any{}
	var first string
	keys := make([]int64, 0, len(c.m))
	for k := range c.m {
		keys = append(keys, k.(int64))
	}
	sort.Slice(keys, func(i, j int) bool { return keys[i] < keys[j] })
	for _, k := range keys {
		out[fmt.Sprint(k)] = c.m[k]
		if first == "" {
			first = fmt.Sprint(k)
		}
	}
	// the second spelling carries another entry's value where there is one, so that which of the two survives a
	// merge can be told
	twin := CopyRaw(out[first])
	if len(keys) >= 2 {
		twin = CopyRaw(out[fmt.Sprint(keys[len(keys)-1])])
	}
	out[Pick2(r, "0", "+")+first] = twin
	c.set(out)
	return root, true
}

// Pick2 returns a or b.
func Pick2(r *wk.Rand, a, b string) string {
	if r.Bool() {
		return a
	}
	return b
}

func InsertOddKey(r *wk.Rand, v any) (any, string, bool) {
	type node struct {
		path string
		set  func(any)
		m    any
	}
	var nodes []node
	var walk func(cur any, path string, set func(any))
	walk = func(cur any, path string, set func(any)) {
		switch x := cur.(type) {
		case []any:
			for i := range x {
				i := i
				walk(x[i], fmt.Sprintf("%s[%d]", path, i), func(n any) { x[i] = n })
			}
		case map[string]any:
			nodes = append(nodes, node{path, set, x})
			for k, val := range x {
				k := k
				walk(val, path+"."+k, func(n any) { x[k] = n })
			}
		case map[any]any:
			nodes = append(nodes, node{path, set, x})
			for k, val := range x {
				k := k
				walk(val, fmt.Sprintf("%s{%v}", path, k), func(n any) { x[k] = n })
			}
		}
	}
	root := v
	walk(v, "$", func(n any) { root = n })
	if len(nodes) == 0 {
		return v, "", false
	}
	n := wk.Pick(r, nodes)
	out := map[any]any{}
	switch m := n.m.(type) {
	case map[string]any:
		for k, val := range m {
			out[k] = val
		}
	case map[any]any:
		for k, val := range m {
			out[k] = val
		}
	}
	keys := []any{math.NaN(), int64(7), uint64(3), true, 1.5, [1]int{1}, float32(2), int8(1), namedString("nk")}
	k := wk.Pick(r, keys)
	out[k] = wk.Pick(r, []any{int64(1), "v", nil, map[string]any{}})
	n.set(out)
	return root, fmt.Sprintf("%s + key %T", n.path, k), true
}

var perturbStrings = []string{"é", "héllo", "日", "日本語", "üñ", "ab", "", "a", "abcdef", "ÿÿÿ", "a ", " ", "\t", "0", "-1", "١٢", "1e3", "0x10", "1_000", "+5", " 5", "5 ", "NaN", "inf", "TRUE", "Yes", "nope"}

// Perturb replaces one leaf of a valid raw tree with a plausible value of a similar kind that sits near
// a boundary of some constraint (multi-byte strings, off-by-one numbers, extreme floats, blank strings).
// Whether the schema still accepts the result is for the schema to say.
func Perturb(r *wk.Rand, v any) (any, string) { return perturb(r, v, false) }

// PerturbNative is Perturb restricted to replacements of the same Go type as the leaf (int64, float64,
// string, bool), so that the result is still a value in native form.
func PerturbNative(r *wk.Rand, v any) (any, string) { return perturb(r, v, true) }

func perturb(r *wk.Rand, v any, native bool) (any, string) {
	type leaf struct {
		path string
		set  func(any)
		val  any
	}
	var leaves []leaf
	var walk func(cur any, path string, set func(any))
	walk = func(cur any, path string, set func(any)) {
		switch x := cur.(type) {
		case []any:
			for i := range x {
				i := i
				walk(x[i], fmt.Sprintf("%s[%d]", path, i), func(n any) { x[i] = n })
			}
		case map[string]any:
			for k, val := range x {
				k := k
				walk(val, path+"."+k, func(n any) { x[k] = n })
			}
		case map[any]any:
			for k, val := range x {
				k := k
				walk(val, fmt.Sprintf("%s{%v}", path, k), func(n any) { x[k] = n })
			}
		default:
			leaves = append(leaves, leaf{path, set, cur})
		}
	}
	root := v
	walk(v, "$", func(n any) { root = n })
	if len(leaves) == 0 {
		return v, ""
	}
	l := wk.Pick(r, leaves)
	var nv any
	if native {
		switch x := l.val.(type) {
		case int64:
			nv = wk.Pick(r, []int64{x + 1, x - 1, 0, -x, math.MaxInt64, math.MinInt64, x + 2, x - 2})
		case float64:
			nv = wk.Pick(r, []float64{math.Nextafter(x, math.Inf(1)), math.Nextafter(x, math.Inf(-1)), math.NaN(), math.Inf(-1), math.Inf(1), math.Copysign(0, -1), x * 2, x + 1, x - 1})
		case string:
			nv = wk.Pick(r, perturbStrings)
			if r.Chance(50) {
				nv = x + wk.Pick(r, []string{"é", "日", "x", " ", "éé"})
			}
		case bool:
			nv = !x
		default:
			nv = l.val
		}
		l.set(nv)
		return root, l.path
	}
	switch x := l.val.(type) {
	case int64:
		nv = wk.Pick(r, []any{x + 1, x - 1, int64(0), -x, float64(x) + 0.5, math.Inf(1), 1e19, uint64(math.MaxUint64), fmt.Sprint(x) + " ", " ", "\t", fmt.Sprintf("%d.0", x), float32(x), nil})
	case float64:
		nv = wk.Pick(r, []any{math.Nextafter(x, math.Inf(1)), math.Nextafter(x, math.Inf(-1)), math.NaN(), math.Inf(-1), math.Copysign(0, -1), x * 2, " ", "1e400", float32(x), nil})
	case string:
		nv = wk.Pick(r, perturbStrings)
		if r.Chance(30) {
			nv = x + wk.Pick(r, []string{"é", "日", "x", " "})
		} else if r.Chance(8) {
			nv = nil // an explicit null where a value was
		}
	case bool:
		nv = wk.Pick(r, []any{"TRUE", "nope", int64(2), int64(1), 1.0, "Y", "", nil})
	default:
		nv = wk.Pick(r, []any{nil, "", int64(0)})
	}
	l.set(nv)
	return root, l.path
}

// TrickyShapes are hand-written scopes whose reference structure needs something specific: self
// references, rho-shaped and mutually recursive chains of single-property objects, cycles that pass
// through inline objects, lists, maps, one-ofs and nested scopes, shadowed IDs.
func TrickyShapes() []*Shape {
	str := func() *Shape { return &Shape{Kind: KString} }
	ref := func(id string) *Shape { return &Shape{Kind: KRef, RefID: id} }
	obj := func(id string, props ...*Prop) *Shape { return &Shape{Kind: KObject, ID: id, Props: props} }
	p := func(name string, t *Shape) *Prop { return &Prop{Name: name, T: t} }
	scope := func(root string, objs ...*Shape) *Shape { return &Shape{Kind: KScope, Root: root, Objects: objs} }
	return []*Shape{
		// recursion through a one-of
		scope("Expr", obj("Expr", p("e", &Shape{Kind: KOneOfStr, Disc: "_type", Members: []*Member{{KeyS: "lit", T: ref("Lit")}, {KeyS: "neg", T: ref("Expr")}}})), obj("Lit", p("v", &Shape{Kind: KInt}))),
		// ... and through a one-of with integer keys
		scope("ExprI", obj("ExprI", p("e", &Shape{Kind: KOneOfInt, Disc: "kind", Members: []*Member{{KeyI: 1, T: ref("LitI")}, {KeyI: 2, T: ref("ExprI")}}})), obj("LitI", p("v", &Shape{Kind: KInt}))),
		// cycle through an inline single-property object
		scope("A", obj("A", p("b", ref("B"))), obj("B", p("c", obj("C", p("a", ref("A")))))),
		// cycle through a nested scope
		scope("A", obj("A", p("s", scope("I", obj("I", p("back", ref("I"))))))),
		// self reference through the only property
		scope("A", obj("A", p("a", ref("A")))),
		// rho: Root -> Node -> Node -> ...
		scope("Root", obj("Root", p("n", ref("Node"))), obj("Node", p("next", ref("Node")))),
		// longer rho
		scope("R", obj("R", p("x", ref("S"))), obj("S", p("y", ref("T"))), obj("T", p("z", ref("S")))),
		// mutual recursion
		scope("A", obj("A", p("b", ref("B"))), obj("B", p("a", ref("A")))),
		// recursion through a list and a map (finite inputs exist at every depth)
		scope("Tree", obj("Tree", p("value", str()), p("children", &Shape{Kind: KList, Items: ref("Tree")}), p("index", &Shape{Kind: KMap, Keys: str(), Vals: ref("Tree")}))),
		// an inner scope shadows an outer object ID
		scope("Outer", obj("Outer", p("x", ref("Leaf")), p("inner", scope("Inner", obj("Inner", p("y", ref("Leaf"))), obj("Leaf", p("v", &Shape{Kind: KInt}))))), obj("Leaf", p("v", str()))),
		// a struct-mapped root whose map[string]any field holds a recursive map-based object
		scope("Holder", &Shape{Kind: KObject, ID: "Holder", Struct: "P11", Props: []*Prop{p("m", ref("Node")), p("n", &Shape{Kind: KInt})}},
			obj("Node", p("v", &Shape{Kind: KInt}), p("next", ref("Node")))),
		// struct-mapped objects nested by value three levels deep (directly and through a reference), defaults
		// only on the innermost level: an absent middle object is materialised from the defaults below it
		scope("Top", &Shape{Kind: KObject, ID: "Top", Struct: "P12", Props: []*Prop{p("mid", &Shape{Kind: KObject, ID: "MidInline", Struct: "P3", Props: []*Prop{
			p("inner", ref("Leaf")), p("pinner", ref("Leaf")), p("n", &Shape{Kind: KInt})}}), p("other", ref("Mid")), p("tag", str())}},
			&Shape{Kind: KObject, ID: "Mid", Struct: "P3", Props: []*Prop{p("inner", ref("Leaf")), p("pinner", ref("Leaf")), p("n", &Shape{Kind: KInt})}},
			&Shape{Kind: KObject, ID: "Leaf", Struct: "P1", Props: []*Prop{{Name: "a", T: &Shape{Kind: KInt}, Default: jsonText(int64(10))}, {Name: "b", T: str(), Default: jsonText("fast")},
				p("c", &Shape{Kind: KFloat}), p("d", &Shape{Kind: KBool})}}),
		// a struct-mapped object that refers to itself through a pointer field (Next *P18)
		scope("Self", &Shape{Kind: KObject, ID: "Self", Struct: "P18", Props: []*Prop{{Name: "v", T: &Shape{Kind: KInt}, Required: true}, p("next", ref("Self"))}}),
		// a holder that keeps a self-referential node by value, under the property ID the node uses for its own
		// (pointer) self-reference
		scope("Holder20", &Shape{Kind: KObject, ID: "Holder20", Struct: "P20", Props: []*Prop{p("next", ref("Node18"))}},
			&Shape{Kind: KObject, ID: "Node18", Struct: "P18", Props: []*Prop{{Name: "v", T: &Shape{Kind: KInt}, Default: jsonText(int64(3))}, p("next", ref("Node18"))}}),
		// a single-property object that reaches itself through a list: nested lists are shorthand at every level
		scope("L", obj("L", p("e", &Shape{Kind: KList, Items: ref("L")}))),
		// a finite chain of single-property objects that passes through two DIFFERENT objects with the same ID (the
		// inner scope's Box shadows the outer one): a lone value is shorthand all the way down
		scope("Box", obj("Box", p("content", scope("Content", obj("Content", p("box", ref("Box"))), obj("Box", p("n", &Shape{Kind: KInt})))))),
		// finite defaults that pass through the same defaulted object twice (side by side, and as list items)
		scope("Twice", obj("Twice", &Prop{Name: "pair", T: ref("Pair"), Default: jsonText(map[string]any{"p": map[string]any{}, "q": map[string]any{}})}),
			obj("Pair", p("p", ref("Leaf")), p("q", ref("Leaf"))), obj("Leaf", &Prop{Name: "z", T: &Shape{Kind: KInt}, Default: jsonText(int64(1))})),
		scope("Items", obj("Items", &Prop{Name: "items", T: &Shape{Kind: KList, Items: ref("Leaf")}, Default: jsonText([]any{map[string]any{}, map[string]any{}})}),
			obj("Leaf", &Prop{Name: "z", T: &Shape{Kind: KInt}, Default: jsonText(int64(1))})),
		// two-property recursive object: the shorthand must not apply
		scope("N", obj("N", p("v", &Shape{Kind: KInt}), p("next", ref("N")))),
		// free-form positions: directly, as items, as values, as properties (deep nestings pass through them)
		{Kind: KAny},
		{Kind: KList, Items: &Shape{Kind: KAny}},
		{Kind: KMap, Keys: str(), Vals: &Shape{Kind: KAny}},
		scope("Free", obj("Free", p("free", &Shape{Kind: KAny}), p("items", &Shape{Kind: KList, Items: &Shape{Kind: KAny}}))),
		// shorthand cycles that pass through the typed variants: a typed object (and its Any() view: the ID's length
		// decides), a typed nested scope
		scope("O", obj("O", p("p", &Shape{Kind: KObject, ID: "T", Struct: "P19", Typed: true, Props: []*Prop{p("q", ref("O"))}}))),
		scope("Ob", obj("Ob", p("p", &Shape{Kind: KObject, ID: "Typ", Struct: "P19", Typed: true, Props: []*Prop{p("q", ref("Ob"))}}))),
		scope("A", obj("A", p("s", &Shape{Kind: KScope, Root: "I", Typed: true, Objects: []*Shape{obj("I", p("back", ref("I")))}}))),
		// a typed by-value sub-object of a struct-mapped parent that the input may leave out
		scope("Top", &Shape{Kind: KObject, ID: "Top", Struct: "P3", Props: []*Prop{
			p("inner", &Shape{Kind: KObject, ID: "In", Struct: "P1", Typed: true, Props: []*Prop{{Name: "a", T: &Shape{Kind: KInt}, Default: jsonText(int64(2))}, p("b", str()), p("c", &Shape{Kind: KFloat}), p("d", &Shape{Kind: KBool})}}),
			p("pinner", &Shape{Kind: KObject, ID: "Inn", Struct: "*P1", Typed: true, Props: []*Prop{p("a", &Shape{Kind: KInt}), p("b", str()), p("c", &Shape{Kind: KFloat}), p("d", &Shape{Kind: KBool})}}),
			p("n", &Shape{Kind: KInt})}}),
	}
}

// DescribableTrickyShapes are the tricky shapes that are scopes built with the plain constructors only (what a
// scope's self-description can express).
func DescribableTrickyShapes() []*Shape {
	var out []*Shape
	for _, s := range TrickyShapes() {
		typed := false
		s.Walk(func(x *Shape) {
			if x.Typed {
				typed = true
			}
		})
		if s.Kind == KScope && !typed {
			out = append(out, s)
		}
	}
	return out
}

// SelfExpandingShapes are scopes in which a default leads back to the property it belongs to: every level applies
// the default again, so no finite value exists for an input that leaves the property out. The constructors are
// expected to refuse them; whatever they accept must still terminate on every input.
func SelfExpandingShapes() []*Shape {
	ref := func(id string) *Shape { return &Shape{Kind: KRef, RefID: id} }
	obj := func(id string, props ...*Prop) *Shape { return &Shape{Kind: KObject, ID: id, Props: props} }
	p := func(name string, t *Shape) *Prop { return &Prop{Name: name, T: t} }
	pd := func(name string, t *Shape, def any) *Prop { return &Prop{Name: name, T: t, Default: jsonText(def)} }
	scope := func(root string, objs ...*Shape) *Shape { return &Shape{Kind: KScope, Root: root, Objects: objs} }
	lit := func() *Shape { return obj("Lit", p("v", &Shape{Kind: KInt})) }
	return []*Shape{
		scope("Node", obj("Node", pd("next", ref("Node"), map[string]any{}), p("v", &Shape{Kind: KInt}))),
		scope("E", obj("E", pd("e", &Shape{Kind: KOneOfStr, Disc: "_type", Members: []*Member{{KeyS: "lit", T: ref("Lit")}, {KeyS: "neg", T: ref("E")}}}, map[string]any{"_type": "neg"})), lit()),
		scope("E", obj("E", pd("e", &Shape{Kind: KOneOfInt, Disc: "_type", Members: []*Member{{KeyI: 1, T: ref("Lit")}, {KeyI: 2, T: ref("E")}}}, map[string]any{"_type": int64(2)})), lit()),
		scope("E", obj("E", pd("e", &Shape{Kind: KList, Items: &Shape{Kind: KOneOfInt, Disc: "k", Members: []*Member{{KeyI: 0, T: ref("Lit")}, {KeyI: 1, T: ref("E")}}}}, []any{map[string]any{"k": int64(1)}})), lit()),
		scope("T", obj("T", pd("children", &Shape{Kind: KList, Items: ref("T")}, []any{map[string]any{}}))),
		scope("M", obj("M", pd("m", &Shape{Kind: KMap, Keys: &Shape{Kind: KString}, Vals: ref("M")}, map[string]any{"k": map[string]any{}}))),
		scope("O1", obj("O1", p("items", obj("Obj4", pd("d", ref("O1"), map[string]any{"items": map[string]any{}}))))),
		scope("A", obj("A", pd("b", ref("B"), map[string]any{})), obj("B", pd("a", ref("A"), map[string]any{}))),
		scope("A", obj("A", pd("b", ref("B"), map[string]any{"a": map[string]any{}})), obj("B", p("a", ref("A")))),
	}
}

func without(set map[string]bool, name string) map[string]bool {
	out := map[string]bool{}
	for k, v := range set {
		if k != name {
			out[k] = v
		}
	}
	return out
}

func isEmptyRaw(v any) bool {
	switch x := v.(type) {
	case int64:
		return x == 0
	case float64:
		return x == 0
	case string:
		return x == ""
	case bool:
		return !x
	case []any:
		return len(x) == 0
	case map[any]any:
		return len(x) == 0
	case map[string]any:
		return len(x) == 0
	case nil:
		return true
	}
	return false
}

// HasEmptyDef reports whether any property below s is marked treat-empty-as-default.
func (s *Shape) HasEmptyDef() bool {
	found := false
	s.Walk(func(x *Shape) {
		for _, p := range x.Props {
			if p.EmptyDef {
				found = true
			}
		}
	})
	return found
}

// DropKey removes one key from one map[string]any node of a raw tree (presence rules then decide).
func DropKey(r *wk.Rand, v any) (any, bool) {
	var maps []map[string]any
	var walk func(cur any)
	walk = func(cur any) {
		switch x := cur.(type) {
		case []any:
			for _, e := range x {
				walk(e)
			}
		case map[string]any:
			if len(x) > 0 {
				maps = append(maps, x)
			}
			for _, e := range x {
				walk(e)
			}
		case map[any]any:
			for _, e := range x {
				walk(e)
			}
		}
	}
	walk(v)
	if len(maps) == 0 {
		return v, false
	}
	m := wk.Pick(r, maps)
	keys := make([]string, 0, len(m))
	for k := range m {
		keys = append(keys, k)
	}
	sortStrings(keys)
	delete(m, wk.Pick(r, keys))
	return v, true
}

func sortStrings(s []string) {
	for i := 1; i < len(s); i++ {
		for j := i; j > 0 && s[j] < s[j-1]; j-- {
			s[j], s[j-1] = s[j-1], s[j]
		}
	}
}

// DiscNames are the discriminator field names the generator uses.
var DiscNames = map[string]bool{"_type": true, "disc": true, "t_": true, "d": true}

// UnknownDiscriminator sets one discriminator field of a raw tree to a value of the same Go type that
// names no member. ok=false if the tree has no discriminator field.
func UnknownDiscriminator(r *wk.Rand, v any) (any, bool) {
	type site struct {
		set func(any)
		val any
	}
	var sites []site
	var walk func(cur any)
	walk = func(cur any) {
		switch x := cur.(type) {
		case []any:
			for _, e := range x {
				walk(e)
			}
		case map[string]any:
			for k, e := range x {
				if DiscNames[k] {
					k := k
					sites = append(sites, site{func(n any) { x[k] = n }, e})
				}
				walk(e)
			}
		case map[any]any:
			for k, e := range x {
				if ks, ok := k.(string); ok && DiscNames[ks] {
					k := k
					sites = append(sites, site{func(n any) { x[k] = n }, e})
				}
				walk(e)
			}
		}
	}
	walk(v)
	if len(sites) == 0 {
		return v, false
	}
	s := wk.Pick(r, sites)
	switch s.val.(type) {
	case string:
		s.set("no-such-member")
	case int64:
		s.set(int64(987654))
	default:
		s.set("no-such-member")
	}
	return v, true
}
