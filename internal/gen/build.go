package gen

import (
	"fmt"
	"regexp"

	"go.flow.arcalot.io/pluginsdk/schema"
)

// UnitsOf maps a shape's units label to the SDK's built-in definition.
func UnitsOf(label string) *schema.UnitsDefinition {
	switch label {
	case "":
		return nil
	case "bytes":
		return schema.UnitBytes
	case "ns":
		return schema.UnitDurationNanoseconds
	case "s":
		return schema.UnitDurationSeconds
	case "chars":
		return schema.UnitCharacters
	case "pct":
		return schema.UnitPercentage
	case "dbytes":
		return decimalBytes
	case "dsec":
		return decimalSeconds
	}
	panic("gen: unknown units " + label)
}

// Custom definitions with the names of built-in ones and other factors.
var decimalBytes = schema.NewUnits(schema.NewUnit("B", "B", "byte", "bytes"), map[int64]*schema.UnitDefinition{
	1000:             schema.NewUnit("kB", "kB", "kilobyte", "kilobytes"),
	1000000:          schema.NewUnit("MB", "MB", "megabyte", "megabytes"),
	1000000000:       schema.NewUnit("GB", "GB", "gigabyte", "gigabytes"),
	1000000000000:    schema.NewUnit("TB", "TB", "terabyte", "terabytes"),
	1000000000000000: schema.NewUnit("PB", "PB", "petabyte", "petabytes"),
})
var decimalSeconds = schema.NewUnits(schema.NewUnit("s", "s", "second", "seconds"), map[int64]*schema.UnitDefinition{
	100:     schema.NewUnit("m", "m", "minute", "minutes"),
	10000:   schema.NewUnit("H", "H", "hour", "hours"),
	1000000: schema.NewUnit("d", "d", "day", "days"),
})

// FreshUnits builds a new definition equal to the built-in one (cold caches).
func FreshUnits(label string) *schema.UnitsDefinition {
	u := UnitsOf(label)
	if u == nil {
		return nil
	}
	cp := func(d *schema.UnitDefinition) *schema.UnitDefinition {
		return schema.NewUnit(d.NameShortSingular(), d.NameShortPlural(), d.NameLongSingular(), d.NameLongPlural())
	}
	var m map[int64]*schema.UnitDefinition
	if u.Multipliers() != nil {
		m = map[int64]*schema.UnitDefinition{}
		for k, v := range u.Multipliers() {
			m[k] = cp(v)
		}
	}
	return schema.NewUnits(cp(u.BaseUnit()), m)
}

func disp(name string) *schema.DisplayValue {
	return schema.NewDisplayValue(&name, nil, nil)
}

// Options for Build.
type BuildOpts struct {
	FreshUnits bool // use freshly constructed unit definitions (cold lazy caches)
}

// Build constructs the SDK schema for a shape through the public constructors.
// Constructor panics (the documented contract for mis-built schemas) propagate.
func Build(s *Shape) schema.Type { return BuildWith(s, BuildOpts{}) }

func BuildWith(s *Shape, o BuildOpts) schema.Type {
	units := UnitsOf
	if o.FreshUnits {
		units = FreshUnits
	}
	switch s.Kind {
	case KInt:
		return schema.NewIntSchema(s.Min, s.Max, units(s.Units))
	case KFloat:
		return schema.NewFloatSchema(s.FMin, s.FMax, units(s.Units))
	case KString:
		var re *regexp.Regexp
		if s.Pattern != "" {
			re = regexp.MustCompile(s.Pattern)
		}
		return schema.NewStringSchema(s.Min, s.Max, re)
	case KBool:
		return schema.NewBoolSchema()
	case KPattern:
		return schema.NewPatternSchema()
	case KAny:
		return schema.NewAnySchema()
	case KIntEnum:
		m := map[int64]*schema.DisplayValue{}
		for _, v := range s.IntVals {
			switch {
			case s.NilDisplay:
				m[v] = nil
			case s.Display:
				m[v] = disp(fmt.Sprintf("Value %d", v))
			default:
				m[v] = &schema.DisplayValue{}
			}
		}
		return schema.NewIntEnumSchema(m, units(s.Units))
	case KStrEnum:
		m := map[string]*schema.DisplayValue{}
		for _, v := range s.StrVals {
			switch {
			case s.NilDisplay:
				m[v] = nil
			case s.Display:
				m[v] = disp("Value " + v)
			default:
				m[v] = &schema.DisplayValue{}
			}
		}
		return schema.NewStringEnumSchema(m)
	case KTypedStrEnum:
		m := map[NamedStr]*schema.DisplayValue{}
		for _, v := range s.StrVals {
			if s.Display {
				m[NamedStr(v)] = disp("Value " + v)
			} else {
				m[NamedStr(v)] = &schema.DisplayValue{}
			}
		}
		return schema.NewTypedStringEnumSchema(m)
	case KList:
		return schema.NewListSchema(BuildWith(s.Items, o), s.Min, s.Max)
	case KMap:
		return schema.NewMapSchema(BuildWith(s.Keys, o), BuildWith(s.Vals, o), s.Min, s.Max)
	case KObject:
		if s.Typed && s.Struct != "" {
			return buildTypedStruct(s.Struct, s.ID, BuildProps(s, o), len(s.ID)%3 == 0)
		}
		return BuildObject(s, o)
	case KOneOfStr:
		types := map[string]schema.Object{}
		for _, m := range s.Members {
			types[m.KeyS] = BuildWith(m.T, o).(schema.Object)
		}
		return schema.NewOneOfStringSchema[any](types, s.Disc, s.Inlined)
	case KOneOfInt:
		types := map[int64]schema.Object{}
		for _, m := range s.Members {
			types[m.KeyI] = BuildWith(m.T, o).(schema.Object)
		}
		return schema.NewOneOfIntSchema[any](types, s.Disc, s.Inlined)
	case KRef:
		var d schema.Display
		if s.Display {
			d = disp("Ref to " + s.RefID)
		}
		if s.NS == "" {
			return schema.NewRefSchema(s.RefID, d)
		}
		return schema.NewNamespacedRefSchema(s.RefID, s.NS, d)
	case KScope:
		if s.Typed {
			return buildTypedScopeShape(s, o)
		}
		return BuildScope(s, o)
	}
	panic("gen: unknown kind")
}

func BuildProps(s *Shape, o BuildOpts) map[string]*schema.PropertySchema {
	props := map[string]*schema.PropertySchema{}
	for _, p := range s.Props {
		var d schema.Display
		if p.HasDisp {
			// every combination of the three optional display fields occurs (chosen by the property's name)
			h := 0
			for _, ch := range p.Name {
				h = h*31 + int(ch)
			}
			name, descr, icon := schema.PointerTo("Property "+p.Name), schema.PointerTo("Generated property."), schema.PointerTo("<svg/>")
			switch h % 6 {
			case 0:
				d = schema.NewDisplayValue(name, descr, nil)
			case 1:
				d = schema.NewDisplayValue(name, nil, nil)
			case 2:
				d = schema.NewDisplayValue(nil, descr, nil)
			case 3:
				d = schema.NewDisplayValue(nil, nil, icon)
			case 4:
				d = schema.NewDisplayValue(name, descr, icon)
			default:
				d = schema.NewDisplayValue(nil, nil, nil)
			}
		}
		ps := schema.NewPropertySchema(BuildWith(p.T, o), d, p.Required, p.ReqIf, p.ReqIfNot, p.Conflicts, p.Default, nil)
		if p.Disabled {
			if len(p.Name)%2 == 0 {
				ps.Disable("generated: disabled")
			} else {
				ps.Disabled = true // disabled without a reason: what a description that says only "disabled: true" gives
			}
		}
		if p.EmptyDef {
			ps.TreatEmptyAsDefaultValue()
		}
		props[p.Name] = ps
	}
	return props
}

func BuildObject(s *Shape, o BuildOpts) *schema.ObjectSchema {
	props := BuildProps(s, o)
	if s.Struct != "" {
		return buildStruct(s.Struct, s.ID, props)
	}
	if s.Unenforced {
		return schema.NewUnenforcedIDObjectSchema(s.ID, props)
	}
	return schema.NewObjectSchema(s.ID, props)
}

func buildTypedScopeShape(s *Shape, o BuildOpts) schema.Type {
	var root *schema.ObjectSchema
	var others []*schema.ObjectSchema
	rootStruct := ""
	for _, ob := range s.Objects {
		b := BuildObject(ob, o)
		if ob.ID == s.Root && root == nil {
			root, rootStruct = b, ob.Struct
		} else {
			others = append(others, b)
		}
	}
	if root == nil {
		panic("gen: scope without root object")
	}
	return buildTypedScope(rootStruct, root, others)
}

func BuildScope(s *Shape, o BuildOpts) *schema.ScopeSchema {
	var root *schema.ObjectSchema
	var others []*schema.ObjectSchema
	for _, ob := range s.Objects {
		b := BuildObject(ob, o)
		if ob.ID == s.Root && root == nil {
			root = b
		} else {
			others = append(others, b)
		}
	}
	if root == nil {
		panic("gen: scope without root object")
	}
	return schema.NewScopeSchema(root, others...)
}
