package gen

import (
	"encoding/json"
	"fmt"
	"math"
	"strings"
	"unicode/utf8"

	"verif/internal/wk"
)

// Cfg steers the schema generator.
type Cfg struct {
	MaxDepth       int
	Structs        bool // struct-mapped objects from the pool
	TypedEnum      bool // NewTypedStringEnumSchema over a named string type
	NilDisplay     bool // enum values with nil display (cannot be self-described: D-SCH-20)
	Refs           bool
	Recursion      bool
	Namespaces     bool
	NestedScopes   bool
	Disabled       bool
	Defaults       bool
	Presence       bool
	EmptyDef       bool
	WeirdBounds    bool // min > max, +-Inf / NaN-free extreme bounds
	Units          bool
	OneOf          bool
	Describable    bool // restrict to what the meta-schema can express (for C09)
	GoodDefaults   bool // never generate a default the property's type rejects
	NoPatternProps bool
	TypedVariants  bool // inline struct-mapped objects and nested scopes may be built with the typed constructors
}

// Full is the default configuration: everything on.
func Full() Cfg {
	return Cfg{MaxDepth: 4, Structs: true, TypedEnum: true, Refs: true, Recursion: true, NestedScopes: true,
		Disabled: true, Defaults: true, Presence: true, EmptyDef: true, WeirdBounds: true, Units: true, OneOf: true}
}

func ip(v int64) *int64     { return &v }
func fp(v float64) *float64 { return &v }

// "dbytes" and "dsec" are custom definitions that look like built-in ones: the names (and the number of multipliers) of
// UnitBytes / UnitDurationSeconds with other factors (decimal kB = 1000; d/H/m = 1000000/10000/100).
var unitLabels = []string{"bytes", "ns", "s", "chars", "pct", "dbytes", "dsec"}

var patterns = []string{"^[a-z]+$", "^a", "[0-9]{2}", "^$", "^.{0,3}$", "b$", "^[A-Za-z0-9_-]*$", "x|y",
	// white space at either end of a pattern is part of the pattern
	"^(GET|POST) ", "[a-z] $", "\\t| [^ ]", " "}

type ctx struct {
	cfg     Cfg
	r       *wk.Rand
	objIDs  []string // IDs referencable in the enclosing scope
	nsIDs   map[string][]string
	counter *int
}

func (c *ctx) nextID(prefix string) string {
	*c.counter++
	return fmt.Sprintf("%s%d", prefix, *c.counter)
}

func genIntBounds(r *wk.Rand, weird bool) (*int64, *int64) {
	var lo, hi *int64
	pick := func() int64 {
		switch r.Intn(8) {
		case 0:
			return 0
		case 1:
			return int64(r.Intn(21)) - 10
		case 2:
			return int64(r.Intn(2001)) - 1000
		case 3:
			if weird {
				return math.MaxInt64
			}
			return 100000
		case 4:
			if weird {
				return math.MinInt64
			}
			return -100000
		case 5:
			return int64(1) << uint(r.Intn(62))
		default:
			return int64(r.Intn(200)) - 100
		}
	}
	switch r.Intn(4) {
	case 0:
	case 1:
		lo = ip(pick())
	case 2:
		hi = ip(pick())
	default:
		a, b := pick(), pick()
		if a > b && !(weird && r.Chance(10)) {
			a, b = b, a
		}
		lo, hi = ip(a), ip(b)
	}
	return lo, hi
}

func genSizeBounds(r *wk.Rand, weird bool) (*int64, *int64) {
	var lo, hi *int64
	switch r.Intn(5) {
	case 0, 1:
	case 2:
		lo = ip(int64(r.Intn(4)))
	case 3:
		hi = ip(int64(r.Intn(6)))
	default:
		a, b := int64(r.Intn(4)), int64(r.Intn(6))
		if a > b && !(weird && r.Chance(10)) {
			a, b = b, a
		}
		lo, hi = ip(a), ip(b)
	}
	return lo, hi
}

func genFloatBounds(r *wk.Rand, weird bool) (*float64, *float64) {
	var lo, hi *float64
	pick := func() float64 {
		switch r.Intn(7) {
		case 0:
			return 0
		case 1:
			return float64(r.Intn(2001))/8 - 100
		case 2:
			if weird {
				return math.Copysign(0, -1)
			}
			return -1
		case 3:
			if weird {
				return math.Inf(1 - 2*r.Intn(2))
			}
			return 1e9
		case 4:
			return math.Ldexp(1, r.Intn(80)-20)
		default:
			return float64(r.Intn(200)) - 100
		}
	}
	switch r.Intn(4) {
	case 0:
	case 1:
		lo = fp(pick())
	case 2:
		hi = fp(pick())
	default:
		a, b := pick(), pick()
		if a > b && !(weird && r.Chance(10)) {
			a, b = b, a
		}
		lo, hi = fp(a), fp(b)
	}
	return lo, hi
}

func (c *ctx) genScalar() *Shape {
	r := c.r
	n := 9
	switch k := r.Intn(n); k {
	case 0, 1:
		s := &Shape{Kind: KInt}
		s.Min, s.Max = genIntBounds(r, c.cfg.WeirdBounds)
		if c.cfg.Units && r.Chance(30) {
			s.Units = wk.Pick(r, unitLabels)
		}
		return s
	case 2:
		s := &Shape{Kind: KFloat}
		s.FMin, s.FMax = genFloatBounds(r, c.cfg.WeirdBounds)
		if c.cfg.Units && r.Chance(30) {
			s.Units = wk.Pick(r, unitLabels)
		}
		return s
	case 3, 4:
		s := &Shape{Kind: KString}
		s.Min, s.Max = genSizeBounds(r, c.cfg.WeirdBounds)
		if r.Chance(35) {
			s.Pattern = wk.Pick(r, patterns)
		}
		return s
	case 5:
		return &Shape{Kind: KBool}
	case 6:
		if c.cfg.NoPatternProps {
			return &Shape{Kind: KBool}
		}
		return &Shape{Kind: KPattern}
	case 7:
		return c.genEnum()
	default:
		return &Shape{Kind: KAny}
	}
}

func (c *ctx) genEnum() *Shape {
	r := c.r
	if r.Bool() {
		s := &Shape{Kind: KIntEnum, Display: r.Bool()}
		n := 1 + r.Intn(4)
		seen := map[int64]bool{}
		for len(s.IntVals) < n {
			v := int64(r.Intn(40)) - 10
			if r.Chance(10) {
				v = int64(1) << uint(10*(1+r.Intn(5)))
			}
			if !seen[v] {
				seen[v] = true
				s.IntVals = append(s.IntVals, v)
			}
		}
		if c.cfg.Units && r.Chance(20) {
			s.Units = wk.Pick(r, unitLabels)
		}
		if c.cfg.NilDisplay && r.Chance(15) {
			s.NilDisplay = true
		}
		return s
	}
	s := &Shape{Kind: KStrEnum, Display: r.Bool()}
	if c.cfg.TypedEnum && r.Chance(25) {
		s.Kind = KTypedStrEnum
	}
	n := 1 + r.Intn(4)
	pool := []string{"a", "b", "yes", "No", "1", "10", "x-y", "", "Ünï", "true", "0"}
	seen := map[string]bool{}
	for len(s.StrVals) < n {
		v := wk.Pick(r, pool)
		if !seen[v] {
			seen[v] = true
			s.StrVals = append(s.StrVals, v)
		}
	}
	if c.cfg.NilDisplay && s.Kind == KStrEnum && r.Chance(15) {
		s.NilDisplay = true
	}
	return s
}

func (c *ctx) genKeyType() *Shape {
	r := c.r
	switch r.Intn(5) {
	case 0, 1:
		s := &Shape{Kind: KString}
		s.Min, s.Max = genSizeBounds(r, false)
		if r.Chance(25) {
			s.Pattern = wk.Pick(r, patterns)
		}
		return s
	case 2:
		s := &Shape{Kind: KInt}
		s.Min, s.Max = genIntBounds(r, false)
		return s
	default:
		e := c.genEnum()
		if c.cfg.Describable && e.Kind != KStrEnum && e.Kind != KIntEnum {
			e.Kind = KStrEnum
		}
		if c.cfg.Describable {
			// the meta-schema describes map keys as integer or string only
			if r.Bool() {
				return &Shape{Kind: KString}
			}
			return &Shape{Kind: KInt}
		}
		return e
	}
}

// genType generates any value type (used for properties, list items, map values).
func (c *ctx) genType(depth int) *Shape {
	r := c.r
	if depth >= c.cfg.MaxDepth {
		// a reference does not deepen the tree, so it is still allowed at the depth limit
		if c.cfg.Refs && len(c.objIDs) > 0 && r.Chance(25) {
			return &Shape{Kind: KRef, RefID: wk.Pick(r, c.objIDs), Display: r.Bool()}
		}
		return c.genScalar()
	}
	switch k := r.Intn(20); {
	case k < 8:
		return c.genScalar()
	case k < 11:
		s := &Shape{Kind: KList, Items: c.genType(depth + 1)}
		s.Min, s.Max = genSizeBounds(r, c.cfg.WeirdBounds)
		return s
	case k < 14:
		s := &Shape{Kind: KMap, Keys: c.genKeyType(), Vals: c.genType(depth + 1)}
		s.Min, s.Max = genSizeBounds(r, c.cfg.WeirdBounds)
		return s
	case k < 16:
		if c.cfg.Refs && len(c.objIDs) > 0 {
			return &Shape{Kind: KRef, RefID: wk.Pick(r, c.objIDs), Display: r.Bool()}
		}
		return c.genObject(depth+1, c.nextID("Obj"), false)
	case k < 17:
		return c.genObject(depth+1, c.nextID("Obj"), c.cfg.Structs && r.Chance(35))
	case k < 19:
		if c.cfg.OneOf {
			return c.genOneOf(depth + 1)
		}
		return c.genScalar()
	default:
		if c.cfg.NestedScopes {
			return c.genScope(depth+1, false)
		}
		return c.genScalar()
	}
}

func jsonText(v any) *string {
	b, err := json.Marshal(v)
	if err != nil {
		return nil
	}
	s := string(b)
	return &s
}

// decorate adds presence rules, defaults, disabled flags to the properties of an object shape.
func (c *ctx) decorate(s *Shape, env *Env) {
	r := c.r
	names := make([]string, len(s.Props))
	for i, p := range s.Props {
		names[i] = p.Name
	}
	others := func(self string, max int) []string {
		var out []string
		for _, n := range names {
			if n != self && len(out) < max && r.Chance(45) {
				out = append(out, n)
			}
		}
		// the order in which a rule lists its properties is arbitrary (and part of the description)
		for i := len(out) - 1; i > 0; i-- {
			j := r.Intn(i + 1)
			out[i], out[j] = out[j], out[i]
		}
		return out
	}
	for _, p := range s.Props {
		p.HasDisp = r.Bool()
		if p.T.Kind == KRef && c.cfg.Recursion {
			continue // every reference cycle must pass through an optional property
		}
		if r.Chance(30) {
			p.Required = true
		}
		if c.cfg.Presence && len(names) > 1 {
			if r.Chance(20) {
				p.ReqIf = others(p.Name, 3)
			}
			if r.Chance(20) {
				p.ReqIfNot = others(p.Name, 3)
			}
			if r.Chance(20) {
				p.Conflicts = others(p.Name, 3)
			}
		}
		if c.cfg.Defaults && r.Chance(25) {
			if raw, ok := ValidRaw(r, p.T, env, 0); ok {
				if !c.cfg.GoodDefaults && r.Chance(5) { // a default the type rejects (rare)
					raw = "not-a-valid-default"
				}
				p.Default = jsonText(jsonable(raw))
				if c.cfg.GoodDefaults && lossyInJSON(raw) {
					p.Default = nil // integers beyond 2^53 do not survive the JSON text of a default
				}
				if sv, isStr := raw.(string); isStr && p.T.Kind == KString && bareDefaultOK(sv) && r.Chance(40) {
					// a string property's default may be written bare, without the JSON quotes (the way a YAML author
					// writes it) - including the empty text for the empty string
					bare := sv
					if p.T.Pattern == "" && (p.T.Max == nil || int64(len(sv))+2 <= *p.T.Max) && r.Chance(35) {
						bare = wk.Pick(r, []string{" " + sv + " ", sv + " ", " " + sv, sv + ", "}) // white space is part of the text
						if json.Valid([]byte(bare)) || (p.T.Max != nil && int64(len(bare)) > *p.T.Max) {
							bare = sv
						}
					}
					p.Default = &bare
				}
			}
		}
		if c.cfg.Disabled && r.Chance(6) {
			p.Disabled = true
		}
	}
}

var propNames = []string{"a", "b", "c", "d", "e", "name", "value", "kind", "n", "items"}

var oddPropNames = []string{"content.type", "first name", "größe", "app.kubernetes.io/name", "$ref", "a,b", "x-" + strings.Repeat("long", 70), "Ünï©ode", "0", "-"}

func (c *ctx) genObject(depth int, id string, structMapped bool) *Shape {
	if structMapped {
		return c.genStructObject(depth, id, "")
	}
	r := c.r
	s := &Shape{Kind: KObject, ID: id, Unenforced: r.Chance(10)}
	n := r.Intn(5)
	if r.Chance(15) {
		n = 1 // single-property objects enable the inline shorthand
	}
	used := map[string]bool{}
	for i := 0; i < n; i++ {
		name := wk.Pick(r, propNames)
		if r.Chance(8) {
			name = wk.Pick(r, oddPropNames) // a property ID is any non-empty string
		}
		if used[name] {
			continue
		}
		used[name] = true
		s.Props = append(s.Props, &Prop{Name: name, T: c.genType(depth + 1)})
	}
	c.decorate(s, nil)
	return s
}

// genStructObject builds the shape for one of the pool structs; the property
// layout is fixed by the Go type, the decorations are random.
func (c *ctx) genStructObject(depth int, id, force string) *Shape {
	r := c.r
	name := force
	if name == "" {
		name = wk.Pick(r, []string{"P1", "P1", "*P1", "P2", "P3", "P5", "*P5", "P6", "P7", "P8", "P9", "P12", "P13", "P21"})
	}
	s := &Shape{Kind: KObject, ID: id, Struct: name}
	if c.cfg.TypedVariants && !c.cfg.Describable && r.Chance(25) {
		s.Typed = true
	}
	intT := func() *Shape { t := &Shape{Kind: KInt}; t.Min, t.Max = genIntBounds(r, false); return t }
	strT := func() *Shape { t := &Shape{Kind: KString}; t.Min, t.Max = genSizeBounds(r, false); return t }
	fltT := func() *Shape { t := &Shape{Kind: KFloat}; t.FMin, t.FMax = genFloatBounds(r, false); return t }
	p1 := func(structName string) *Shape {
		o := &Shape{Kind: KObject, ID: c.nextID("P1o"), Struct: structName, Props: []*Prop{
			{Name: "a", T: intT(), Required: r.Bool()}, {Name: "b", T: strT()}, {Name: "c", T: fltT()}, {Name: "d", T: &Shape{Kind: KBool}}}}
		fixValueFields(o)
		return o
	}
	p5 := func(structName string) *Shape {
		o := &Shape{Kind: KObject, ID: c.nextID("P5o"), Struct: structName, Props: []*Prop{{Name: "y", T: strT(), Required: r.Bool()}}}
		fixValueFields(o)
		return o
	}
	switch name {
	case "P1", "*P1":
		s.Props = p1(name).Props
	case "P2":
		s.Props = []*Prop{{Name: "name", T: strT(), Required: r.Bool()},
			{Name: "tags", T: &Shape{Kind: KList, Items: strT()}},
			{Name: "attrs", T: &Shape{Kind: KMap, Keys: &Shape{Kind: KString}, Vals: intT()}},
			{Name: "extra", T: &Shape{Kind: KAny}}}
	case "P3":
		s.Props = []*Prop{{Name: "inner", T: p1("P1")}, {Name: "pinner", T: p1(wk.Pick(r, []string{"P1", "*P1"}))}, {Name: "n", T: intT()}}
	case "P4":
		s.Props = []*Prop{{Name: "kind", T: &Shape{Kind: KString}}, {Name: "x", T: intT()}}
	case "P4b":
		s.Props = []*Prop{{Name: "kind", T: &Shape{Kind: KString}}, {Name: "z", T: strT()}}
	case "P5", "*P5":
		s.Props = p5(name).Props
	case "P6":
		e := &Shape{Kind: KTypedStrEnum, StrVals: []string{"a", "b", "x-y"}, Display: r.Bool()}
		s.Props = []*Prop{{Name: "e", T: e}, {Name: "l", T: &Shape{Kind: KList, Items: p5("P5")}},
			{Name: "m", T: &Shape{Kind: KMap, Keys: &Shape{Kind: KString}, Vals: p5("P5")}}}
	case "P7":
		var choice *Shape
		if c.cfg.OneOf && r.Chance(70) {
			// the zero values of both key types ("" and 0) are legal member keys
			switch r.Intn(4) {
			case 0:
				choice = &Shape{Kind: KOneOfStr, Disc: "kind", Inlined: true, Members: []*Member{
					{KeyS: "first", T: c.genStructObject(depth+1, c.nextID("P4o"), "P4")}, {KeyS: "second", T: c.genStructObject(depth+1, c.nextID("P4o"), "P4b")}}}
			case 1:
				choice = &Shape{Kind: KOneOfStr, Disc: "kind", Inlined: true, Members: []*Member{
					{KeyS: "", T: c.genStructObject(depth+1, c.nextID("P4o"), "P4")}, {KeyS: "second", T: c.genStructObject(depth+1, c.nextID("P4o"), "P4b")}}}
			case 2:
				choice = &Shape{Kind: KOneOfStr, Disc: "_type", Inlined: false, Members: []*Member{
					{KeyS: "five", T: p5("P5")}, {KeyS: "", T: p1("P1")}}}
			default:
				choice = &Shape{Kind: KOneOfInt, Disc: "_type", Inlined: false, Members: []*Member{
					{KeyI: 0, T: p5("P5")}, {KeyI: 7, T: p1("P1")}}}
			}
		} else {
			choice = &Shape{Kind: KAny}
		}
		s.Props = []*Prop{{Name: "choice", T: choice}, {Name: "opt", T: strT()}}
	case "P8":
		s.Props = []*Prop{{Name: "v", T: intT()}, {Name: "w", T: strT()}, {Name: "z", T: &Shape{Kind: KList, Items: intT()}}, {Name: "u", T: fltT()}}
		if c.cfg.EmptyDef {
			for _, p := range s.Props {
				if r.Chance(60) {
					p.EmptyDef = true
				}
			}
		}
	case "P9":
		s.Props = []*Prop{{Name: "FieldByName", T: intT()}, {Name: "other", T: strT()}}
	case "P13":
		within := func(lo, hi int64) *Shape {
			a, b := lo+r.I64n(hi-lo+1), lo+r.I64n(hi-lo+1)
			if a > b {
				a, b = b, a
			}
			return &Shape{Kind: KInt, Min: ip(a), Max: ip(b)}
		}
		s.Props = []*Prop{{Name: "port", T: within(0, 65535)}, {Name: "retries", T: within(0, 1<<40)},
			{Name: "limit", T: within(0, 1<<62)}, {Name: "small", T: within(-128, 127)}}
		if !c.cfg.Describable && r.Chance(35) {
			// (not for schemas that are compared with their map-based rebuild: the width of a Go field is not part
			// of a description)
			// declared bounds wider than the Go fields (or none at all): a value the schema allows but the field
			// cannot hold must be refused, it cannot be stored
			wide := func(lo, hi int64) *Shape {
				switch r.Intn(3) {
				case 0:
					return &Shape{Kind: KInt}
				case 1:
					return &Shape{Kind: KInt, Min: ip(lo)}
				}
				return &Shape{Kind: KInt, Min: ip(lo), Max: ip(hi)}
			}
			s.Props[0].T, s.Props[3].T = wide(-5, 70000), wide(-200, 300)
			if r.Bool() {
				s.Props[1].T = wide(-3, 1<<41)
			}
		}
	case "P21":
		bounded := func(lo, hi int64) *Shape {
			if c.cfg.Describable || r.Chance(50) {
				a, b := lo+r.I64n(hi-lo+1), lo+r.I64n(hi-lo+1)
				if a > b {
					a, b = b, a
				}
				return &Shape{Kind: KInt, Min: ip(a), Max: ip(b)}
			}
			// wider than the field (or no bounds at all): what the field cannot hold is refused
			return wk.Pick(r, []*Shape{{Kind: KInt}, {Kind: KInt, Min: ip(lo - 10)}, {Kind: KInt, Min: ip(0), Max: ip(hi * 4)}})
		}
		s.Props = []*Prop{{Name: "a", T: bounded(-2147483648, 2147483647)}, {Name: "b", T: bounded(0, 4294967295)}, {Name: "c", T: bounded(-128, 127)}}
	case "P12":
		s.Props = []*Prop{{Name: "mid", T: c.genStructObject(depth+1, c.nextID("P3o"), "P3")}, {Name: "other", T: c.genStructObject(depth+1, c.nextID("P3o"), "P3")}, {Name: "tag", T: strT()}}
	}
	c.decorateStruct(s, nil)
	// presence rules among the properties a struct can leave unset (pointer fields, treat-empty-as-default)
	if c.cfg.Presence {
		var absentable []*Prop
		for _, p := range s.Props {
			if pointerFields[s.Struct][p.Name] || p.EmptyDef {
				absentable = append(absentable, p)
			}
		}
		if len(absentable) >= 2 && r.Chance(50) {
			a, b := absentable[r.Intn(len(absentable))], absentable[r.Intn(len(absentable))]
			if a != b {
				switch r.Intn(3) {
				case 0:
					a.Conflicts = []string{b.Name}
				case 1:
					a.ReqIf = []string{b.Name}
				default:
					a.ReqIfNot = []string{b.Name}
				}
			}
		}
	}
	fixValueFields(s)
	if c.cfg.TypedEnum == false {
		for _, p := range s.Props {
			if p.T.Kind == KTypedStrEnum {
				p.T.Kind = KStrEnum
			}
		}
	}
	return s
}

func (c *ctx) genOneOf(depth int) *Shape {
	r := c.r
	s := &Shape{Kind: KOneOfStr, Disc: wk.Pick(r, []string{"_type", "disc", "t_"}), Inlined: r.Chance(40)}
	if r.Chance(40) {
		s.Kind = KOneOfInt
	}
	n := 1 + r.Intn(3)
	// member keys include the zero values of both key types ("" and 0)
	skeys := []string{"alpha", "beta", "1", "", "Gamma"}
	ikeys := []int64{-3, 0, 2, 7, 1 << 40}
	off := r.Intn(len(skeys))
	for i := 0; i < n; i++ {
		m := &Member{KeyS: skeys[(i+off)%len(skeys)], KeyI: ikeys[(i+off)%len(ikeys)]}
		var obj *Shape
		useRef := c.cfg.Refs && len(c.objIDs) > 0 && r.Chance(25)
		if useRef && !s.Inlined {
			m.T = &Shape{Kind: KRef, RefID: wk.Pick(r, c.objIDs)}
			s.Members = append(s.Members, m)
			continue
		}
		wrapInScope := c.cfg.NestedScopes && r.Chance(15)
		if wrapInScope {
			// the member is a scope of its own: references inside it cannot see the enclosing scope's objects
			inner := &ctx{cfg: c.cfg, r: r, counter: c.counter}
			obj = inner.genObject(depth+1, c.nextID("Mem"), false)
		} else {
			obj = c.genObject(depth+1, c.nextID("Mem"), false)
		}
		// members must agree with the inlining flag
		var kept []*Prop
		for _, p := range obj.Props {
			if p.Name != s.Disc {
				kept = append(kept, p)
			}
		}
		obj.Props = kept
		if s.Inlined {
			var dt *Shape
			if s.Kind == KOneOfStr {
				dt = &Shape{Kind: KString}
				switch {
				case c.cfg.TypedEnum && !c.cfg.Describable && r.Chance(15):
					// the member declares its discriminator as an enum over a named string type
					dt = &Shape{Kind: KTypedStrEnum, StrVals: []string{m.KeyS, "other-" + m.KeyS}}
				case r.Chance(10):
					dt = &Shape{Kind: KStrEnum, StrVals: []string{m.KeyS}, Display: r.Bool()}
				}
			} else {
				dt = &Shape{Kind: KInt}
				if r.Chance(10) {
					dt = &Shape{Kind: KIntEnum, IntVals: []int64{m.KeyI}, Display: r.Bool()}
				}
			}
			obj.Props = append(obj.Props, &Prop{Name: s.Disc, T: dt, Required: r.Bool()})
		}
		if wrapInScope {
			m.T = &Shape{Kind: KScope, Root: obj.ID, Objects: []*Shape{obj}, Typed: c.cfg.TypedVariants && !c.cfg.Describable && r.Chance(25)}
		} else {
			m.T = obj
		}
		s.Members = append(s.Members, m)
	}
	return s
}

// genScope builds a scope with a root object and 0..3 further objects; the
// objects may reference each other (and themselves when recursion is on).
func (c *ctx) genScope(depth int, top bool) *Shape {
	r := c.r
	nobj := 1 + r.Intn(4)
	ids := make([]string, nobj)
	for i := range ids {
		if !top && r.Chance(30) && len(c.objIDs) > 0 {
			ids[i] = wk.Pick(r, c.objIDs) // collide with an outer scope's ID (shadowing)
		} else {
			ids[i] = c.nextID("O")
		}
	}
	// de-duplicate
	seen := map[string]bool{}
	var uniq []string
	for _, id := range ids {
		if !seen[id] {
			seen[id] = true
			uniq = append(uniq, id)
		}
	}
	ids = uniq
	inner := &ctx{cfg: c.cfg, r: r, counter: c.counter, nsIDs: c.nsIDs}
	s := &Shape{Kind: KScope, Root: ids[0]}
	// Objects later in the list may be referenced by earlier ones; with recursion on, any may be.
	for i, id := range ids {
		if c.cfg.Recursion {
			inner.objIDs = ids
		} else {
			inner.objIDs = ids[i+1:]
		}
		structMapped := c.cfg.Structs && r.Chance(20)
		od := depth + 1
		if !top && od > 1 {
			od = depth // a nested scope's objects sit at the depth of the scope itself
		}
		o := inner.genObject(od, id, structMapped)
		o.ID = id
		s.Objects = append(s.Objects, o)
	}
	if c.cfg.Recursion {
		breakCycles(s)
	}
	if !top && c.cfg.TypedVariants && !c.cfg.Describable && r.Chance(25) {
		s.Typed = true
	}
	return s
}

func (c *ctx) decorateStruct(o *Shape, env *Env) {
	r := c.r
	for _, p := range o.Props {
		// treat-empty-as-default identifies the zero value with absence; combined with a default that is
		// not the zero value the identification has no consistent reading, so the two are not combined
		if c.cfg.Defaults && !p.EmptyDef && r.Chance(20) && p.T.Kind != KOneOfStr && p.T.Kind != KOneOfInt {
			if raw, ok := ValidRaw(r, p.T, env, 0); ok {
				p.Default = jsonText(jsonable(raw))
				if c.cfg.GoodDefaults && lossyInJSON(raw) {
					p.Default = nil // integers beyond 2^53 do not survive the JSON text of a default
				}
			}
		}
	}
}

// breakCycles makes every reference cycle pass through an optional property,
// a list or a map, so that finite inputs exist (a required self-reference has none).
func breakCycles(scope *Shape) {
	for _, o := range scope.Objects {
		for _, p := range o.Props {
			if p.T.Kind == KRef {
				p.Required = false
				p.ReqIf, p.ReqIfNot = nil, nil
			}
		}
	}
}

// GenScope generates a top-level scope.
func GenScope(r *wk.Rand, cfg Cfg) *Shape {
	n := 0
	c := &ctx{cfg: cfg, r: r, counter: &n}
	s := c.genScope(0, true)
	fixOneOfAmbiguity(s, &Env{})
	return s
}

// GenType generates a stand-alone type (scalar, container, object, one-of, scope).
func GenType(r *wk.Rand, cfg Cfg) *Shape {
	n := 0
	c := &ctx{cfg: cfg, r: r, counter: &n}
	s := c.genType(0)
	fixOneOfAmbiguity(s, &Env{})
	return s
}

// WalkEnv visits every node with the environment that resolves its references.
func WalkEnv(s *Shape, env *Env, f func(*Shape, *Env)) {
	if s == nil {
		return
	}
	f(s, env)
	switch s.Kind {
	case KList:
		WalkEnv(s.Items, env, f)
	case KMap:
		WalkEnv(s.Keys, env, f)
		WalkEnv(s.Vals, env, f)
	case KObject:
		for _, p := range s.Props {
			WalkEnv(p.T, env, f)
		}
	case KOneOfStr, KOneOfInt:
		for _, m := range s.Members {
			WalkEnv(m.T, env, f)
		}
	case KScope:
		inner := env.Push(s)
		for _, o := range s.Objects {
			WalkEnv(o, inner, f)
		}
	}
}

// fixOneOfAmbiguity: when serializing a struct value a one-of finds the member by its Go type, so two
// members with the same Go struct type cannot be told apart (the SDK picks whichever it iterates first).
// Such one-ofs are mis-built; the later member is dropped.
func fixOneOfAmbiguity(root *Shape, env *Env) {
	WalkEnv(root, env, func(s *Shape, e *Env) {
		if s.Kind != KOneOfStr && s.Kind != KOneOfInt {
			return
		}
		seen := map[string]bool{}
		var kept []*Member
		for _, m := range s.Members {
			o := derefObject(m.T, e)
			if o != nil && o.Struct != "" {
				key := o.Struct
				if seen[key] {
					continue
				}
				seen[key] = true
			}
			kept = append(kept, m)
		}
		s.Members = kept
	})
}

// GenScalarOrContainer generates scalars / lists / maps / any only (C02).
func GenScalarOrContainer(r *wk.Rand, cfg Cfg, depth int) *Shape {
	n := 0
	c := &ctx{cfg: cfg, r: r, counter: &n}
	var g func(d int) *Shape
	g = func(d int) *Shape {
		if d >= depth {
			return c.genScalar()
		}
		switch r.Intn(3) {
		case 0:
			return c.genScalar()
		case 1:
			s := &Shape{Kind: KList, Items: g(d + 1)}
			s.Min, s.Max = genSizeBounds(r, cfg.WeirdBounds)
			return s
		default:
			s := &Shape{Kind: KMap, Keys: c.genKeyType(), Vals: g(d + 1)}
			s.Min, s.Max = genSizeBounds(r, cfg.WeirdBounds)
			return s
		}
	}
	return g(0)
}

// GenObjectStandalone generates a map-based or struct-mapped object outside any scope (no refs).
func GenObjectStandalone(r *wk.Rand, cfg Cfg) *Shape {
	n := 0
	cfg.Refs = false
	c := &ctx{cfg: cfg, r: r, counter: &n}
	o := c.genObject(1, "Root", cfg.Structs && r.Chance(40))
	fixOneOfAmbiguity(o, &Env{})
	return o
}

// pointerFields lists, per pool struct, the properties mapped to pointer fields (which can be absent).
var pointerFields = map[string]map[string]bool{
	"P1": {"c": true, "d": true}, "*P1": {"c": true, "d": true}, "P3": {"pinner": true, "n": true},
	"P4b": {"z": true}, "P7": {"opt": true, "choice": true}, "P2": {"extra": true},
	"P10": {"a": true, "b": true, "c": true}, "*P10": {"a": true, "b": true, "c": true}, "P11": {"n": true, "m": true}, "P12": {"tag": true}, "P13": {"limit": true}, "P21": {"a": true, "b": true, "c": true}, "P16": {"x": true, "y": true}, "P18": {"next": true}, "P17": {"x": true, "z": true},
}

// PointerField reports whether the property is mapped to a pointer field of the pool struct.
func PointerField(structName, prop string) bool { return pointerFields[structName][prop] }

// AllAbsentable reports whether every property of a struct-mapped object is mapped to a field that can
// represent absence (so presence rules are meaningful on its native values).
func AllAbsentable(s *Shape) bool {
	if s.Struct == "" {
		return true
	}
	for _, p := range s.Props {
		if !pointerFields[s.Struct][p.Name] && !p.EmptyDef {
			return false
		}
	}
	return true
}

// admitsZero: does the type accept the Go zero value of its native type?
func admitsZero(t *Shape) bool {
	switch t.Kind {
	case KInt:
		return (t.Min == nil || *t.Min <= 0) && (t.Max == nil || *t.Max >= 0)
	case KFloat:
		return (t.FMin == nil || *t.FMin <= 0) && (t.FMax == nil || *t.FMax >= 0)
	case KString:
		return (t.Min == nil || *t.Min <= 0) && (t.Max == nil || *t.Max >= 0) && (t.Pattern == "" || compiled(t.Pattern).MatchString(""))
	case KBool, KAny, KPattern:
		return true
	case KList, KMap:
		return (t.Min == nil || *t.Min <= 0) && (t.Max == nil || *t.Max >= 0)
	case KIntEnum:
		for _, v := range t.IntVals {
			if v == 0 {
				return true
			}
		}
		return false
	case KStrEnum, KTypedStrEnum:
		for _, v := range t.StrVals {
			if v == "" {
				return true
			}
		}
		return false
	case KObject:
		if t.Struct == "" {
			return false
		}
		// the zero struct denotes the object in which exactly the properties mapped to non-pointer,
		// non-treat-empty-as-default fields are present, each with its zero value
		present := map[string]bool{}
		for _, p := range t.Props {
			present[p.Name] = !(pointerFields[t.Struct][p.Name] || p.EmptyDef)
		}
		for _, p := range t.Props {
			if present[p.Name] {
				if p.Required || !admitsZero(p.T) {
					return false
				}
				for _, o := range p.Conflicts {
					if present[o] {
						return false
					}
				}
				continue
			}
			if p.Required {
				return false
			}
			for _, o := range p.ReqIf {
				if present[o] {
					return false
				}
			}
			if len(p.ReqIfNot) > 0 {
				anyPresent := false
				for _, o := range p.ReqIfNot {
					anyPresent = anyPresent || present[o]
				}
				if !anyPresent {
					return false
				}
			}
		}
		return true
	}
	return false
}

// fixValueFields: a Go struct cannot represent the absence of a property that is mapped to a non-pointer
// field. Unless the property is marked treat-empty-as-default or its type admits the zero value, it is made
// required - anything else is a mis-mapped struct (the SDK documents TreatEmptyAsDefaultValue for that
// case), not a schema the round-trip property speaks about.
func fixValueFields(s *Shape) {
	for _, p := range s.Props {
		if pointerFields[s.Struct][p.Name] || p.EmptyDef {
			continue
		}
		if !admitsZero(p.T) {
			p.Required = true
			p.ReqIf, p.ReqIfNot = nil, nil
		}
	}
}

func lossyInJSON(v any) bool {
	switch x := v.(type) {
	case int64:
		return x > 1<<53 || x < -(1<<53)
	case float64:
		return math.IsNaN(x) || math.IsInf(x, 0)
	case []any:
		for _, e := range x {
			if lossyInJSON(e) {
				return true
			}
		}
	case map[string]any:
		for _, e := range x {
			if lossyInJSON(e) {
				return true
			}
		}
	case map[any]any:
		for k, e := range x {
			if lossyInJSON(k) || lossyInJSON(e) {
				return true
			}
		}
	}
	return false
}

// GenOneOf generates a stand-alone one-of type (map-based members, no references).
func GenOneOf(r *wk.Rand, cfg Cfg) *Shape {
	n := 1000
	cfg.Refs = false
	c := &ctx{cfg: cfg, r: r, counter: &n}
	s := c.genOneOf(2)
	fixOneOfAmbiguity(s, &Env{})
	return s
}

// bareDefaultOK: can this string be written as a bare default text (no quotes, no escapes, and not itself valid JSON,
// which would be read as JSON)?
func bareDefaultOK(v string) bool {
	if json.Valid([]byte(v)) {
		return false
	}
	for _, ch := range v {
		if ch == '"' || ch == '\\' || ch < 0x20 || ch == 0x7f || ch == utf8.RuneError {
			return false
		}
	}
	return utf8.ValidString(v)
}
