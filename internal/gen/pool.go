package gen

import (
	"fmt"

	"go.flow.arcalot.io/pluginsdk/schema"
)

// The pool of Go struct types that struct-mapped objects range over (generics
// need compile-time types). Together they cover value and pointer fields,
// nested structs by value and by pointer, slices, maps, `any`, a named string
// type, json-tagged and name-matched fields, and treat-empty-as-default on
// comparable and uncomparable field types.

type NamedStr string

type P1 struct {
	A int64    `json:"a"`
	B string   `json:"b"`
	C *float64 `json:"c"`
	D *bool    `json:"d"`
}

type P2 struct {
	Name  string           `json:"name"`
	Tags  []string         `json:"tags"`
	Attrs map[string]int64 `json:"attrs"`
	Extra any              `json:"extra"`
}

type P3 struct {
	Inner  P1     `json:"inner"`
	PInner *P1    `json:"pinner"`
	N      *int64 `json:"n"`
}

type P4 struct {
	Kind string `json:"kind"`
	X    int64  `json:"x"`
}

// P4b is a second member type for inlined one-ofs (members are told apart by their Go type when serializing).
type P4b struct {
	Kind string  `json:"kind"`
	Z    *string `json:"z"`
}

type P5 struct {
	Y string `json:"y"`
}

type P6 struct {
	E NamedStr      `json:"e"`
	L []P5          `json:"l"`
	M map[string]P5 `json:"m"`
}

type P7 struct {
	Choice any     `json:"choice"`
	Opt    *string `json:"opt"`
}

type P8 struct {
	V int64   `json:"v"`
	W string  `json:"w"`
	Z []int64 `json:"z"`
	U float64 `json:"u"`
}

// P10 has only pointer fields, so every property can be absent (used for the exhaustive presence-rule space).
type P10 struct {
	A *int64 `json:"a"`
	B *int64 `json:"b"`
	C *int64 `json:"c"`
}

// P11 maps a property to a map[string]any field: the property's type is a map-based (possibly recursive) object.
type P11 struct {
	M map[string]any `json:"m"`
	N *int64         `json:"n"`
}

// P12 nests structs by value three levels deep (P12 -> P3 -> P1): an absent middle object has to be
// materialised from the defaults of the innermost one.
type P12 struct {
	Mid   P3      `json:"mid"`
	Other P3      `json:"other"`
	Tag   *string `json:"tag"`
}

// P13 maps integer properties to Go fields that are not int64 (unsigned and narrow kinds); the schema
// bounds of these properties stay within the field's range.
type P13 struct {
	Port    uint16  `json:"port"`
	Retries uint    `json:"retries"`
	Limit   *uint64 `json:"limit"`
	Small   int8    `json:"small"`
}

// P14 has only value fields; with treat-empty-as-default on every property the zero value stands for absence
// (the second way, besides pointer fields, in which a struct can leave a property out).
type P14 struct {
	A int64 `json:"a"`
	B int64 `json:"b"`
	C int64 `json:"c"`
}

// P15..P17 are the members of the enumerated one-of space with struct-mapped members (told apart by Go type).
type P15 struct {
	X int64 `json:"x"`
}

type P16 struct {
	X *int64  `json:"x"`
	Y *string `json:"y"`
}

type P17 struct {
	X *int64  `json:"x"`
	Z *string `json:"z"`
}

// P18 refers to itself, which a Go struct can only do through a pointer.
type P18 struct {
	V    int64 `json:"v"`
	Next *P18  `json:"next"`
}

// P19 holds one free-form value: the only property of a struct-mapped object through which a shorthand chain can
// lead on into map-based objects.
type P19 struct {
	Q any `json:"q"`
}

// P20 holds a P18 node BY VALUE under the same property ID ("next") as the node's own self-reference, which is a
// pointer: the two must not be confused when defaults are propagated.
type P20 struct {
	Next P18 `json:"next"`
}

// P21 maps integer properties to narrow POINTER fields (absent-able, and still too small for some values the
// schema may allow).
type P21 struct {
	A *int32  `json:"a"`
	B *uint32 `json:"b"`
	C *int8   `json:"c"`
}

type P9 struct {
	FieldByName int64
	Other       string `json:"other,omitempty"`
}

// StructNames lists the pool.
var StructNames = []string{"P1", "P2", "P3", "P4", "P5", "P6", "P7", "P8", "P9", "*P1", "*P5"}

// buildStruct calls the generic constructor for the named pool type.
func buildStruct(name, id string, props map[string]*schema.PropertySchema) *schema.ObjectSchema {
	switch name {
	case "P1":
		return schema.NewStructMappedObjectSchema[P1](id, props)
	case "*P1":
		return schema.NewStructMappedObjectSchema[*P1](id, props)
	case "P2":
		return schema.NewStructMappedObjectSchema[P2](id, props)
	case "P3":
		return schema.NewStructMappedObjectSchema[P3](id, props)
	case "P4":
		return schema.NewStructMappedObjectSchema[P4](id, props)
	case "P4b":
		return schema.NewStructMappedObjectSchema[P4b](id, props)
	case "P5":
		return schema.NewStructMappedObjectSchema[P5](id, props)
	case "*P5":
		return schema.NewStructMappedObjectSchema[*P5](id, props)
	case "P6":
		return schema.NewStructMappedObjectSchema[P6](id, props)
	case "P7":
		return schema.NewStructMappedObjectSchema[P7](id, props)
	case "P8":
		return schema.NewStructMappedObjectSchema[P8](id, props)
	case "P9":
		return schema.NewStructMappedObjectSchema[P9](id, props)
	case "P11":
		return schema.NewStructMappedObjectSchema[P11](id, props)
	case "P12":
		return schema.NewStructMappedObjectSchema[P12](id, props)
	case "P13":
		return schema.NewStructMappedObjectSchema[P13](id, props)
	case "P14":
		return schema.NewStructMappedObjectSchema[P14](id, props)
	case "P18":
		return schema.NewStructMappedObjectSchema[P18](id, props)
	case "P15":
		return schema.NewStructMappedObjectSchema[P15](id, props)
	case "P16":
		return schema.NewStructMappedObjectSchema[P16](id, props)
	case "P17":
		return schema.NewStructMappedObjectSchema[P17](id, props)
	case "P19":
		return schema.NewStructMappedObjectSchema[P19](id, props)
	case "P21":
		return schema.NewStructMappedObjectSchema[P21](id, props)
	case "P20":
		return schema.NewStructMappedObjectSchema[P20](id, props)
	case "P10":
		return schema.NewStructMappedObjectSchema[P10](id, props)
	case "*P10":
		return schema.NewStructMappedObjectSchema[*P10](id, props)
	}
	panic(fmt.Sprintf("gen: unknown pool struct %q", name))
}

// buildTypedStruct is buildStruct through the typed constructor (NewTypedObject, and every third one its Any() view):
// the same object for every untyped operation, but another Go type in the schema tree.
func buildTypedStruct(name, id string, props map[string]*schema.PropertySchema, anyView bool) schema.Object {
	switch name {
	case "P1":
		if anyView {
			return schema.NewTypedObject[P1](id, props).Any()
		}
		return schema.NewTypedObject[P1](id, props)
	case "*P1":
		return schema.NewTypedObject[*P1](id, props)
	case "P3":
		return schema.NewTypedObject[P3](id, props)
	case "P5":
		if anyView {
			return schema.NewTypedObject[P5](id, props).Any()
		}
		return schema.NewTypedObject[P5](id, props)
	case "*P5":
		return schema.NewTypedObject[*P5](id, props)
	case "P2":
		return schema.NewTypedObject[P2](id, props)
	case "P8":
		return schema.NewTypedObject[P8](id, props)
	case "P13":
		return schema.NewTypedObject[P13](id, props)
	case "P19":
		if anyView {
			return schema.NewTypedObject[P19](id, props).Any()
		}
		return schema.NewTypedObject[P19](id, props)
	}
	return buildStruct(name, id, props)
}

// buildTypedScope is NewTypedScopeSchema over the root's native type.
func buildTypedScope(rootStruct string, root *schema.ObjectSchema, others []*schema.ObjectSchema) schema.Type {
	switch rootStruct {
	case "":
		return schema.NewTypedScopeSchema[map[string]any](root, others...)
	case "P1":
		return schema.NewTypedScopeSchema[P1](root, others...)
	case "P5":
		return schema.NewTypedScopeSchema[P5](root, others...)
	case "P19":
		return schema.NewTypedScopeSchema[P19](root, others...)
	}
	return schema.NewScopeSchema(root, others...)
}

// ZeroStruct returns the zero value of the named pool type (for wrong-struct probes).
func ZeroStruct(name string) any {
	switch name {
	case "P21":
		return P21{}
	case "P20":
		return P20{}
	case "P19":
		return P19{}
	case "P1":
		return P1{}
	case "*P1":
		return &P1{}
	case "P2":
		return P2{}
	case "P3":
		return P3{}
	case "P4":
		return P4{}
	case "P4b":
		return P4b{}
	case "P5":
		return P5{}
	case "*P5":
		return &P5{}
	case "P6":
		return P6{}
	case "P7":
		return P7{}
	case "P8":
		return P8{}
	case "P9":
		return P9{}
	case "P11":
		return P11{}
	case "P12":
		return P12{}
	case "P13":
		return P13{}
	case "P14":
		return P14{}
	case "P18":
		return P18{}
	case "P15":
		return P15{}
	case "P16":
		return P16{}
	case "P17":
		return P17{}
	case "P10":
		return P10{}
	case "*P10":
		return &P10{}
	}
	return nil
}
