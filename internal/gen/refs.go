package gen

import (
	"fmt"

	"verif/internal/wk"
)

// GenNamespaced generates a non-recursive scope tree (nested scopes with colliding object IDs, references
// under properties / lists / maps / one-ofs) plus 0..2 external namespaces whose objects some references
// point to. The returned tables are the external object tables by namespace.
func GenNamespaced(r *wk.Rand) (*Shape, map[string][]*Shape) {
	cfg := Full()
	cfg.Recursion, cfg.Structs, cfg.TypedEnum, cfg.WeirdBounds, cfg.GoodDefaults, cfg.Disabled = false, false, false, false, true, true
	n := 0
	c := &ctx{cfg: cfg, r: r, counter: &n}
	s := c.genScope(0, true)
	tables := map[string][]*Shape{}
	nss := []string{"nsA", "nsB"}[:r.Intn(3)]
	plain := &ctx{cfg: Cfg{MaxDepth: 2, Units: true}, r: r, counter: &n}
	for _, ns := range nss {
		k := 1 + r.Intn(3)
		for i := 0; i < k; i++ {
			id := fmt.Sprintf("Ext%d", i)
			if r.Chance(30) && len(s.Objects) > 0 {
				id = s.Objects[r.Intn(len(s.Objects))].ID // same ID as an object of the scope itself
			}
			dup := false
			for _, o := range tables[ns] {
				if o.ID == id {
					dup = true
				}
			}
			if dup {
				continue
			}
			o := &Shape{Kind: KObject, ID: id}
			np := 1 + r.Intn(3)
			used := map[string]bool{}
			for j := 0; j < np; j++ {
				name := wk.Pick(r, propNames)
				if used[name] {
					continue
				}
				used[name] = true
				o.Props = append(o.Props, &Prop{Name: name, T: plain.genScalar(), Required: r.Chance(40)})
			}
			tables[ns] = append(tables[ns], o)
		}
	}
	// turn some property / item / value positions into namespaced references
	if len(nss) > 0 {
		WalkEnv(s, &Env{}, func(x *Shape, _ *Env) {
			repl := func(t **Shape) {
				if (*t).Kind != KOneOfStr && (*t).Kind != KOneOfInt && (*t).Kind != KScope && r.Chance(12) {
					ns := wk.Pick(r, nss)
					*t = &Shape{Kind: KRef, RefID: wk.Pick(r, tables[ns]).ID, NS: ns}
				}
			}
			switch x.Kind {
			case KObject:
				for _, p := range x.Props {
					if p.T.Kind != KRef && p.Default == nil {
						repl(&p.T)
					}
				}
			case KList:
				repl(&x.Items)
			case KMap:
				repl(&x.Vals)
			}
		})
	}
	fixOneOfAmbiguity(s, &Env{NS: TablesToNS(tables)})
	return s, tables
}

// TablesToNS converts namespace tables into the form Env uses.
func TablesToNS(tables map[string][]*Shape) map[string]map[string]*Shape {
	out := map[string]map[string]*Shape{}
	for ns, objs := range tables {
		m := map[string]*Shape{}
		for _, o := range objs {
			m[o.ID] = o
		}
		out[ns] = m
	}
	return out
}

// Inline returns a copy of s in which every reference is replaced by (a copy of) the object it denotes
// under lexical resolution. It must only be used on non-recursive graphs. ok=false if a reference does not resolve.
func Inline(s *Shape, env *Env) (*Shape, bool) {
	ok := true
	var inl func(x *Shape, e *Env, depth int) *Shape
	inl = func(x *Shape, e *Env, depth int) *Shape {
		if x == nil || depth > 60 {
			ok = ok && x == nil
			return x
		}
		switch x.Kind {
		case KRef:
			o, oe := e.Resolve(x)
			if o == nil {
				ok = false
				return x.Clone()
			}
			return inl(o, oe, depth+1)
		case KList:
			c := *x
			c.Items = inl(x.Items, e, depth+1)
			return &c
		case KMap:
			c := *x
			c.Keys, c.Vals = inl(x.Keys, e, depth+1), inl(x.Vals, e, depth+1)
			return &c
		case KObject:
			c := *x
			c.Props = nil
			for _, p := range x.Props {
				q := *p
				q.T = inl(p.T, e, depth+1)
				c.Props = append(c.Props, &q)
			}
			return &c
		case KOneOfStr, KOneOfInt:
			c := *x
			c.Members = nil
			for _, m := range x.Members {
				mm := *m
				mm.T = inl(m.T, e, depth+1)
				c.Members = append(c.Members, &mm)
			}
			return &c
		case KScope:
			c := *x
			c.Objects = nil
			inner := e.Push(x)
			for _, o := range x.Objects {
				c.Objects = append(c.Objects, inl(o, inner, depth+1))
			}
			return &c
		}
		c := *x
		return &c
	}
	out := inl(s, env, 0)
	return out, ok
}

// HasRefs reports whether any reference is left in the tree.
func (s *Shape) HasRefs() bool {
	found := false
	s.Walk(func(x *Shape) {
		if x.Kind == KRef {
			found = true
		}
	})
	return found
}
