// Package fakeerr declares a non-error type whose name is "error".
package fakeerr

// error shadows the predeclared interface inside this package only.
type error int //nolint

// Err is the exported handle on the type above; reflect reports its Name() as "error".
type Err = error

// IfaceNamedError is an interface type that is also named "error" but is not the predeclared one.
type IfaceNamedError = errorI

type errorI interface{ NotError() }
