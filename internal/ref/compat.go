package ref

import (
	"fmt"

	"verif/internal/gen"
)

// CompatVerdict: the statement only fixes when a producer must be rejected (and reflexivity, which
// the check handles separately); everything else is unspecified.
type CompatVerdict struct {
	MustReject bool
	Why        string
}

func baseKind(s *gen.Shape) string {
	switch s.Kind {
	case gen.KObject, gen.KRef, gen.KScope:
		return "object"
	case gen.KStrEnum, gen.KTypedStrEnum:
		return "enum_string"
	}
	return s.Kind.String()
}

type pairKey struct{ a, b *gen.Shape }

// Compat states when consumer a must reject producer b.
func Compat(a, b *gen.Shape, envA, envB *gen.Env) CompatVerdict {
	return compat(a, b, envA, envB, map[pairKey]bool{}, 0)
}

func mr(f string, args ...any) CompatVerdict { return CompatVerdict{true, fmt.Sprintf(f, args...)} }

func disjointI(amin, amax, bmin, bmax *int64) bool {
	return (bmin != nil && amax != nil && *bmin > *amax) || (bmax != nil && amin != nil && *bmax < *amin)
}

func compat(a, b *gen.Shape, envA, envB *gen.Env, seen map[pairKey]bool, depth int) CompatVerdict {
	if a == nil || b == nil || depth > 200 {
		return CompatVerdict{}
	}
	ka, kb := baseKind(a), baseKind(b)
	if ka == "any" {
		return CompatVerdict{} // anything into any: unspecified
	}
	if ka != kb {
		// enum <-> scalar of the same base: some values may be consumable
		if (ka == "int" && kb == "enum_int") || (ka == "enum_int" && kb == "int") || (ka == "string" && kb == "enum_string") || (ka == "enum_string" && kb == "string") {
			return CompatVerdict{}
		}
		return mr("different base kind: %s into %s", kb, ka)
	}
	switch ka {
	case "int":
		if disjointI(a.Min, a.Max, b.Min, b.Max) {
			return mr("integer ranges cannot overlap")
		}
	case "float":
		if (b.FMin != nil && a.FMax != nil && *b.FMin > *a.FMax) || (b.FMax != nil && a.FMin != nil && *b.FMax < *a.FMin) {
			return mr("float ranges cannot overlap")
		}
	case "string":
		if disjointI(a.Min, a.Max, b.Min, b.Max) {
			return mr("string length ranges cannot overlap")
		}
	case "enum_int":
		for _, v := range b.IntVals {
			found := false
			for _, w := range a.IntVals {
				if v == w {
					found = true
				}
			}
			if !found {
				return mr("producer offers enum value %d outside the consumer's set", v)
			}
		}
	case "enum_string":
		for _, v := range b.StrVals {
			found := false
			for _, w := range a.StrVals {
				if v == w {
					found = true
				}
			}
			if !found {
				return mr("producer offers enum value %q outside the consumer's set", v)
			}
		}
	case "list":
		if disjointI(a.Min, a.Max, b.Min, b.Max) {
			return mr("list size ranges cannot overlap")
		}
		if v := compat(a.Items, b.Items, envA, envB, seen, depth+1); v.MustReject {
			return mr("items: %s", v.Why)
		}
	case "map":
		if disjointI(a.Min, a.Max, b.Min, b.Max) {
			return mr("map size ranges cannot overlap")
		}
		if v := compat(a.Keys, b.Keys, envA, envB, seen, depth+1); v.MustReject {
			return mr("keys: %s", v.Why)
		}
		if v := compat(a.Vals, b.Vals, envA, envB, seen, depth+1); v.MustReject {
			return mr("values: %s", v.Why)
		}
	case "object":
		oa, ea := objectOf(a, envA)
		ob, eb := objectOf(b, envB)
		if oa == nil || ob == nil {
			return CompatVerdict{}
		}
		if seen[pairKey{oa, ob}] {
			return CompatVerdict{}
		}
		seen[pairKey{oa, ob}] = true
		if !oa.Unenforced && !ob.Unenforced && oa.ID != ob.ID {
			return mr("object IDs differ (%s vs %s) and both enforce them", oa.ID, ob.ID)
		}
		for _, pb := range ob.Props {
			if oa.Prop(pb.Name) == nil {
				return mr("producer carries undeclared property %q", pb.Name)
			}
		}
		for _, pa := range oa.Props {
			pb := ob.Prop(pa.Name)
			if pb == nil {
				if pa.Required {
					return mr("producer lacks required property %q", pa.Name)
				}
				continue
			}
			if v := compat(pa.T, pb.T, ea, eb, seen, depth+1); v.MustReject {
				return mr("property %s: %s", pa.Name, v.Why)
			}
		}
	case "one_of_string", "one_of_int":
		if a.Disc != b.Disc {
			return mr("discriminator field names differ")
		}
		for _, ma := range a.Members {
			var mb *gen.Member
			for _, m := range b.Members {
				if (a.Kind == gen.KOneOfStr && m.KeyS == ma.KeyS) || (a.Kind == gen.KOneOfInt && m.KeyI == ma.KeyI) {
					mb = m
				}
			}
			if mb == nil {
				return mr("producer lacks a member the consumer has")
			}
			if v := compat(ma.T, mb.T, envA, envB, seen, depth+1); v.MustReject {
				return mr("member: %s", v.Why)
			}
		}
	}
	return CompatVerdict{}
}
