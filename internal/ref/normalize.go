package ref

import (
	"fmt"
	"math"
	"reflect"
	"regexp"
	"sort"
	"strings"

	"verif/internal/gen"
)

// BadType marks a native value whose Go type is not what the shape's native type is.
type BadType struct{ Got string }

// Normalize turns a native value returned by the SDK (typed slices and maps, structs, named types,
// *regexp.Regexp) into the generic form the reference uses, walking along the shape.
func Normalize(s *gen.Shape, v any, env *gen.Env) any {
	return normalize(s, reflect.ValueOf(v), env, 0)
}

func normalize(s *gen.Shape, v reflect.Value, env *gen.Env, depth int) any {
	if depth > 12000 {
		return BadType{"too deep"}
	}
	for v.IsValid() && v.Kind() == reflect.Interface {
		if v.IsNil() {
			return nil
		}
		v = v.Elem()
	}
	if !v.IsValid() {
		return nil
	}
	bad := func() any { return BadType{v.Type().String()} }
	switch s.Kind {
	case gen.KInt, gen.KIntEnum:
		if v.Kind() != reflect.Int64 {
			return bad()
		}
		return v.Int()
	case gen.KFloat:
		if v.Kind() != reflect.Float64 {
			return bad()
		}
		return v.Float()
	case gen.KString, gen.KStrEnum, gen.KTypedStrEnum:
		if v.Kind() != reflect.String {
			return bad()
		}
		return v.String()
	case gen.KBool:
		if v.Kind() != reflect.Bool {
			return bad()
		}
		return v.Bool()
	case gen.KPattern:
		re, ok := v.Interface().(*regexp.Regexp)
		if !ok || re == nil {
			return bad()
		}
		return Pat{re.String()}
	case gen.KAny:
		return normalizeAny(v, depth)
	case gen.KList:
		if v.Kind() != reflect.Slice {
			return bad()
		}
		out := make([]any, v.Len())
		for i := range out {
			out[i] = normalize(s.Items, v.Index(i), env, depth+1)
		}
		return out
	case gen.KMap:
		if v.Kind() != reflect.Map {
			return bad()
		}
		out := map[any]any{}
		it := v.MapRange()
		for it.Next() {
			k := normalize(s.Keys, it.Key(), env, depth+1)
			if !hashable(k) {
				k = fmt.Sprint(k)
			}
			out[k] = normalize(s.Vals, it.Value(), env, depth+1)
		}
		return out
	case gen.KObject:
		return normalizeObject(s, v, env, depth)
	case gen.KOneOfStr, gen.KOneOfInt:
		return normalizeOneOf(s, v, env, depth)
	case gen.KRef:
		o, oenv := env.Resolve(s)
		if o == nil {
			return BadType{"unlinked ref"}
		}
		return normalize(o, v, oenv, depth+1)
	case gen.KScope:
		for _, o := range s.Objects {
			if o.ID == s.Root {
				return normalize(o, v, env.Push(s), depth+1)
			}
		}
	}
	return bad()
}

func normalizeAny(v reflect.Value, depth int) any {
	for v.IsValid() && v.Kind() == reflect.Interface {
		if v.IsNil() {
			return nil
		}
		v = v.Elem()
	}
	if !v.IsValid() {
		return nil
	}
	switch v.Kind() {
	case reflect.Int64:
		return v.Int()
	case reflect.Float64:
		return v.Float()
	case reflect.String:
		return v.String()
	case reflect.Bool:
		return v.Bool()
	case reflect.Slice:
		out := make([]any, v.Len())
		for i := range out {
			out[i] = normalizeAny(v.Index(i), depth+1)
		}
		return out
	case reflect.Map:
		out := map[any]any{}
		it := v.MapRange()
		for it.Next() {
			k := normalizeAny(it.Key(), depth+1)
			if !hashable(k) {
				k = fmt.Sprint(k)
			}
			out[k] = normalizeAny(it.Value(), depth+1)
		}
		return out
	}
	return BadType{v.Type().String()}
}

// fieldFor finds the struct field a property is mapped to: json tag first, then the field name.
func fieldFor(t reflect.Type, prop string) (reflect.StructField, bool) {
	for i := 0; i < t.NumField(); i++ {
		f := t.Field(i)
		tag := f.Tag.Get("json")
		if tag != "" && strings.SplitN(tag, ",", 2)[0] == prop {
			return f, true
		}
	}
	return t.FieldByName(prop)
}

func normalizeObject(s *gen.Shape, v reflect.Value, env *gen.Env, depth int) any {
	if v.Kind() == reflect.Map && s.Struct != "" {
		return BadType{"a map is not the native form of a struct-mapped object"}
	}
	if v.Kind() == reflect.Map {
		if v.Type().Key().Kind() != reflect.String {
			return BadType{v.Type().String()}
		}
		out := map[string]any{}
		it := v.MapRange()
		for it.Next() {
			k := it.Key().String()
			if p := s.Prop(k); p != nil {
				out[k] = normalize(p.T, it.Value(), env, depth+1)
			} else {
				out[k] = normalizeAny(it.Value(), depth+1)
			}
		}
		return out
	}
	if v.Kind() == reflect.Pointer {
		if v.IsNil() {
			return BadType{"nil " + v.Type().String()}
		}
		v = v.Elem()
	}
	if v.Kind() != reflect.Struct {
		return BadType{v.Type().String()}
	}
	out := map[string]any{}
	for _, p := range s.Props {
		f, ok := fieldFor(v.Type(), p.Name)
		if !ok {
			continue
		}
		fv := v.FieldByIndex(f.Index)
		if fv.Kind() == reflect.Pointer {
			if fv.IsNil() {
				continue
			}
			if derefKind(p.T, env) != gen.KPattern && !structPointerObject(p.T, env) {
				fv = fv.Elem()
			}
		}
		if fv.Kind() == reflect.Interface && fv.IsNil() {
			continue
		}
		if p.EmptyDef && fv.IsZero() {
			continue // documented identification: the empty value of such a property is absence
		}
		if k := derefKind(p.T, env); k == gen.KInt || k == gen.KIntEnum {
			// an integer property may be mapped to any Go integer field; its value is the number
			switch fv.Kind() {
			case reflect.Int, reflect.Int8, reflect.Int16, reflect.Int32:
				fv = reflect.ValueOf(fv.Int())
			case reflect.Uint, reflect.Uint8, reflect.Uint16, reflect.Uint32, reflect.Uint64:
				if fv.Uint() <= 1<<63-1 {
					fv = reflect.ValueOf(int64(fv.Uint()))
				}
			}
		}
		out[p.Name] = normalize(p.T, fv, env, depth+1)
	}
	return out
}

func derefKind(t *gen.Shape, env *gen.Env) gen.Kind {
	for i := 0; i < 8 && t != nil; i++ {
		if t.Kind == gen.KRef {
			t, env = env.Resolve(t)
			continue
		}
		return t.Kind
	}
	return gen.KAny
}

func structPointerObject(t *gen.Shape, env *gen.Env) bool {
	for i := 0; i < 8 && t != nil; i++ {
		switch t.Kind {
		case gen.KRef:
			t, env = env.Resolve(t)
		case gen.KObject:
			return strings.HasPrefix(t.Struct, "*")
		default:
			return false
		}
	}
	return false
}

func objectOf(t *gen.Shape, env *gen.Env) (*gen.Shape, *gen.Env) {
	for i := 0; i < 8 && t != nil; i++ {
		switch t.Kind {
		case gen.KRef:
			t, env = env.Resolve(t)
		case gen.KScope:
			var root *gen.Shape
			for _, o := range t.Objects {
				if o.ID == t.Root {
					root = o
				}
			}
			env = env.Push(t)
			t = root
		default:
			return t, env
		}
	}
	return t, env
}

func normalizeOneOf(s *gen.Shape, v reflect.Value, env *gen.Env, depth int) any {
	if v.Kind() == reflect.Map {
		if v.Type().Key().Kind() != reflect.String {
			return BadType{v.Type().String()}
		}
		d := v.MapIndex(reflect.ValueOf(s.Disc).Convert(v.Type().Key()))
		var mem *gen.Member
		var typed any
		if d.IsValid() {
			for d.Kind() == reflect.Interface && !d.IsNil() {
				d = d.Elem()
			}
			var dv any
			if d.IsValid() && (d.Type() == reflect.TypeOf("") || d.Type() == reflect.TypeOf(int64(0))) {
				dv = d.Interface() // only the native discriminator types count as native form
			}
			typed = dv
			for _, m := range s.Members {
				if (s.Kind == gen.KOneOfStr && dv == m.KeyS) || (s.Kind == gen.KOneOfInt && dv == m.KeyI) {
					mem = m
				}
			}
		}
		if mem == nil {
			return BadType{fmt.Sprintf("one-of map without a usable discriminator (%v)", typed)}
		}
		o, oenv := objectOf(mem.T, env)
		if o == nil {
			return BadType{"member not resolvable"}
		}
		res := normalizeObject(o, v, oenv, depth+1)
		if m, ok := res.(map[string]any); ok {
			m[s.Disc] = typed
		}
		return res
	}
	// struct value: the member is found by its Go type
	name := v.Type().String()
	for _, m := range s.Members {
		o, oenv := objectOf(m.T, env)
		if o != nil && o.Struct != "" && ("gen."+strings.TrimPrefix(o.Struct, "*") == strings.TrimPrefix(name, "*")) {
			return normalizeObject(o, v, oenv, depth+1)
		}
	}
	return BadType{name}
}

// Compare returns "" when the expected generic value and the normalised actual value agree, or a
// description of the first difference. Struct-mapped objects are compared on the expected keys only: a Go
// struct always carries its non-pointer fields, so absent optional properties show as zero values.
func Compare(s *gen.Shape, exp, act any, env *gen.Env) string {
	return compare(s, exp, act, env, "$", 0)
}

func floatsClose(a, b float64) bool {
	if a == b || (math.IsNaN(a) && math.IsNaN(b)) {
		return true
	}
	return math.Abs(a-b) <= 1e-9*math.Max(math.Abs(a), math.Abs(b))
}

func compare(s *gen.Shape, exp, act any, env *gen.Env, path string, depth int) string {
	if depth > 12000 {
		return ""
	}
	if bt, ok := act.(BadType); ok {
		return fmt.Sprintf("%s: native value has Go type %s, which is not the native type of %s", path, bt.Got, s.Kind)
	}
	switch s.Kind {
	case gen.KRef:
		o, oenv := env.Resolve(s)
		if o == nil {
			return ""
		}
		return compare(o, exp, act, oenv, path, depth+1)
	case gen.KScope:
		for _, o := range s.Objects {
			if o.ID == s.Root {
				return compare(o, exp, act, env.Push(s), path, depth+1)
			}
		}
		return ""
	case gen.KFloat:
		ef, ok1 := exp.(float64)
		af, ok2 := act.(float64)
		if ok1 && ok2 && floatsClose(ef, af) {
			return ""
		}
		return fmt.Sprintf("%s: expected %v, got %v", path, exp, act)
	case gen.KList:
		el, ok1 := exp.([]any)
		al, ok2 := act.([]any)
		if !ok1 || !ok2 || len(el) != len(al) {
			return fmt.Sprintf("%s: expected list %v, got %v", path, exp, act)
		}
		for i := range el {
			if d := compare(s.Items, el[i], al[i], env, fmt.Sprintf("%s[%d]", path, i), depth+1); d != "" {
				return d
			}
		}
		return ""
	case gen.KMap:
		em, ok1 := exp.(map[any]any)
		am, ok2 := act.(map[any]any)
		if !ok1 || !ok2 || len(em) != len(am) {
			return fmt.Sprintf("%s: expected map %v, got %v", path, exp, act)
		}
		for k, ev := range em {
			av, ok := am[k]
			if !ok {
				return fmt.Sprintf("%s: key %v (%T) missing in %v", path, k, k, keysOf(am))
			}
			if d := compare(s.Vals, ev, av, env, fmt.Sprintf("%s[%v]", path, k), depth+1); d != "" {
				return d
			}
		}
		return ""
	case gen.KObject, gen.KOneOfStr, gen.KOneOfInt:
		em, ok1 := exp.(map[string]any)
		am, ok2 := act.(map[string]any)
		if !ok1 || !ok2 {
			return fmt.Sprintf("%s: expected object %v, got %v", path, exp, act)
		}
		obj, oenv := s, env
		structMapped := false
		if s.Kind != gen.KObject {
			// find the member through the discriminator of the expected value
			var mem *gen.Member
			for _, m := range s.Members {
				if (s.Kind == gen.KOneOfStr && em[s.Disc] == m.KeyS) || (s.Kind == gen.KOneOfInt && em[s.Disc] == m.KeyI) {
					mem = m
				}
			}
			if mem == nil {
				// struct-mapped members carry no discriminator: the member is one whose properties cover the
				// keys we have. With several such members the value is compared against each of them, and it is
				// the denoted one if it agrees with any (the discriminator itself is not visible here).
				var cands []*gen.Member
				for _, m := range s.Members {
					o, _ := objectOf(m.T, env)
					if o == nil || o.Struct == "" {
						continue
					}
					covers := true
					for k := range em {
						if k != s.Disc && o.Prop(k) == nil {
							covers = false
						}
					}
					if covers {
						cands = append(cands, m)
					}
				}
				if len(cands) == 0 {
					return ""
				}
				if len(cands) > 1 {
					first := ""
					for _, m := range cands {
						d := compare(&gen.Shape{Kind: s.Kind, Disc: s.Disc, Members: []*gen.Member{m}}, exp, act, env, path, depth+1)
						if d == "" {
							return ""
						}
						if first == "" {
							first = d
						}
					}
					return first
				}
				mem = cands[0]
				obj, oenv = objectOf(mem.T, env)
			} else {
				obj, oenv = objectOf(mem.T, env)
			}
			if obj == nil {
				return ""
			}
		}
		structMapped = obj.Struct != ""
		for k, ev := range em {
			av, ok := am[k]
			p := obj.Prop(k)
			if !ok && structMapped && p != nil && p.EmptyDef && isZeroGeneric(ev) {
				continue // documented identification: an empty treat-empty-as-default value is absence
			}
			if !ok {
				return fmt.Sprintf("%s: property %q missing (got keys %v)", path, k, keysOfS(am))
			}
			if p == nil {
				if k == s.Disc && fmt.Sprintf("%T:%v", ev, ev) != fmt.Sprintf("%T:%v", av, av) {
					return fmt.Sprintf("%s.%s: discriminator expected %T(%v), got %T(%v)", path, k, ev, ev, av, av)
				}
				continue
			}
			if d := compare(p.T, ev, av, oenv, path+"."+k, depth+1); d != "" {
				return d
			}
		}
		if !structMapped {
			for k := range am {
				if _, ok := em[k]; !ok {
					return fmt.Sprintf("%s: unexpected property %q = %v", path, k, am[k])
				}
			}
		}
		return ""
	case gen.KAny:
		if canonAny(exp) != canonAny(act) {
			return fmt.Sprintf("%s: expected %s, got %s", path, canonAny(exp), canonAny(act))
		}
		return ""
	}
	if fmt.Sprintf("%T:%v", exp, exp) != fmt.Sprintf("%T:%v", act, act) {
		return fmt.Sprintf("%s: expected %T(%v), got %T(%v)", path, exp, exp, act, act)
	}
	return ""
}

func keysOf(m map[any]any) []string {
	var out []string
	for k := range m {
		out = append(out, fmt.Sprintf("%T(%v)", k, k))
	}
	sort.Strings(out)
	return out
}

func keysOfS(m map[string]any) []string {
	var out []string
	for k := range m {
		out = append(out, k)
	}
	sort.Strings(out)
	return out
}

func canonAny(v any) string {
	switch x := v.(type) {
	case []any:
		parts := make([]string, len(x))
		for i := range x {
			parts[i] = canonAny(x[i])
		}
		return "[" + strings.Join(parts, ",") + "]"
	case map[any]any:
		parts := make([]string, 0, len(x))
		for k, val := range x {
			parts = append(parts, canonAny(k)+":"+canonAny(val))
		}
		sort.Strings(parts)
		return "{" + strings.Join(parts, ",") + "}"
	case float64:
		if math.IsNaN(x) {
			return "float64(NaN)"
		}
	}
	return fmt.Sprintf("%T(%v)", v, v)
}

// Check states the declared constraints over a generic native value (no conversions): it is what
// Validate and Serialize must enforce on values in native form, and what every accepted Unserialize
// result must satisfy. Returns "" if all constraints hold.
func Check(s *gen.Shape, g any, env *gen.Env) string {
	return check(s, g, env, "$", 0)
}

func check(s *gen.Shape, g any, env *gen.Env, path string, depth int) string {
	if depth > 12000 {
		return ""
	}
	if bt, ok := g.(BadType); ok {
		return fmt.Sprintf("%s: Go type %s is not the native type of %s", path, bt.Got, s.Kind)
	}
	switch s.Kind {
	case gen.KInt:
		n, ok := g.(int64)
		if !ok {
			return fmt.Sprintf("%s: %T is not an integer", path, g)
		}
		if s.Min != nil && n < *s.Min {
			return fmt.Sprintf("%s: %d below min %d", path, n, *s.Min)
		}
		if s.Max != nil && n > *s.Max {
			return fmt.Sprintf("%s: %d above max %d", path, n, *s.Max)
		}
	case gen.KFloat:
		f, ok := g.(float64)
		if !ok {
			return fmt.Sprintf("%s: %T is not a float", path, g)
		}
		if math.IsNaN(f) && (s.FMin != nil || s.FMax != nil) {
			return fmt.Sprintf("%s: NaN does not satisfy a declared bound", path)
		}
		if s.FMin != nil && f < *s.FMin {
			return fmt.Sprintf("%s: %v below min %v", path, f, *s.FMin)
		}
		if s.FMax != nil && f > *s.FMax {
			return fmt.Sprintf("%s: %v above max %v", path, f, *s.FMax)
		}
	case gen.KString:
		str, ok := g.(string)
		if !ok {
			return fmt.Sprintf("%s: %T is not a string", path, g)
		}
		if why := checkString(s, str); why != "" {
			return path + ": " + why
		}
	case gen.KBool:
		if _, ok := g.(bool); !ok {
			return fmt.Sprintf("%s: %T is not a bool", path, g)
		}
	case gen.KPattern:
		if _, ok := g.(Pat); !ok {
			return fmt.Sprintf("%s: %T is not a pattern", path, g)
		}
	case gen.KIntEnum:
		n, ok := g.(int64)
		if !ok {
			return fmt.Sprintf("%s: %T is not an integer", path, g)
		}
		for _, v := range s.IntVals {
			if v == n {
				return ""
			}
		}
		return fmt.Sprintf("%s: %d is not an enum value", path, n)
	case gen.KStrEnum, gen.KTypedStrEnum:
		str, ok := g.(string)
		if !ok {
			return fmt.Sprintf("%s: %T is not a string", path, g)
		}
		for _, v := range s.StrVals {
			if v == str {
				return ""
			}
		}
		return fmt.Sprintf("%s: %q is not an enum value", path, str)
	case gen.KList:
		l, ok := g.([]any)
		if !ok {
			return fmt.Sprintf("%s: %T is not a list", path, g)
		}
		n := int64(len(l))
		if s.Min != nil && n < *s.Min {
			return fmt.Sprintf("%s: %d items, min %d", path, n, *s.Min)
		}
		if s.Max != nil && n > *s.Max {
			return fmt.Sprintf("%s: %d items, max %d", path, n, *s.Max)
		}
		for i := range l {
			if w := check(s.Items, l[i], env, fmt.Sprintf("%s[%d]", path, i), depth+1); w != "" {
				return w
			}
		}
	case gen.KMap:
		m, ok := g.(map[any]any)
		if !ok {
			return fmt.Sprintf("%s: %T is not a map", path, g)
		}
		n := int64(len(m))
		if s.Min != nil && n < *s.Min {
			return fmt.Sprintf("%s: %d entries, min %d", path, n, *s.Min)
		}
		if s.Max != nil && n > *s.Max {
			return fmt.Sprintf("%s: %d entries, max %d", path, n, *s.Max)
		}
		for k, v := range m {
			if w := check(s.Keys, k, env, fmt.Sprintf("%s{%v}", path, k), depth+1); w != "" {
				return w
			}
			if w := check(s.Vals, v, env, fmt.Sprintf("%s[%v]", path, k), depth+1); w != "" {
				return w
			}
		}
	case gen.KObject:
		m, ok := g.(map[string]any)
		if !ok {
			return fmt.Sprintf("%s: %T is not an object", path, g)
		}
		set := map[string]bool{}
		for k, v := range m {
			p := s.Prop(k)
			if p == nil {
				return fmt.Sprintf("%s: undeclared property %q", path, k)
			}
			set[k] = true
			if w := check(p.T, v, env, path+"."+k, depth+1); w != "" {
				return w
			}
		}
		if gen.AllAbsentable(s) {
			if w := PresenceViolation(s, set); w != "" {
				return path + ": " + w
			}
		}
	case gen.KOneOfStr, gen.KOneOfInt:
		m, ok := g.(map[string]any)
		if !ok {
			return fmt.Sprintf("%s: %T is not a one-of value", path, g)
		}
		for _, mem := range s.Members {
			if (s.Kind == gen.KOneOfStr && m[s.Disc] == mem.KeyS) || (s.Kind == gen.KOneOfInt && m[s.Disc] == mem.KeyI) {
				o, oenv := objectOf(mem.T, env)
				if o == nil {
					return ""
				}
				inner := map[string]any{}
				for k, v := range m {
					if k != s.Disc || s.Inlined {
						inner[k] = v
					}
				}
				return check(o, inner, oenv, path, depth+1)
			}
		}
		return "" // struct-mapped members carry no discriminator in their generic form
	case gen.KRef:
		o, oenv := env.Resolve(s)
		if o == nil {
			return ""
		}
		return check(o, g, oenv, path, depth+1)
	case gen.KScope:
		for _, o := range s.Objects {
			if o.ID == s.Root {
				return check(o, g, env.Push(s), path, depth+1)
			}
		}
	}
	return ""
}

func isZeroGeneric(v any) bool {
	switch x := v.(type) {
	case int64:
		return x == 0
	case float64:
		return x == 0
	case string:
		return x == ""
	case bool:
		return !x
	case []any:
		return len(x) == 0
	case map[any]any:
		return len(x) == 0
	case map[string]any:
		return len(x) == 0
	case nil:
		return true
	}
	return false
}
