package ref

import (
	"encoding/json"
	"fmt"
	"math"
	"reflect"
	"regexp"
	"strconv"
	"strings"

	"verif/internal/gen"
)

type Verdict int

const (
	Accept Verdict = iota
	Reject
	Unspec
)

func (v Verdict) String() string { return [...]string{"must-accept", "must-reject", "unspecified"}[v] }

// Pat is the generic form of a pattern value.
type Pat struct{ Src string }

// Result of denoting a raw value under a shape.
type Result struct {
	V   Verdict
	Val any    // generic value when V == Accept
	Why string // reason for Reject / Unspec
}

func acc(v any) Result               { return Result{V: Accept, Val: v} }
func rej(f string, a ...any) Result  { return Result{V: Reject, Why: fmt.Sprintf(f, a...)} }
func unsp(f string, a ...any) Result { return Result{V: Unspec, Why: fmt.Sprintf(f, a...)} }

var reDecInt = regexp.MustCompile(`^[+-]?[0-9]+$`)
var reDecFloat = regexp.MustCompile(`^[+-]?([0-9]+\.?[0-9]*|\.[0-9]+)([eE][+-]?[0-9]+)?$`)

var boolWords = map[string]bool{"1": true, "yes": true, "y": true, "on": true, "true": true, "enable": true, "enabled": true,
	"0": false, "no": false, "n": false, "off": false, "false": false, "disable": false, "disabled": false}

// exactInt recognises the predeclared integer types only (named types are unspecified).
func exactInt(raw any) (n int64, ok bool, tooBig bool) {
	switch x := raw.(type) {
	case int:
		return int64(x), true, false
	case int8:
		return int64(x), true, false
	case int16:
		return int64(x), true, false
	case int32:
		return int64(x), true, false
	case int64:
		return x, true, false
	case uint:
		if uint64(x) > math.MaxInt64 {
			return 0, true, true
		}
		return int64(x), true, false
	case uint8:
		return int64(x), true, false
	case uint16:
		return int64(x), true, false
	case uint32:
		return int64(x), true, false
	case uint64:
		if x > math.MaxInt64 {
			return 0, true, true
		}
		return int64(x), true, false
	}
	return 0, false, false
}

func exactUint64(raw any) (uint64, bool) {
	switch x := raw.(type) {
	case uint:
		return uint64(x), true
	case uint64:
		return x, true
	}
	return 0, false
}

// scalarKindNamed: a value of a named (non-predeclared) type whose kind is a scalar kind.
func scalarKindNamed(raw any) bool {
	if raw == nil {
		return false
	}
	switch reflect.TypeOf(raw).Kind() {
	case reflect.Int, reflect.Int8, reflect.Int16, reflect.Int32, reflect.Int64, reflect.Uint, reflect.Uint8, reflect.Uint16,
		reflect.Uint32, reflect.Uint64, reflect.Float32, reflect.Float64, reflect.String, reflect.Bool:
		return true
	}
	return false
}

func denoteIntScalar(raw any, units string) Result {
	if n, ok, big := exactInt(raw); ok {
		if big {
			return rej("unsigned integer above MaxInt64")
		}
		return acc(n)
	}
	switch x := raw.(type) {
	case float64:
		return floatToInt(x)
	case float32:
		return floatToInt(float64(x))
	case string:
		if units == "" {
			if !reDecInt.MatchString(x) {
				return rej("%q is not a decimal integer", x)
			}
			n, err := strconv.ParseInt(x, 10, 64)
			if err != nil {
				return rej("%q does not fit in 64 bits", x)
			}
			return acc(n)
		}
		cls, val := Builtin(units).Parse(x)
		switch cls {
		case Ill:
			return rej("%q is not a unit string", x)
		case UnspecParse:
			return unsp("unit string %q is outside the specified grammar", x)
		}
		if !val.IsInt() {
			return unsp("fractional unit quantity for an integer")
		}
		if !val.Num().IsInt64() {
			return rej("unit quantity does not fit in 64 bits")
		}
		if strings.Contains(x, ".") {
			return unsp("integral quantity written with a decimal point")
		}
		return acc(val.Num().Int64())
	case bool:
		return unsp("bool to int")
	}
	if scalarKindNamed(raw) {
		return unsp("named scalar type %T", raw)
	}
	return rej("%T is not an integer representation", raw)
}

func floatToInt(x float64) Result {
	if math.IsNaN(x) || math.IsInf(x, 0) || x != math.Trunc(x) {
		return rej("float %v is not integral", x)
	}
	if x < -9223372036854775808.0 || x >= 9223372036854775808.0 {
		return rej("float %v is outside the int64 range", x)
	}
	return acc(int64(x))
}

func denoteInt(s *gen.Shape, raw any) Result {
	r := denoteIntScalar(raw, s.Units)
	if r.V != Accept {
		return r
	}
	n := r.Val.(int64)
	if s.Min != nil && n < *s.Min {
		return rej("%d below min %d", n, *s.Min)
	}
	if s.Max != nil && n > *s.Max {
		return rej("%d above max %d", n, *s.Max)
	}
	return r
}

func denoteFloat(s *gen.Shape, raw any) Result {
	var f float64
	if n, ok, big := exactInt(raw); ok {
		if big {
			u, _ := exactUint64(raw)
			f = float64(u)
		} else {
			f = float64(n)
		}
	} else {
		switch x := raw.(type) {
		case float64:
			f = x
		case float32:
			f = float64(x)
		case string:
			if s.Units == "" {
				if reDecFloat.MatchString(x) {
					v, err := strconv.ParseFloat(x, 64)
					if err != nil {
						return unsp("decimal literal %q out of range", x)
					}
					f = v
				} else if _, err := strconv.ParseFloat(x, 64); err == nil {
					return unsp("float literal %q in a form the statement does not name", x)
				} else {
					return rej("%q is not a number", x)
				}
			} else {
				cls, val := Builtin(s.Units).Parse(x)
				switch cls {
				case Ill:
					return rej("%q is not a unit string", x)
				case UnspecParse:
					return unsp("unit string %q is outside the specified grammar", x)
				}
				if !val.Num().IsInt64() && val.IsInt() {
					return unsp("unit quantity beyond 64 bits")
				}
				f, _ = val.Float64()
			}
		case bool:
			return unsp("bool to float")
		default:
			if scalarKindNamed(raw) {
				return unsp("named scalar type %T", raw)
			}
			return rej("%T is not a float representation", raw)
		}
	}
	if math.IsNaN(f) {
		if s.FMin != nil || s.FMax != nil {
			return rej("NaN never satisfies a declared bound")
		}
		return unsp("NaN without bounds")
	}
	if s.FMin != nil && f < *s.FMin {
		return rej("%v below min %v", f, *s.FMin)
	}
	if s.FMax != nil && f > *s.FMax {
		return rej("%v above max %v", f, *s.FMax)
	}
	return acc(f)
}

// stringScalar converts a raw value the way the statement fixes it for strings.
func stringScalar(raw any) Result {
	if str, ok := raw.(string); ok {
		return acc(str)
	}
	if n, ok, big := exactInt(raw); ok {
		if big {
			u, _ := exactUint64(raw)
			return acc(strconv.FormatUint(u, 10))
		}
		return acc(strconv.FormatInt(n, 10))
	}
	switch raw.(type) {
	case float32, float64, bool:
		return unsp("%T to string", raw)
	}
	if scalarKindNamed(raw) {
		return unsp("named scalar type %T", raw)
	}
	return rej("%T is not a string representation", raw)
}

func checkString(s *gen.Shape, str string) string {
	n := int64(len(str))
	if s.Min != nil && n < *s.Min {
		return fmt.Sprintf("length %d below min %d", n, *s.Min)
	}
	if s.Max != nil && n > *s.Max {
		return fmt.Sprintf("length %d above max %d", n, *s.Max)
	}
	if s.Pattern != "" && !regexp.MustCompile(s.Pattern).MatchString(str) {
		return fmt.Sprintf("%q does not match /%s/", str, s.Pattern)
	}
	return ""
}

func denoteString(s *gen.Shape, raw any) Result {
	r := stringScalar(raw)
	if r.V != Accept {
		return r
	}
	if why := checkString(s, r.Val.(string)); why != "" {
		return rej("%s", why)
	}
	return r
}

func denoteBool(raw any) Result {
	switch x := raw.(type) {
	case bool:
		return acc(x)
	case string:
		// the boolean words are ASCII; a string with any other letter in it is not one of them (lower-casing would
		// turn the dotted capital I of "DİSABLE" into an i)
		ascii := true
		for i := 0; i < len(x); i++ {
			if x[i] >= 0x80 {
				ascii = false
			}
		}
		if v, ok := boolWords[strings.ToLower(x)]; ok && ascii {
			return acc(v)
		}
		return rej("%q is not a boolean word", x)
	case float32, float64:
		// the statement's lenient conversions for booleans are the boolean words (and the SDK's 0/1 integers);
		// a float is not among them
		return rej("%T is not a boolean representation", raw)
	}
	if n, ok, big := exactInt(raw); ok {
		if !big && (n == 0 || n == 1) {
			return acc(n == 1)
		}
		return rej("integer other than 0/1")
	}
	if scalarKindNamed(raw) {
		return unsp("named scalar type %T", raw)
	}
	return rej("%T is not a boolean representation", raw)
}

func denotePattern(raw any) Result {
	if str, ok := raw.(string); ok {
		if _, err := regexp.Compile(str); err != nil {
			return rej("%q does not compile", str)
		}
		return acc(Pat{str})
	}
	switch raw.(type) {
	case float32, float64, bool:
		return unsp("%T to pattern", raw)
	}
	if _, ok, _ := exactInt(raw); ok {
		return unsp("integer to pattern")
	}
	if scalarKindNamed(raw) {
		return unsp("named scalar type %T", raw)
	}
	return rej("%T is not a pattern representation", raw)
}

func denoteAny(raw any, depth int) Result {
	if depth > 12000 {
		return unsp("too deep")
	}
	if raw == nil {
		return rej("nil is not an any value")
	}
	if n, ok, big := exactInt(raw); ok {
		if big {
			return rej("unsigned integer above MaxInt64")
		}
		return acc(n)
	}
	switch x := raw.(type) {
	case float64:
		return acc(x)
	case float32:
		return acc(float64(x))
	case string:
		return acc(x)
	case bool:
		return acc(x)
	}
	if scalarKindNamed(raw) {
		return unsp("named scalar type %T", raw)
	}
	v := reflect.ValueOf(raw)
	switch v.Kind() {
	case reflect.Slice:
		out := make([]any, v.Len())
		verdict := Accept
		why := ""
		for i := 0; i < v.Len(); i++ {
			r := denoteAny(v.Index(i).Interface(), depth+1)
			if r.V == Reject {
				return rej("[%d]: %s", i, r.Why)
			}
			if r.V == Unspec {
				verdict, why = Unspec, r.Why
			}
			out[i] = r.Val
		}
		if verdict == Unspec {
			return unsp("%s", why)
		}
		return acc(out)
	case reflect.Map:
		out := map[any]any{}
		verdict := Accept
		why := ""
		it := v.MapRange()
		for it.Next() {
			kr := denoteAny(it.Key().Interface(), depth+1)
			if kr.V == Reject {
				return rej("key %v: %s", it.Key().Interface(), kr.Why)
			}
			vr := denoteAny(it.Value().Interface(), depth+1)
			if vr.V == Reject {
				return rej("[%v]: %s", it.Key().Interface(), vr.Why)
			}
			if kr.V == Unspec || vr.V == Unspec {
				verdict, why = Unspec, kr.Why+vr.Why
				continue
			}
			if !hashable(kr.Val) {
				verdict, why = Unspec, "container as key"
				continue
			}
			if _, dup := out[kr.Val]; dup {
				verdict, why = Unspec, "keys collide after normalisation"
			}
			if f, isF := kr.Val.(float64); isF && math.IsNaN(f) {
				verdict, why = Unspec, "NaN key"
			}
			out[kr.Val] = vr.Val
		}
		if verdict == Unspec {
			return unsp("%s", why)
		}
		return acc(out)
	}
	return rej("%T is not supported by the any type", raw)
}

func hashable(v any) bool {
	switch v.(type) {
	case []any, map[any]any, map[string]any:
		return false
	}
	return true
}

// Denote is the reference verdict for Unserialize(raw) under shape s.
func Denote(s *gen.Shape, raw any, env *gen.Env) Result {
	return denote(s, raw, env, 0, nil)
}

func denote(s *gen.Shape, raw any, env *gen.Env, depth int, shorthand map[*gen.Shape]bool) Result {
	if depth > 12000 {
		return unsp("too deep")
	}
	switch s.Kind {
	case gen.KInt:
		return denoteInt(s, raw)
	case gen.KFloat:
		return denoteFloat(s, raw)
	case gen.KString:
		return denoteString(s, raw)
	case gen.KBool:
		return denoteBool(raw)
	case gen.KPattern:
		return denotePattern(raw)
	case gen.KAny:
		return denoteAny(raw, depth)
	case gen.KIntEnum:
		r := denoteIntScalar(raw, s.Units)
		if r.V != Accept {
			return r
		}
		for _, v := range s.IntVals {
			if v == r.Val.(int64) {
				return r
			}
		}
		return rej("%d is not an enum value", r.Val)
	case gen.KStrEnum, gen.KTypedStrEnum:
		// (an integer is read as its decimal text, as for a plain string)
		r := stringScalar(raw)
		if r.V != Accept {
			return r
		}
		for _, v := range s.StrVals {
			if v == r.Val.(string) {
				return r
			}
		}
		return rej("%q is not an enum value", r.Val)
	case gen.KList:
		if raw == nil {
			return rej("nil is not a list")
		}
		v := reflect.ValueOf(raw)
		if v.Kind() == reflect.Array {
			return unsp("array")
		}
		if v.Kind() != reflect.Slice {
			return rej("%T is not a list", raw)
		}
		n := int64(v.Len())
		if s.Min != nil && n < *s.Min {
			return rej("%d items, min %d", n, *s.Min)
		}
		if s.Max != nil && n > *s.Max {
			return rej("%d items, max %d", n, *s.Max)
		}
		out := make([]any, v.Len())
		verdict, why := Accept, ""
		for i := 0; i < v.Len(); i++ {
			r := denote(s.Items, v.Index(i).Interface(), env, depth+1, nil)
			if r.V == Reject {
				return rej("[%d]: %s", i, r.Why)
			}
			if r.V == Unspec {
				verdict, why = Unspec, r.Why
			}
			out[i] = r.Val
		}
		if verdict == Unspec {
			return unsp("%s", why)
		}
		return acc(out)
	case gen.KMap:
		if raw == nil {
			return rej("nil is not a map")
		}
		v := reflect.ValueOf(raw)
		if v.Kind() != reflect.Map {
			return rej("%T is not a map", raw)
		}
		n := int64(v.Len())
		if s.Min != nil && n < *s.Min {
			return rej("%d entries, min %d", n, *s.Min)
		}
		if s.Max != nil && n > *s.Max {
			return rej("%d entries, max %d", n, *s.Max)
		}
		out := map[any]any{}
		verdict, why := Accept, ""
		it := v.MapRange()
		for it.Next() {
			kr := denote(s.Keys, it.Key().Interface(), env, depth+1, nil)
			if kr.V == Reject {
				return rej("key %v: %s", it.Key().Interface(), kr.Why)
			}
			vr := denote(s.Vals, it.Value().Interface(), env, depth+1, nil)
			if vr.V == Reject {
				return rej("[%v]: %s", it.Key().Interface(), vr.Why)
			}
			if kr.V == Unspec || vr.V == Unspec {
				verdict, why = Unspec, kr.Why+" "+vr.Why
				continue
			}
			if _, dup := out[kr.Val]; dup {
				verdict, why = Unspec, "keys collide after normalisation"
			}
			out[kr.Val] = vr.Val
		}
		if verdict == Unspec {
			return unsp("%s", why)
		}
		return acc(out)
	case gen.KObject:
		return denoteObject(s, raw, env, depth, shorthand)
	case gen.KOneOfStr, gen.KOneOfInt:
		return denoteOneOf(s, raw, env, depth)
	case gen.KRef:
		o, oenv := env.Resolve(s)
		if o == nil {
			return unsp("unlinked reference %s", s.RefID)
		}
		return denote(o, raw, oenv, depth+1, shorthand)
	case gen.KScope:
		for _, o := range s.Objects {
			if o.ID == s.Root {
				return denote(o, raw, env.Push(s), depth+1, shorthand)
			}
		}
		return unsp("scope without root")
	}
	return unsp("unknown kind")
}

// PresenceViolation states the presence rules: required, required_if, required_if_not, conflicts.
func PresenceViolation(s *gen.Shape, set map[string]bool) string {
	for _, p := range s.Props {
		if set[p.Name] {
			for _, c := range p.Conflicts {
				if set[c] {
					return fmt.Sprintf("%s conflicts with %s", p.Name, c)
				}
			}
			continue
		}
		if p.Required {
			return fmt.Sprintf("%s is required", p.Name)
		}
		for _, q := range p.ReqIf {
			if set[q] {
				return fmt.Sprintf("%s is required because %s is set", p.Name, q)
			}
		}
		if len(p.ReqIfNot) > 0 {
			found := false
			for _, q := range p.ReqIfNot {
				if set[q] {
					found = true
				}
			}
			if !found {
				return fmt.Sprintf("%s is required because none of %v is set", p.Name, p.ReqIfNot)
			}
		}
	}
	return ""
}

func denoteObject(s *gen.Shape, raw any, env *gen.Env, depth int, shorthand map[*gen.Shape]bool) Result {
	var supplied map[string]any
	isMap := false
	if raw != nil {
		v := reflect.ValueOf(raw)
		if v.Kind() == reflect.Map {
			isMap = true
			supplied = map[string]any{}
			it := v.MapRange()
			for it.Next() {
				k, ok := it.Key().Interface().(string)
				if !ok {
					if it.Key().Kind() == reflect.Interface || it.Key().Kind() == reflect.String {
						if ks, isNamed := it.Key().Interface().(fmt.Stringer); isNamed {
							_ = ks
						}
					}
					if it.Key().Kind() == reflect.String || (it.Key().Kind() == reflect.Interface && it.Key().Elem().Kind() == reflect.String) {
						return unsp("key of a named string type")
					}
					return rej("non-string key %v", it.Key().Interface())
				}
				if s.Prop(k) == nil {
					return rej("undeclared key %q", k)
				}
				supplied[k] = it.Value().Interface()
			}
		}
	}
	if !isMap {
		if len(s.Props) != 1 {
			return rej("%T is not a mapping and the object does not have exactly one property", raw)
		}
		if shorthand[s] {
			return rej("the single-property shorthand leads back to the same object")
		}
		sh := map[*gen.Shape]bool{s: true}
		for k := range shorthand {
			sh[k] = true
		}
		p := s.Props[0]
		if p.Disabled {
			return rej("disabled property %s in use", p.Name)
		}
		r := denote(p.T, raw, env, depth+1, sh)
		if r.V == Reject {
			return rej("shorthand for %s: %s", p.Name, r.Why)
		}
		if r.V == Unspec {
			return r
		}
		if why := PresenceViolation(s, map[string]bool{p.Name: true}); why != "" {
			return rej("%s", why)
		}
		return acc(map[string]any{p.Name: r.Val})
	}
	out := map[string]any{}
	set := map[string]bool{}
	verdict, why := Accept, ""
	for _, p := range s.Props {
		val, has := supplied[p.Name]
		fromDefault := false
		if !has && p.Default != nil {
			var dv any
			err := json.Unmarshal([]byte(*p.Default), &dv)
			if err != nil && p.T.Kind == gen.KString {
				// the default of a string property may be written bare (without the JSON quotes)
				err = json.Unmarshal([]byte("\""+*p.Default+"\""), &dv)
			}
			if err != nil {
				return unsp("default of %s is not JSON", p.Name)
			}
			val, has, fromDefault = dv, true, true
		}
		if !has {
			if s.Struct != "" && structValueSubObject(p, env) && materialises(s.Struct, p, env, 0) {
				// struct-mapped parent: an absent by-value sub-object is materialised from its own defaults;
				// whether that counts as "set" is not stated
				verdict, why = Unspec, "absent by-value sub-object of a struct-mapped parent"
			}
			continue
		}
		if p.Disabled {
			if fromDefault {
				verdict, why = Unspec, "disabled property present only through its default"
				continue
			}
			return rej("disabled property %s in use", p.Name)
		}
		set[p.Name] = true
		r := denote(p.T, val, env, depth+1, nil)
		if r.V == Reject {
			return rej("%s: %s", p.Name, r.Why)
		}
		if r.V == Unspec {
			verdict, why = Unspec, p.Name+": "+r.Why
			continue
		}
		out[p.Name] = r.Val
		if iv, isInt := r.Val.(int64); isInt && s.Struct != "" {
			// the native form is a Go struct: an integer outside the range of the field it is mapped to has no
			// native form, so no correct implementation can accept it
			if why := outsideField(s.Struct, p.Name, iv); why != "" {
				return rej("%s: %s", p.Name, why)
			}
		}
	}
	if w := PresenceViolation(s, set); w != "" {
		if verdict == Unspec {
			return unsp("%s", why)
		}
		return rej("%s", w)
	}
	if verdict == Unspec {
		return unsp("%s", why)
	}
	return acc(out)
}

func structValueSubObject(p *gen.Prop, env *gen.Env) bool {
	t := p.T
	switch t.Kind {
	case gen.KObject:
		return true
	case gen.KRef:
		return true
	}
	return false
}

func denoteOneOf(s *gen.Shape, raw any, env *gen.Env, depth int) Result {
	if raw == nil {
		return rej("nil is not a one-of value")
	}
	v := reflect.ValueOf(raw)
	if v.Kind() != reflect.Map {
		return rej("%T is not a mapping", raw)
	}
	m := map[string]any{}
	it := v.MapRange()
	for it.Next() {
		k, ok := it.Key().Interface().(string)
		if !ok {
			if it.Key().Kind() == reflect.String || (it.Key().Kind() == reflect.Interface && it.Key().Elem().Kind() == reflect.String) {
				return unsp("key of a named string type")
			}
			return rej("non-string key %v", it.Key().Interface())
		}
		m[k] = it.Value().Interface()
	}
	d, has := m[s.Disc]
	if !has {
		return rej("discriminator %q missing", s.Disc)
	}
	var mem *gen.Member
	var typed any
	if s.Kind == gen.KOneOfInt {
		r := denoteIntScalar(d, "")
		if r.V != Accept {
			if r.V == Reject {
				return rej("discriminator: %s", r.Why)
			}
			return r
		}
		typed = r.Val
		for _, mm := range s.Members {
			if mm.KeyI == r.Val.(int64) {
				mem = mm
			}
		}
	} else {
		r := stringScalar(d)
		if r.V != Accept {
			if r.V == Reject {
				return rej("discriminator: %s", r.Why)
			}
			return r
		}
		typed = r.Val
		for _, mm := range s.Members {
			if mm.KeyS == r.Val.(string) {
				mem = mm
			}
		}
	}
	if mem == nil {
		return rej("no member for discriminator %v", typed)
	}
	inner := map[string]any{}
	for k, val := range m {
		if k == s.Disc && !s.Inlined {
			continue
		}
		inner[k] = val
	}
	r := denote(mem.T, inner, env, depth+1, nil)
	if r.V != Accept {
		return r
	}
	out, ok := r.Val.(map[string]any)
	if !ok {
		return unsp("member is not an object")
	}
	if memberIsMapBased(mem.T, env) || s.Inlined {
		out[s.Disc] = typed
	}
	return acc(out)
}

func memberIsMapBased(t *gen.Shape, env *gen.Env) bool {
	for i := 0; i < 8 && t != nil; i++ {
		switch t.Kind {
		case gen.KObject:
			return t.Struct == ""
		case gen.KRef:
			t, env = env.Resolve(t)
		case gen.KScope:
			var root *gen.Shape
			for _, o := range t.Objects {
				if o.ID == t.Root {
					root = o
				}
			}
			env = env.Push(t)
			t = root
		default:
			return true
		}
	}
	return true
}

// outsideField reports why the integer cannot be held by the field of the pool struct that the property is mapped to.
func outsideField(structName, prop string, v int64) string {
	z := gen.ZeroStruct(structName)
	if z == nil {
		return ""
	}
	t := reflect.TypeOf(z)
	for t.Kind() == reflect.Pointer {
		t = t.Elem()
	}
	if t.Kind() != reflect.Struct {
		return ""
	}
	f, ok := fieldFor(t, prop)
	if !ok {
		return ""
	}
	ft := f.Type
	for ft.Kind() == reflect.Pointer {
		ft = ft.Elem()
	}
	zero := reflect.Zero(ft)
	switch ft.Kind() {
	case reflect.Int, reflect.Int8, reflect.Int16, reflect.Int32, reflect.Int64:
		if zero.OverflowInt(v) {
			return fmt.Sprintf("%d does not fit the Go field of type %s", v, ft)
		}
	case reflect.Uint, reflect.Uint8, reflect.Uint16, reflect.Uint32, reflect.Uint64:
		if v < 0 || zero.OverflowUint(uint64(v)) {
			return fmt.Sprintf("%d does not fit the Go field of type %s", v, ft)
		}
	}
	return ""
}

// materialises: does a struct-mapped parent fill in this sub-object when the input leaves it out? It does when the
// Go field holds the sub-object by value and the sub-object (or a by-value sub-object of it) declares a default;
// without any default, and through pointer fields, an absent sub-object simply stays absent.
func materialises(structName string, p *gen.Prop, env *gen.Env, depth int) bool {
	if depth > 6 {
		return true // (not decided here: stay on the cautious side)
	}
	z := gen.ZeroStruct(structName)
	if z == nil {
		return true
	}
	t := reflect.TypeOf(z)
	for t.Kind() == reflect.Pointer {
		t = t.Elem()
	}
	if t.Kind() != reflect.Struct {
		return true
	}
	f, ok := fieldFor(t, p.Name)
	if !ok {
		return true
	}
	if f.Type.Kind() != reflect.Struct {
		return false // a pointer (or a map): nothing is filled in
	}
	if p.Default != nil {
		return true
	}
	sub, subEnv := objectOf(p.T, env)
	if sub == nil {
		return true
	}
	for _, sp := range sub.Props {
		if sp.Default != nil {
			return true
		}
		if sub.Struct != "" && structValueSubObject(sp, subEnv) && materialises(sub.Struct, sp, subEnv, depth+1) {
			return true
		}
	}
	return false
}
