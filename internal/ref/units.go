// Package ref is the reference interpreter: an independent statement, over
// shape descriptors, of what the property texts say schemas accept and denote.
// It shares no code with the SDK and never looks at the SDK's structs.
package ref

import (
	"math"
	"math/big"
	"strings"
)

// Unit is one scale of a units definition.
type Unit struct {
	Mult  int64
	Names [4]string // short singular, short plural, long singular, long plural
}

// Units is a units definition: a base unit and multipliers in descending order.
type Units struct {
	Label string
	Base  Unit
	Mults []Unit
}

type ParseClass int

const (
	Ill ParseClass = iota
	Well
	UnspecParse
)

// Parse classifies data and, when it is a sequence of counts with declared unit names, returns the exact
// value. well-formed: optional spaces; one or more components "<digits> <name>" in strictly descending
// multiplier order; only the base component may carry a fraction. unspecified (the statement does not
// say): base name omitted, a unit repeated, fraction on a non-base component, counts with leading zeros.
func (u *Units) Parse(data string) (ParseClass, *big.Rat) {
	s := strings.TrimSpace(data)
	if s == "" {
		return Ill, nil
	}
	total := new(big.Rat)
	lastMult := int64(math.MaxInt64)
	unspec := false
	i, n, comps := 0, len(s), 0
	for i < n {
		j := i
		for j < n && s[j] >= '0' && s[j] <= '9' {
			j++
		}
		if j == i {
			return Ill, nil
		}
		intPart := s[i:j]
		frac := ""
		if j+1 < n && s[j] == '.' && s[j+1] >= '0' && s[j+1] <= '9' {
			k := j + 1
			for k < n && s[k] >= '0' && s[k] <= '9' {
				k++
			}
			frac = s[j+1 : k]
			j = k
		}
		if len(intPart) > 1 && intPart[0] == '0' {
			unspec = true
		}
		k := j
		for k < n && !(s[k] >= '0' && s[k] <= '9') {
			k++
		}
		name := strings.TrimSpace(s[j:k])
		i = k
		var unit *Unit
		if name == "" {
			unit = &u.Base
			unspec = true
		} else {
			cands := 0
			all := append([]Unit{u.Base}, u.Mults...)
			for idx := range all {
				for _, nm := range all[idx].Names {
					if nm == name {
						unit = &all[idx]
						cands++
						break
					}
				}
			}
			if cands == 0 {
				return Ill, nil
			}
			if cands > 1 {
				unspec = true
			}
		}
		if unit.Mult > lastMult {
			return Ill, nil
		}
		if unit.Mult == lastMult {
			unspec = true
		}
		lastMult = unit.Mult
		if frac != "" && unit.Mult != 1 {
			unspec = true
		}
		cnt, _ := new(big.Int).SetString(intPart, 10)
		v := new(big.Rat).SetInt(new(big.Int).Mul(cnt, big.NewInt(unit.Mult)))
		if frac != "" {
			fn, _ := new(big.Int).SetString(frac, 10)
			den := new(big.Int).Exp(big.NewInt(10), big.NewInt(int64(len(frac))), nil)
			fr := new(big.Rat).SetFrac(fn, den)
			fr.Mul(fr, new(big.Rat).SetInt64(unit.Mult))
			v.Add(v, fr)
		}
		total.Add(total, v)
		comps++
	}
	if comps == 0 {
		return Ill, nil
	}
	if unspec {
		return UnspecParse, total
	}
	return Well, total
}

// Builtin returns the documented tables of the five built-in unit sets (transcribed, not read from the SDK).
func Builtin(label string) *Units {
	switch label {
	case "bytes":
		return &Units{Label: label, Base: Unit{1, [4]string{"B", "B", "byte", "bytes"}}, Mults: []Unit{
			{1125899906842624, [4]string{"PB", "PB", "petabyte", "petabytes"}},
			{1099511627776, [4]string{"TB", "TB", "terabyte", "terabytes"}},
			{1073741824, [4]string{"GB", "GB", "gigabyte", "gigabytes"}},
			{1048576, [4]string{"MB", "MB", "megabyte", "megabytes"}},
			{1024, [4]string{"kB", "kB", "kilobyte", "kilobytes"}}}}
	case "ns":
		return &Units{Label: label, Base: Unit{1, [4]string{"ns", "ns", "nanosecond", "nanoseconds"}}, Mults: []Unit{
			{86400000000000, [4]string{"d", "d", "day", "days"}},
			{3600000000000, [4]string{"H", "H", "hour", "hours"}},
			{60000000000, [4]string{"m", "m", "minute", "minutes"}},
			{1000000000, [4]string{"s", "s", "second", "seconds"}},
			{1000000, [4]string{"ms", "ms", "milliseconds", "milliseconds"}},
			{1000, [4]string{"μs", "μs", "microsecond", "microseconds"}}}}
	case "s":
		return &Units{Label: label, Base: Unit{1, [4]string{"s", "s", "second", "seconds"}}, Mults: []Unit{
			{86400, [4]string{"d", "d", "day", "days"}},
			{3600, [4]string{"H", "H", "hour", "hours"}},
			{60, [4]string{"m", "m", "minute", "minutes"}}}}
	case "dbytes":
		return &Units{Label: label, Base: Unit{1, [4]string{"B", "B", "byte", "bytes"}}, Mults: []Unit{
			{1000000000000000, [4]string{"PB", "PB", "petabyte", "petabytes"}},
			{1000000000000, [4]string{"TB", "TB", "terabyte", "terabytes"}},
			{1000000000, [4]string{"GB", "GB", "gigabyte", "gigabytes"}},
			{1000000, [4]string{"MB", "MB", "megabyte", "megabytes"}},
			{1000, [4]string{"kB", "kB", "kilobyte", "kilobytes"}}}}
	case "dsec":
		return &Units{Label: label, Base: Unit{1, [4]string{"s", "s", "second", "seconds"}}, Mults: []Unit{
			{1000000, [4]string{"d", "d", "day", "days"}},
			{10000, [4]string{"H", "H", "hour", "hours"}},
			{100, [4]string{"m", "m", "minute", "minutes"}}}}
	case "chars":
		return &Units{Label: label, Base: Unit{1, [4]string{"char", "chars", "character", "characters"}}}
	case "pct":
		return &Units{Label: label, Base: Unit{1, [4]string{"%", "%", "percent", "percent"}}}
	}
	return nil
}
