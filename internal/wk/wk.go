// Package wk is the worker-side kit: deterministic PRNG, case journal, event log.
//
// A worker process handles the cases idx with idx % nshards == shard of one
// property. Before every case it overwrites a fixed-size journal record
// ("B <idx> <key>"), so that a fatal crash (stack overflow, panic in a
// background goroutine, checkptr) can be attributed by the driver to the case
// that was open. Everything else goes to a JSONL event file.
package wk

import (
	"encoding/json"
	"flag"
	"fmt"
	"hash/fnv"
	"os"
	"runtime"
	"sort"
	"strings"
	"sync"
)

// Rand is a splitmix64 PRNG; a case is a pure function of (seed, prop, idx).
type Rand struct{ s uint64 }

func NewRand(seed uint64, prop string, idx int64) *Rand {
	h := fnv.New64a()
	_, _ = h.Write([]byte(prop))
	r := &Rand{s: seed*0x9E3779B97F4A7C15 ^ h.Sum64() ^ (uint64(idx)+1)*0xBF58476D1CE4E5B9}
	r.U64()
	r.U64()
	return r
}

func (r *Rand) U64() uint64 {
	r.s += 0x9E3779B97F4A7C15
	z := r.s
	z = (z ^ (z >> 30)) * 0xBF58476D1CE4E5B9
	z = (z ^ (z >> 27)) * 0x94D049BB133111EB
	return z ^ (z >> 31)
}

// Intn returns a value in [0,n).
func (r *Rand) Intn(n int) int {
	if n <= 0 {
		return 0
	}
	return int(r.U64() % uint64(n))
}

func (r *Rand) I64n(n int64) int64 {
	if n <= 0 {
		return 0
	}
	return int64(r.U64() % uint64(n))
}

func (r *Rand) Bool() bool        { return r.U64()&1 == 1 }
func (r *Rand) Chance(p int) bool { return r.Intn(100) < p } // p in percent
func (r *Rand) F64() float64      { return float64(r.U64()>>11) / float64(1<<53) }

func Pick[T any](r *Rand, xs []T) T { return xs[r.Intn(len(xs))] }

// Ctx is the per-process worker context.
type Ctx struct {
	Prop    string
	Seed    uint64
	Shard   int
	NShards int
	Tier    string
	Only    int64
	Resume  int64
	Variant string
	// ReplayFile, when set, is the replay witness written by the driver for the case in Only.
	ReplayFile string
	// OutPrefix is the path prefix of this worker's output files (<prefix>.jsonl, <prefix>.race.*).
	OutPrefix string

	mu       sync.Mutex
	out      *os.File
	journal  *os.File
	hashes   *os.File
	hbuf     []byte
	seen     map[uint64]struct{}
	evals    int64
	counts   map[string]int64
	samples  []any
	maxSamp  int
	nviol    map[string]int
	curIdx   int64
	begun    int64
	curKey   string
	inconcl  int64
	sampleAt map[string]int
}

func FromFlags() *Ctx {
	c := &Ctx{counts: map[string]int64{}, seen: map[uint64]struct{}{}, nviol: map[string]int{}, maxSamp: 6, sampleAt: map[string]int{}}
	var out string
	flag.StringVar(&c.Prop, "prop", "", "property id")
	flag.Uint64Var(&c.Seed, "seed", 1, "seed")
	flag.IntVar(&c.Shard, "shard", 0, "shard")
	flag.IntVar(&c.NShards, "nshards", 1, "number of shards")
	flag.StringVar(&c.Tier, "tier", "quick", "tier")
	flag.Int64Var(&c.Only, "only", -1, "run only this case index")
	flag.Int64Var(&c.Resume, "resume", 0, "skip case indices below this")
	flag.StringVar(&c.Variant, "variant", "plain", "build variant (plain|race|overlay)")
	flag.StringVar(&out, "out", "", "output prefix")
	flag.StringVar(&c.ReplayFile, "replayfile", "", "replay witness (with -only)")
	flag.Parse()
	if out == "" {
		fmt.Fprintln(os.Stderr, "worker: -out required")
		os.Exit(3)
	}
	c.OutPrefix = out
	var err error
	if c.out, err = os.OpenFile(out+".jsonl", os.O_CREATE|os.O_WRONLY|os.O_APPEND, 0o644); err != nil {
		panic(err)
	}
	if c.journal, err = os.OpenFile(out+".journal", os.O_CREATE|os.O_WRONLY, 0o644); err != nil {
		panic(err)
	}
	if c.hashes, err = os.OpenFile(out+".hashes", os.O_CREATE|os.O_WRONLY|os.O_APPEND, 0o644); err != nil {
		panic(err)
	}
	return c
}

func (c *Ctx) Quick() bool { return c.Tier != "thorough" }

// N picks a size by tier.
func (c *Ctx) N(quick, thorough int64) int64 {
	if c.Quick() {
		return quick
	}
	return thorough
}

func (c *Ctx) emit(v map[string]any) {
	b, _ := json.Marshal(v)
	b = append(b, '\n')
	_, _ = c.out.Write(b)
}

// Begin journals the start of case idx.
func (c *Ctx) Begin(idx int64, key string) {
	c.mu.Lock()
	c.curIdx, c.curKey = idx, key
	c.begun++
	progress := c.begun%64 == 0
	var ev int64
	var counts map[string]int64
	if progress {
		// what this process has counted so far, so that the parent can credit it if the process dies later
		ev = c.evals
		counts = make(map[string]int64, len(c.counts))
		for k, v := range c.counts {
			counts[k] = v
		}
	}
	c.mu.Unlock()
	if progress {
		c.emit(map[string]any{"t": "progress", "evals": ev, "counts": counts})
	}
	c.journalWrite(fmt.Sprintf("B %d %s", idx, key))
}

// Note refines the journal record of the open case (e.g. with the operation
// about to be called) without changing the index.
func (c *Ctx) Note(key string) {
	c.mu.Lock()
	c.curKey = key
	idx := c.curIdx
	c.mu.Unlock()
	c.journalWrite(fmt.Sprintf("B %d %s", idx, key))
}

func (c *Ctx) journalWrite(s string) {
	const rec = 512
	if len(s) > rec-1 {
		s = s[:rec-1]
	}
	buf := make([]byte, rec)
	for i := range buf {
		buf[i] = ' '
	}
	copy(buf, s)
	buf[rec-1] = '\n'
	_, _ = c.journal.WriteAt(buf, 0)
}

// Eval counts one evaluated case; hash identifies it for distinctness and is
// only recorded when the case is non-trivial by the property's rule.
func (c *Ctx) Eval(hash uint64, nontrivial bool) {
	c.mu.Lock()
	defer c.mu.Unlock()
	c.evals++
	if !nontrivial {
		return
	}
	if _, ok := c.seen[hash]; ok {
		return
	}
	c.seen[hash] = struct{}{}
	c.hbuf = append(c.hbuf, byte(hash), byte(hash>>8), byte(hash>>16), byte(hash>>24), byte(hash>>32), byte(hash>>40), byte(hash>>48), byte(hash>>56))
	if len(c.hbuf) >= 1<<16 {
		_, _ = c.hashes.Write(c.hbuf)
		c.hbuf = c.hbuf[:0]
	}
}

func (c *Ctx) Count(k string) { c.CountN(k, 1) }
func (c *Ctx) CountN(k string, n int64) {
	c.mu.Lock()
	c.counts[k] += n
	c.mu.Unlock()
}

func (c *Ctx) Inconclusive(what string) {
	c.mu.Lock()
	c.inconcl++
	idx := c.curIdx
	c.mu.Unlock()
	c.emit(map[string]any{"t": "inconclusive", "idx": idx, "what": what})
}

// Sample records an actual case for the evidence file (a few per class).
func (c *Ctx) Sample(class string, v any) {
	c.mu.Lock()
	defer c.mu.Unlock()
	if c.sampleAt[class] >= 2 || len(c.samples) >= 24 {
		return
	}
	c.sampleAt[class]++
	c.samples = append(c.samples, map[string]any{"class": class, "case": v})
}

// Violation reports a refuting observation. key classifies it (stable across
// runs: violation kind + SDK site / shape class), what is human-readable.
func (c *Ctx) Violation(key, what string, witness any) {
	c.mu.Lock()
	c.nviol[key]++
	n := c.nviol[key]
	idx := c.curIdx
	c.mu.Unlock()
	if n > 3 { // keep the log small; the count is reported at the end
		return
	}
	c.emit(map[string]any{"t": "viol", "key": key, "what": what, "idx": idx, "shard": c.Shard, "witness": witness})
}

// Meta sets descriptive fields (rule, level, floors) once per worker.
func (c *Ctx) Meta(k string, v any) { c.emit(map[string]any{"t": "meta", "k": k, "v": v}) }

// Floor declares a coverage floor checked by the driver on the merged counters.
func (c *Ctx) Floor(counter string, min int64) {
	c.emit(map[string]any{"t": "floor", "k": counter, "min": min})
}

func (c *Ctx) Finish() {
	c.mu.Lock()
	if len(c.hbuf) > 0 {
		_, _ = c.hashes.Write(c.hbuf)
		c.hbuf = nil
	}
	keys := make([]string, 0, len(c.counts))
	for k := range c.counts {
		keys = append(keys, k)
	}
	sort.Strings(keys)
	counts := map[string]int64{}
	for _, k := range keys {
		counts[k] = c.counts[k]
	}
	ev, samples, nv, inc := c.evals, c.samples, c.nviol, c.inconcl
	c.mu.Unlock()
	c.emit(map[string]any{"t": "end", "evals": ev, "counts": counts, "samples": samples, "nviol": nv, "inconclusive": inc})
	c.journalWrite("E")
	_ = c.out.Close()
	_ = c.hashes.Close()
	_ = c.journal.Close()
}

// ReplayWitness returns the witness object of the replay file, if any.
func (c *Ctx) ReplayWitness() map[string]any {
	if c.ReplayFile == "" {
		return nil
	}
	b, err := os.ReadFile(c.ReplayFile)
	if err != nil {
		return nil
	}
	var v struct {
		Witness map[string]any `json:"witness"`
	}
	if json.Unmarshal(b, &v) != nil {
		return nil
	}
	return v.Witness
}

// Mine reports whether case idx belongs to this worker invocation.
func (c *Ctx) Mine(idx int64) bool {
	if c.Only >= 0 {
		return idx == c.Only
	}
	if idx < c.Resume {
		return false
	}
	return int(idx%int64(c.NShards)) == c.Shard
}

// Cases runs f for each of this worker's case indices in [0,n). Ordinary panics
// escaping f are harness bugs unless f uses Guard; they are reported as such.
func (c *Ctx) Cases(n int64, f func(idx int64, r *Rand)) {
	for idx := int64(0); idx < n; idx++ {
		if !c.Mine(idx) {
			continue
		}
		c.Begin(idx, "")
		func() {
			defer func() {
				if p := recover(); p != nil {
					site, stack := PanicSite()
					c.Violation("harness-panic:"+site, fmt.Sprintf("unguarded panic in case %d: %v", idx, p), map[string]any{"stack": stack})
				}
			}()
			f(idx, NewRand(c.Seed, c.Prop, idx))
		}()
	}
}

// Guard runs f, converting a panic into (site, message, stack). site is the
// innermost SDK function on the panicking stack (function name only, so that
// it is stable under line shifts).
func Guard(f func()) (panicked bool, site, msg, stack string) {
	defer func() {
		if p := recover(); p != nil {
			panicked = true
			site, stack = PanicSite()
			msg = fmt.Sprint(p)
			if len(msg) > 300 {
				msg = msg[:300]
			}
		}
	}()
	f()
	return
}

const sdkPrefix = "go.flow.arcalot.io/pluginsdk/"

// PanicSite must be called from a deferred function during panicking.
func PanicSite() (site, stack string) {
	pcs := make([]uintptr, 64)
	n := runtime.Callers(2, pcs)
	frames := runtime.CallersFrames(pcs[:n])
	var sb strings.Builder
	for {
		fr, more := frames.Next()
		fmt.Fprintf(&sb, "%s\n\t%s:%d\n", fr.Function, fr.File, fr.Line)
		if site == "" && strings.HasPrefix(fr.Function, sdkPrefix) {
			site = strings.TrimPrefix(fr.Function, sdkPrefix)
			// strip generic instantiation noise
			if i := strings.Index(site, "["); i >= 0 {
				if j := strings.LastIndex(site, "]"); j > i {
					site = site[:i] + site[j+1:]
				}
			}
		}
		if !more {
			break
		}
	}
	if site == "" {
		site = "non-sdk"
	}
	return site, sb.String()
}

// Hash64 hashes strings for distinctness accounting.
func Hash64(parts ...string) uint64 {
	h := fnv.New64a()
	for _, p := range parts {
		_, _ = h.Write([]byte(p))
		_, _ = h.Write([]byte{0})
	}
	return h.Sum64()
}
