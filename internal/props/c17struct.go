package props

import (
	"errors"
	"fmt"
	"reflect"
	"strings"

	"go.flow.arcalot.io/pluginsdk/schema"

	"verif/internal/cmpx"
	"verif/internal/gen"
	"verif/internal/ref"
	"verif/internal/wk"
)

// Struct-mapped values: the injector walks the Go value (structs, pointers, slices, maps, interfaces) beside
// the shape, breaks ONE scalar leaf so that exactly one declared constraint is violated, and knows the path in
// terms of property IDs (not Go field names), list indices and map keys.

type c17NativeSite struct {
	path  []string
	what  string
	apply func()
	// becomesAbsent (set for sites below a treat-empty-as-default property): after apply, has the corruption turned
	// the field into its zero value? Then the property is absent, which is another kind of change (a presence rule of
	// a sibling may fire) and not the corruption of one element.
	becomesAbsent func() bool
}

func c17FieldFor(t reflect.Type, prop string) (reflect.StructField, bool) {
	for i := 0; i < t.NumField(); i++ {
		f := t.Field(i)
		if tag := f.Tag.Get("json"); tag != "" && strings.SplitN(tag, ",", 2)[0] == prop {
			return f, true
		}
	}
	return t.FieldByName(prop)
}

// c17NativeSites: v must be addressable (or reachable through a pointer / settable container).
func c17NativeSites(r *wk.Rand, s *gen.Shape, v reflect.Value, env *gen.Env, path []string, depth int) []c17NativeSite {
	if depth > 12 || !v.IsValid() {
		return nil
	}
	cp := func(p []string, more ...string) []string { return append(append([]string{}, p...), more...) }
	switch s.Kind {
	case gen.KRef, gen.KScope:
		o, oenv := derefObj(s, env)
		if o == nil {
			return nil
		}
		return c17NativeSites(r, o, v, oenv, path, depth+1)
	}
	// through an interface: work on an addressable copy of what it holds, store it back afterwards
	if v.Kind() == reflect.Interface {
		if v.IsNil() || !v.CanSet() {
			return nil
		}
		nv := reflect.New(v.Elem().Type()).Elem()
		nv.Set(v.Elem())
		var out []c17NativeSite
		for _, st := range c17NativeSites(r, s, nv, env, path, depth+1) {
			inner := st.apply
			st.apply = func() { inner(); v.Set(nv) }
			out = append(out, st)
		}
		return out
	}
	if v.Kind() == reflect.Pointer {
		if v.IsNil() {
			return nil
		}
		if _, isRe := v.Interface().(interface{ MatchString(string) bool }); isRe {
			return nil
		}
		return c17NativeSites(r, s, v.Elem(), env, path, depth+1)
	}
	switch s.Kind {
	case gen.KInt, gen.KFloat, gen.KString, gen.KIntEnum, gen.KStrEnum, gen.KTypedStrEnum:
		if !v.CanSet() {
			return nil
		}
		switch v.Kind() {
		case reflect.Int64, reflect.Float64, reflect.String:
		default:
			return nil // narrow / unsigned fields cannot hold every out-of-range value
		}
		bv, what, ok := breakNative(r, s, v, env, depth)
		if !ok || !bv.Type().AssignableTo(v.Type()) {
			return nil
		}
		return []c17NativeSite{{path: cp(path), what: what, apply: func() { v.Set(bv) }}}
	case gen.KList:
		if v.Kind() != reflect.Slice {
			return nil
		}
		var out []c17NativeSite
		for i := 0; i < v.Len() && i < 3; i++ {
			out = append(out, c17NativeSites(r, s.Items, v.Index(i), env, cp(path, fmt.Sprint(i)), depth+1)...)
		}
		return out
	case gen.KMap:
		if v.Kind() != reflect.Map {
			return nil
		}
		var out []c17NativeSite
		keys := v.MapKeys()
		for i, k := range keys {
			if i >= 2 {
				break
			}
			k := k
			nv := reflect.New(v.Type().Elem()).Elem()
			nv.Set(v.MapIndex(k))
			for _, st := range c17NativeSites(r, s.Vals, nv, env, cp(path, fmt.Sprint(k.Interface())), depth+1) {
				inner := st.apply
				st.apply = func() { inner(); v.SetMapIndex(k, nv) }
				out = append(out, st)
			}
		}
		return out
	case gen.KObject:
		if v.Kind() == reflect.Map {
			if v.Type().Key().Kind() != reflect.String {
				return nil
			}
			var out []c17NativeSite
			for _, p := range s.Props {
				p := p
				k := reflect.ValueOf(p.Name).Convert(v.Type().Key())
				cur := v.MapIndex(k)
				if !cur.IsValid() {
					continue
				}
				nv := reflect.New(v.Type().Elem()).Elem()
				nv.Set(cur)
				for _, st := range c17NativeSites(r, p.T, nv, env, cp(path, p.Name), depth+1) {
					inner := st.apply
					st.apply = func() { inner(); v.SetMapIndex(k, nv) }
					out = append(out, st)
				}
			}
			return out
		}
		if v.Kind() != reflect.Struct {
			return nil
		}
		var out []c17NativeSite
		for _, p := range s.Props {
			f, ok := c17FieldFor(v.Type(), p.Name)
			if !ok {
				continue
			}
			fv := v.FieldByIndex(f.Index)
			if p.EmptyDef && fv.IsZero() {
				continue
			}
			sub := c17NativeSites(r, p.T, fv, env, cp(path, p.Name), depth+1)
			if p.EmptyDef {
				field := fv
				for i := range sub {
					if sub[i].becomesAbsent == nil {
						sub[i].becomesAbsent = func() bool { return field.IsZero() }
					}
				}
			}
			out = append(out, sub...)
		}
		return out
	case gen.KOneOfStr, gen.KOneOfInt:
		// the member is found from the value itself: a struct by its Go type, a map by its discriminator
		for _, m := range s.Members {
			o, oenv := derefObj(m.T, env)
			if o == nil {
				continue
			}
			if v.Kind() == reflect.Struct && o.Struct != "" && strings.TrimPrefix(o.Struct, "*") == v.Type().Name() {
				return c17NativeSites(r, o, v, oenv, path, depth+1)
			}
		}
	}
	return nil
}

// c17StructCase: Validate of a struct-mapped value with exactly one broken leaf must name that leaf by property IDs.
func c17StructCase(c *wk.Ctx, r *wk.Rand, idx int64) {
	cfg := gen.Full()
	cfg.TypedEnum, cfg.Disabled, cfg.WeirdBounds, cfg.NoPatternProps, cfg.GoodDefaults = false, false, false, true, true
	var shape *gen.Shape
	if r.Bool() {
		shape = gen.GenObjectStandalone(r, cfg)
	} else {
		shape = gen.GenScope(r, cfg)
	}
	structMapped := false
	shape.Walk(func(s *gen.Shape) {
		if s.Kind == gen.KObject && s.Struct != "" {
			structMapped = true
		}
	})
	if !structMapped {
		return
	}
	t, ok, _ := buildGuarded(shape)
	if !ok {
		return
	}
	env := &gen.Env{}
	descr := shape.Describe()
	raw, ok := gen.ValidRaw(r, shape, env, 0)
	if !ok || ref.Denote(shape, raw, env).V != ref.Accept {
		return
	}
	var native any
	var err error
	if p, _, _, _ := wk.Guard(func() { native, err = t.Unserialize(gen.CopyRaw(raw)) }); p || err != nil {
		return
	}
	if p, _, _, _ := wk.Guard(func() { err = t.Validate(native) }); p || err != nil {
		return // C01's business
	}
	fresh := func() reflect.Value {
		cpy := cmpx.DeepCopy(native)
		rv := reflect.New(reflect.TypeOf(cpy)).Elem()
		rv.Set(reflect.ValueOf(cpy))
		return rv
	}
	nsites := len(c17NativeSites(wk.NewRand(c.Seed, "C17-native-sites", idx), shape, fresh(), env, nil, 0))
	for si := 0; si < nsites; si++ {
		root := fresh()
		sites := c17NativeSites(wk.NewRand(c.Seed, "C17-native-sites", idx), shape, root, env, nil, 0)
		if si >= len(sites) {
			break
		}
		site := sites[si]
		site.apply()
		if site.becomesAbsent != nil && site.becomesAbsent() {
			c.Count("skipped:corruption-empties-a-treat-empty-as-default-field")
			continue
		}
		broken := root.Interface()
		if ref.Check(shape, ref.Normalize(shape, broken, env), env) == "" {
			c.Count("skipped:not-must-reject")
			continue
		}
		var verr error
		c.Note("Validate struct-mapped value with one broken leaf")
		wit := map[string]any{"schema": clipStr(descr, 1200), "native": clipStr(cmpx.Canon(broken), 700), "corruption": site.what, "injected_at": site.path, "operation": "Validate"}
		if p, s2, msg, _ := wk.Guard(func() { verr = t.Validate(broken) }); p {
			c.Violation("C17:panic:Validate:"+s2, "Validate panicked: "+msg, wit)
			continue
		}
		c.Count("injections")
		c.Count("op:Validate")
		c.Count("matrix:struct-native-leaf")
		c.Eval(wk.Hash64(descr, strings.Join(site.path, "/"), site.what, "Validate-struct"), len(site.path) >= 1)
		if verr == nil {
			c.Count("validate-accepted-corrupted")
			continue
		}
		wit["error"] = verr.Error()
		var ce *schema.ConstraintError
		if !errors.As(verr, &ce) {
			c.Violation("C17:not-a-constraint-error:Validate:struct-native", fmt.Sprintf("Validate rejected the struct-mapped value (%s at %v) with an error that is not a ConstraintError: %v", site.what, site.path, verr), wit)
			continue
		}
		got := normPath(ce.Path)
		wit["path"] = ce.Path
		if strings.Join(got, "\x00") != strings.Join(site.path, "\x00") {
			c.Violation("C17:wrong-path:Validate:struct-native", fmt.Sprintf("Validate: %s injected at %v (property IDs), but the error path is %v: %v", site.what, site.path, ce.Path, verr), wit)
		}
	}
}

// c17StructMissing: Unserialize into struct-mapped objects whose sub-objects sit in by-value fields. A required
// sub-object that the input leaves out is reported at the sub-object's own property - not at a property inside a
// sub-object that the input does not contain - at the top level, below a list and below a map.
// c17NarrowFields: a number the schema allows but the Go field it is mapped to cannot hold is refused at that
// property, wherever the struct-mapped object sits.
func c17NarrowFields(c *wk.Ctx) {
	wide := func() *gen.Shape { return &gen.Shape{Kind: gen.KInt} }
	limits := &gen.Shape{Kind: gen.KObject, ID: "Limits", Struct: "P13", Props: []*gen.Prop{
		{Name: "port", T: wide()}, {Name: "retries", T: wide()}, {Name: "limit", T: wide()}, {Name: "small", T: wide()}}}
	job := &gen.Shape{Kind: gen.KObject, ID: "Job", Props: []*gen.Prop{{Name: "name", T: &gen.Shape{Kind: gen.KString}}, {Name: "limits", T: &gen.Shape{Kind: gen.KRef, RefID: "Limits"}}}}
	root := &gen.Shape{Kind: gen.KObject, ID: "Root", Props: []*gen.Prop{
		{Name: "one", T: &gen.Shape{Kind: gen.KRef, RefID: "Limits"}},
		{Name: "jobs", T: &gen.Shape{Kind: gen.KList, Items: &gen.Shape{Kind: gen.KRef, RefID: "Job"}}}}}
	shape := &gen.Shape{Kind: gen.KScope, Root: "Root", Objects: []*gen.Shape{root, job, limits}}
	t, ok, _ := buildGuarded(shape)
	if !ok {
		c.Violation("C17:directed-shape-not-built", "the hand-written struct-mapped scope could not be built", map[string]any{"schema": shape.Describe()})
		return
	}
	env := &gen.Env{}
	descr := shape.Describe()
	good := func() map[string]any {
		return map[string]any{"port": int64(8080), "retries": int64(3), "limit": int64(10), "small": int64(-5)}
	}
	for _, bad := range []struct {
		prop string
		v    any
	}{{"small", int64(128)}, {"small", int64(-129)}, {"port", int64(65536)}, {"port", int64(-1)}, {"retries", int64(-1)}, {"limit", int64(-7)}, {"small", uint64(300)}} {
		for _, where := range []string{"top", "list"} {
			l := good()
			l[bad.prop] = bad.v
			var raw map[string]any
			var path []string
			if where == "top" {
				raw, path = map[string]any{"one": l}, []string{"one", bad.prop}
			} else {
				raw = map[string]any{"jobs": []any{map[string]any{"name": "a", "limits": good()}, map[string]any{"name": "b", "limits": l}}}
				path = []string{"jobs", "1", "limits", bad.prop}
			}
			if ref.Denote(shape, raw, env).V != ref.Reject {
				c.Count("skipped:not-must-reject")
				continue
			}
			site := c17Site{path: path, chain: []string{"struct", "narrow-field"}, kind: "does-not-fit-the-go-field"}
			c17Judge(c, t, descr, raw, site, "Unserialize", func() error { _, err := t.Unserialize(gen.CopyRaw(raw)); return err })
			c.Count("struct_unserialize_injections")
		}
	}
}

func c17StructMissing(c *wk.Ctx) {
	str := func() *gen.Shape { return &gen.Shape{Kind: gen.KString} }
	intT := func() *gen.Shape { return &gen.Shape{Kind: gen.KInt} }
	leafProps := func(reqA bool) []*gen.Prop {
		return []*gen.Prop{{Name: "a", T: intT(), Required: reqA}, {Name: "b", T: str()}, {Name: "c", T: &gen.Shape{Kind: gen.KFloat}}, {Name: "d", T: &gen.Shape{Kind: gen.KBool}}}
	}
	for vi, reqA := range []bool{true, false} {
		for wi, viaRef := range []bool{false, true} {
			var innerT, pinnerT *gen.Shape
			objs := []*gen.Shape{}
			if viaRef {
				innerT, pinnerT = &gen.Shape{Kind: gen.KRef, RefID: "Leaf"}, &gen.Shape{Kind: gen.KRef, RefID: "PLeaf"}
				objs = append(objs, &gen.Shape{Kind: gen.KObject, ID: "Leaf", Struct: "P1", Props: leafProps(reqA)}, &gen.Shape{Kind: gen.KObject, ID: "PLeaf", Struct: "*P1", Props: leafProps(reqA)})
			} else {
				innerT = &gen.Shape{Kind: gen.KObject, ID: "Leaf", Struct: "P1", Props: leafProps(reqA)}
				pinnerT = &gen.Shape{Kind: gen.KObject, ID: "PLeaf", Struct: "*P1", Props: leafProps(reqA)}
			}
			mid := &gen.Shape{Kind: gen.KObject, ID: "Mid", Struct: "P3", Props: []*gen.Prop{{Name: "inner", T: innerT, Required: true}, {Name: "pinner", T: pinnerT, Required: true}, {Name: "n", T: intT()}}}
			root := &gen.Shape{Kind: gen.KObject, ID: "Root", Props: []*gen.Prop{
				{Name: "one", T: &gen.Shape{Kind: gen.KRef, RefID: "Mid"}},
				{Name: "jobs", T: &gen.Shape{Kind: gen.KList, Items: &gen.Shape{Kind: gen.KRef, RefID: "Mid"}}},
				{Name: "named", T: &gen.Shape{Kind: gen.KMap, Keys: str(), Vals: &gen.Shape{Kind: gen.KRef, RefID: "Mid"}}}}}
			shape := &gen.Shape{Kind: gen.KScope, Root: "Root", Objects: append([]*gen.Shape{root, mid}, objs...)}
			t, ok, _ := buildGuarded(shape)
			if !ok {
				c.Violation("C17:directed-shape-not-built", "the hand-written struct-mapped scope could not be built", map[string]any{"schema": shape.Describe()})
				continue
			}
			env := &gen.Env{}
			descr := shape.Describe()
			leaf := func() map[string]any { return map[string]any{"a": int64(1), "b": "x"} }
			midV := func() map[string]any { return map[string]any{"inner": leaf(), "pinner": leaf(), "n": int64(3)} }
			type inj struct {
				what string
				path []string
				mk   func() map[string]any
			}
			drop := func(m map[string]any, k string) map[string]any { delete(m, k); return m }
			var injs []inj
			for _, k := range []string{"inner", "pinner"} {
				k := k
				injs = append(injs,
					inj{"missing required sub-object " + k + " (top)", []string{"one", k}, func() map[string]any { return map[string]any{"one": drop(midV(), k)} }},
					inj{"missing required sub-object " + k + " (list item)", []string{"jobs", "1", k}, func() map[string]any { return map[string]any{"jobs": []any{midV(), drop(midV(), k)}} }},
					inj{"missing required sub-object " + k + " (map value)", []string{"named", "second", k}, func() map[string]any {
						return map[string]any{"named": map[string]any{"first": midV(), "second": drop(midV(), k)}}
					}})
				if reqA {
					injs = append(injs, inj{"missing required property inside " + k, []string{"jobs", "0", k, "a"}, func() map[string]any {
						m := midV()
						m[k] = map[string]any{"b": "x"}
						return map[string]any{"jobs": []any{m}}
					}})
				}
			}
			for _, in := range injs {
				raw := in.mk()
				if ref.Denote(shape, raw, env).V != ref.Reject {
					c.Count("skipped:not-must-reject")
					continue
				}
				site := c17Site{path: in.path, chain: []string{"struct", "by-value"}, kind: "missing-required(struct-mapped)"}
				c17Judge(c, t, fmt.Sprintf("[variant %d/%d] %s", vi, wi, descr), raw, site, "Unserialize", func() error { _, err := t.Unserialize(gen.CopyRaw(raw)); return err })
				c.Count("struct_unserialize_injections")
			}
		}
	}
}

// c17ForeignRefs: references into ANOTHER namespace (linked with ApplyNamespace). A rejection below such a reference
// names the elements of the input on the way to the bad leaf, exactly as below a reference into the scope's own
// objects: a namespace or object ID is not an element of the input.
func c17ForeignRefs(c *wk.Ctx) {
	prop := func(t schema.Type, req bool) *schema.PropertySchema {
		return schema.NewPropertySchema(t, nil, req, nil, nil, nil, nil, nil)
	}
	conn := func() *schema.ObjectSchema {
		return schema.NewObjectSchema("Conn", map[string]*schema.PropertySchema{
			"host": prop(schema.NewStringSchema(schema.IntPointer(1), nil, nil), true),
			"port": prop(schema.NewIntSchema(schema.IntPointer(0), schema.IntPointer(65535), nil), false)})
	}
	for _, foreign := range []bool{true, false} {
		ref := func() schema.Type {
			if foreign {
				return schema.NewNamespacedRefSchema("Conn", "pool", nil)
			}
			return schema.NewRefSchema("Conn", nil)
		}
		var t *schema.ScopeSchema
		if p, site, msg, _ := wk.Guard(func() {
			root := schema.NewObjectSchema("Root", map[string]*schema.PropertySchema{
				"remote":  prop(ref(), false),
				"remotes": prop(schema.NewListSchema(ref(), nil, nil), false),
				"named":   prop(schema.NewMapSchema(schema.NewStringSchema(nil, nil, nil), ref(), nil, nil), false)})
			if foreign {
				t = schema.NewScopeSchema(root)
				t.ApplyNamespace(map[string]*schema.ObjectSchema{"Conn": conn()}, "pool")
			} else {
				t = schema.NewScopeSchema(root, conn())
			}
		}); p {
			c.Violation("C17:directed-shape-not-built:"+site, "the hand-written scope with namespaced references could not be built: "+msg, nil)
			continue
		}
		descr := fmt.Sprintf("Root{remote, remotes: list, named: map} -> Conn{host!, port 0..65535}, reference into another namespace: %v", foreign)
		good := func() map[string]any { return map[string]any{"host": "h", "port": int64(80)} }
		for _, bad := range []struct {
			kind string
			leaf string
			v    any
		}{{"wrong-type", "port", "not-a-number"}, {"above-max", "port", int64(70000)}, {"below-min", "host", ""}, {"wrong-type", "host", []any{"x"}}} {
			for _, where := range []string{"property", "list item", "map value"} {
				b := good()
				b[bad.leaf] = bad.v
				var raw map[string]any
				var path []string
				switch where {
				case "property":
					raw, path = map[string]any{"remote": b}, []string{"remote", bad.leaf}
				case "list item":
					raw, path = map[string]any{"remotes": []any{good(), b}}, []string{"remotes", "1", bad.leaf}
				default:
					raw, path = map[string]any{"named": map[string]any{"first": good(), "second": b}}, []string{"named", "second", bad.leaf}
				}
				site := c17Site{path: path, chain: []string{"ref", map[bool]string{true: "foreign-namespace", false: "own-namespace"}[foreign]}, kind: bad.kind}
				c17Judge(c, t, descr, raw, site, "Unserialize", func() error { _, err := t.Unserialize(gen.CopyRaw(raw)); return err })
				c17Judge(c, t, descr, raw, site, "Validate", func() error { return t.Validate(gen.CopyRaw(raw)) })
				c.Count("namespaced_reference_injections")
			}
		}
	}
}

// c17DeepPaths: the offending element lies far down a recursive value (2 path segments per level, up to 120
// levels): the path names every container on the way, however many there are.
func c17DeepPaths(c *wk.Ctx) {
	prop := func(t schema.Type, req bool) *schema.PropertySchema {
		return schema.NewPropertySchema(t, nil, req, nil, nil, nil, nil, nil)
	}
	var t *schema.ScopeSchema
	if p, site, msg, _ := wk.Guard(func() {
		t = schema.NewScopeSchema(schema.NewObjectSchema("Node", map[string]*schema.PropertySchema{
			"name":     prop(schema.NewStringSchema(schema.IntPointer(1), schema.IntPointer(8), nil), true),
			"children": prop(schema.NewListSchema(schema.NewRefSchema("Node", nil), nil, nil), false),
			"byName":   prop(schema.NewMapSchema(schema.NewStringSchema(nil, nil, nil), schema.NewRefSchema("Node", nil), nil, nil), false)}))
	}); p {
		c.Violation("C17:directed-shape-not-built:"+site, "the hand-written recursive scope could not be built: "+msg, nil)
		return
	}
	descr := "Node{name! string[1,8], children: list[ref Node], byName: map[string, ref Node]}"
	for _, depth := range []int{3, 15, 16, 17, 31, 32, 33, 40, 64, 120} {
		for _, bad := range []struct {
			kind string
			v    any
		}{{"wrong-type", []any{"x"}}, {"above-max", "much too long"}, {"below-min", ""}, {"missing-required", nil}} {
			for variant := 0; variant < 3; variant++ {
				// build bottom-up; the path is known by construction
				leaf := map[string]any{"name": "leaf"}
				if bad.v == nil {
					delete(leaf, "name")
				} else {
					leaf["name"] = bad.v
				}
				var cur any = leaf
				var rev [][]string
				for lvl := depth - 1; lvl >= 0; lvl-- {
					viaList := variant == 0 || (variant == 2 && lvl%2 == 0)
					node := map[string]any{"name": "n"}
					if viaList {
						node["children"] = []any{map[string]any{"name": "sib"}, cur}
						rev = append(rev, []string{"children", "1"})
					} else {
						key := fmt.Sprintf("k%d", lvl)
						node["byName"] = map[string]any{key: cur, "other": map[string]any{"name": "sib"}}
						rev = append(rev, []string{"byName", key})
					}
					cur = node
				}
				var path []string
				for i := len(rev) - 1; i >= 0; i-- {
					path = append(path, rev[i]...)
				}
				if bad.v != nil {
					path = append(path, "name")
				}
				raw := cur
				site := c17Site{path: path, chain: []string{"recursive", fmt.Sprintf("depth-%d", depth)}, kind: bad.kind}
				if bad.v == nil {
					// a missing required property is reported at the object, naming the property
					site.path = append(append([]string{}, path...), "name")
				}
				c17Judge(c, t, descr+fmt.Sprintf(" depth %d", depth), "(nested value)", site, "Unserialize", func() error { _, err := t.Unserialize(gen.CopyRaw(raw)); return err })
				c17Judge(c, t, descr+fmt.Sprintf(" depth %d", depth), "(nested value)", site, "Validate", func() error { return t.Validate(gen.CopyRaw(raw)) })
				c.Count("deep_path_injections")
			}
		}
	}
}
