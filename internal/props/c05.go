package props

import (
	"context"
	"fmt"
	"sort"
	"strings"
	"sync"
	"sync/atomic"
	"time"

	"github.com/fxamacker/cbor/v2"
	"go.flow.arcalot.io/pluginsdk/atp"
	"go.flow.arcalot.io/pluginsdk/schema"

	"verif/internal/cmpx"
	"verif/internal/rig"
	"verif/internal/wk"
)

func genAnyPayload(r *wk.Rand, depth int) any {
	k := r.Intn(10)
	if depth >= 3 && k >= 6 {
		k = r.Intn(6)
	}
	switch k {
	case 0:
		return int64(r.Intn(2000)) - 1000
	case 1:
		return int64(r.U64() >> uint(1+r.Intn(62)))
	case 2:
		return float64(r.Intn(100000))/8 - 500
	case 3:
		n := r.Intn(40)
		if r.Chance(8) {
			n = 200 + r.Intn(6000) // long enough to span several read chunks
		}
		b := make([]byte, n)
		for i := range b {
			b[i] = byte('a' + r.Intn(26))
		}
		return string(b)
	case 4:
		return r.Bool()
	case 5:
		return wk.Pick(r, []any{"", int64(0), 0.5, "ünï©ode", int64(-1), float64(1 << 40)})
	case 6, 7:
		n := r.Intn(4)
		l := make([]any, n)
		// lists are homogeneous in kind (what the any type documents)
		proto := genAnyPayload(r, depth+3)
		for i := range l {
			switch proto.(type) {
			case int64:
				l[i] = int64(r.Intn(100))
			case float64:
				l[i] = float64(r.Intn(100)) / 4
			case string:
				l[i] = fmt.Sprintf("s%d", r.Intn(100))
			case bool:
				l[i] = r.Bool()
			default:
				l[i] = int64(i)
			}
		}
		return l
	default:
		n := r.Intn(4)
		if r.Chance(30) {
			// maps keyed by integers are values of "any" as well (and travel as CBOR maps with integer keys)
			im := map[any]any{}
			for i := 0; i < n+1; i++ {
				im[int64(r.Intn(40))-5] = genAnyPayload(r, depth+1)
			}
			return im
		}
		m := map[string]any{}
		for i := 0; i < n; i++ {
			m[fmt.Sprintf("k%d", r.Intn(20))] = genAnyPayload(r, depth+1)
		}
		return m
	}
}

type c05Exec struct {
	spec    rig.ExecSpec
	invalid string // non-empty: which corruption was applied to the input
}

func genC05Exec(r *wk.Rand, runID string, v1 bool) c05Exec {
	step := wk.Pick(r, []string{"echo", "echo", "echo2", "sig"})
	in := map[string]any{"nonce": runID}
	if r.Chance(70) {
		in["n"] = int64(r.Intn(2000001)) - 1000000
	}
	if r.Chance(70) {
		in["payload"] = genAnyPayload(r, 0)
		if r.Chance(30) {
			in["choice"] = wk.Pick(r, []any{map[string]any{"kind": int64(1), "x": int64(5)}, map[string]any{"kind": int64(2), "y": "why"}, map[string]any{"kind": int64(-3)}, map[string]any{"kind": int64(2)}})
		}
	}
	if r.Chance(30) {
		n := r.Intn(5)
		tags := make([]any, n)
		seen := map[string]bool{}
		for i := range tags {
			t := fmt.Sprintf("t%d", r.Intn(50))
			for seen[t] {
				t += "x"
			}
			seen[t] = true
			tags[i] = t
		}
		in["tags"] = tags
	}
	modes := []string{"ok", "ok", "ok", "ok", "ok", "ok", "err", "undeclared", "badout", "panic", "badpanic", "badundeclared"}
	if v1 {
		modes = []string{"ok", "ok", "err"}
	}
	if m := wk.Pick(r, modes); m != "ok" || r.Bool() {
		in["mode"] = m
	}
	e := c05Exec{spec: rig.ExecSpec{RunID: runID, StepID: step, NoSigCh: true}}
	var input any = in
	if !v1 && r.Chance(25) {
		switch r.Intn(12) {
		case 9:
			// a rejected value that is long and not ASCII: the error text that quotes it runs to several KiB
			in["mode"] = strings.Repeat(wk.Pick(r, []string{"é", "ü", "名", "ж"}), 1500+r.Intn(2000)) + "x"
			e.invalid = "mode not in enum (long non-ASCII value)"
		case 10:
			in["undeclared_"+strings.Repeat("ключ", 700+r.Intn(700))] = int64(1)
			e.invalid = "undeclared key (long non-ASCII name)"
		case 0:
			delete(in, "nonce")
			e.invalid = "missing required nonce"
		case 1:
			in["n"] = "abc"
			e.invalid = "n is not a number"
		case 2:
			in["n"] = int64(2000000)
			e.invalid = "n above max"
		case 3:
			in["surprise"] = int64(1)
			e.invalid = "undeclared key"
		case 4:
			in["mode"] = "weird"
			e.invalid = "mode not in enum"
		case 5:
			in["tags"] = []any{"this-tag-is-much-longer-than-sixteen"}
			e.invalid = "tag too long"
		case 6:
			in["nonce"] = ""
			e.invalid = "nonce too short"
		case 7:
			input = []any{int64(1), int64(2)}
			e.invalid = "input is a list"
		case 8:
			e.spec.StepID = "no-such-step"
			e.invalid = "unknown step"
		case 11:
			e.spec.StepID = ""
			e.invalid = "empty step ID"
		}
	}
	e.spec.Input = input
	if !v1 && step == "sig" && r.Chance(60) {
		e.spec.NoSigCh = false
		ns := r.Intn(4)
		for i := 0; i < ns; i++ {
			var d any = map[string]any{"v": int64(i + 1)}
			if r.Chance(20) {
				d = wk.Pick(r, []any{map[string]any{"v": int64(-5)}, map[string]any{"w": int64(1)}, "scalar"})
			}
			e.spec.Signals = append(e.spec.Signals, schema.Input{RunID: runID, ID: "record", InputData: d})
		}
		if ns > 0 && r.Chance(12) {
			// a signal whose handler takes its time: other runs are not held up by it
			e.spec.Signals[r.Intn(ns)].InputData = map[string]any{"v": int64(rig.SignalSlowValue)}
		}
	}
	if _, isMap := e.spec.Input.(map[string]any); !v1 && step == "sig" && e.invalid == "" && isMap && r.Chance(20) {
		// a step that finishes only when the signal sent along with it has reached it (through the run's step data)
		n := int64(r.Intn(1000000))
		in["mode"], in["n"] = "await", n
		e.spec.NoSigCh = false
		e.spec.Signals = []schema.Input{{RunID: runID, ID: "record", InputData: map[string]any{"v": n}}}
	}
	return e
}

func genC05Groups(r *wk.Rand, tag string, v1 bool) ([][]rig.ExecSpec, map[string]c05Exec) {
	n := 1 + r.Intn(12)
	execs := map[string]c05Exec{}
	var groups [][]rig.ExecSpec
	style := r.Intn(3)
	if v1 {
		style = 0
	}
	var cur []rig.ExecSpec
	var finished []string // run IDs of earlier groups: those runs are over, their IDs may be used again
	for i := 0; i < n; i++ {
		runID := fmt.Sprintf("%s-r%d", tag, i)
		if len(finished) > 0 && r.Chance(15) {
			runID = wk.Pick(r, finished)
			for _, x := range cur {
				if x.RunID == runID {
					runID = fmt.Sprintf("%s-r%d", tag, i)
				}
			}
		}
		if !v1 && r.Chance(6) {
			// a run ID is an opaque non-empty string: white space only is as good as any (i+1 characters: unique)
			runID = strings.Repeat(wk.Pick(r, []string{" ", "\t", "\u00a0", "\u2003"}), i+1)
		}
		e := genC05Exec(r, runID, v1)
		execs[runID] = e
		cur = append(cur, e.spec)
		flush := false
		switch style {
		case 0:
			flush = true
		case 1:
			flush = i == n-1
		default:
			flush = r.Chance(40) || i == n-1 || len(cur) >= 4
		}
		if flush {
			groups = append(groups, cur)
			for _, x := range cur {
				finished = append(finished, x.RunID)
			}
			cur = nil
		}
	}
	return groups, execs
}

// c05Burst: 16..24 concurrent Executes of which two thirds fail in different ways, some with to-step signals.
func c05Burst(r *wk.Rand, tag string) ([][]rig.ExecSpec, map[string]c05Exec) {
	execs := map[string]c05Exec{}
	var group []rig.ExecSpec
	n := 16 + r.Intn(9)
	for i := 0; i < n; i++ {
		runID := fmt.Sprintf("%s-b%d", tag, i)
		e := c05Exec{spec: rig.ExecSpec{RunID: runID, StepID: "echo", NoSigCh: true}}
		in := map[string]any{"nonce": runID, "n": int64(i)}
		switch i % 6 {
		case 0:
			e.spec.StepID = wk.Pick(r, []string{"no-such-step", ""})
			e.invalid = "unknown step"
		case 1:
			in["n"] = "not a number"
			e.invalid = "n is not a number"
		case 2:
			in["mode"] = wk.Pick(r, []string{"panic", "undeclared", "badout", "badpanic", "badundeclared"})
		case 3:
			e.spec.StepID = "sig"
			e.spec.NoSigCh = false
			for k := 0; k < 3; k++ {
				e.spec.Signals = append(e.spec.Signals, schema.Input{RunID: runID, ID: "record", InputData: map[string]any{"v": int64(k)}})
			}
		}
		e.spec.Input = in
		execs[runID] = e
		group = append(group, e.spec)
		if i%6 == 4 {
			// the same run ID a second time while the first run (a slow step) is still pending: the second call is
			// refused and must leave the first one alone
			in["mode"] = "gated"
			group = append(group, e.spec)
		}
	}
	return [][]rig.ExecSpec{group}, execs
}

// c05CheckResults compares every Execute result with the in-process CallStep
// result on a fresh identical plugin.
func c05CheckResults(c *wk.Ctx, label string, res *rig.SessionResult, execs map[string]c05Exec, wit map[string]any) {
	all := []string{}
	for id := range execs {
		all = append(all, id)
	}
	issued, refused := map[string]int{}, map[string]int{}
	for _, o := range res.Execs {
		issued[o.Spec.RunID]++
	}
	for _, o := range res.Execs {
		if atomic.LoadInt32(&o.Returned) != 1 {
			continue // liveness is judged separately
		}
		if issued[o.Spec.RunID] > 1 && o.Result.Error != nil && errClass(o.Result.Error.Error()) == "duplicate-run-id" && refused[o.Spec.RunID] < issued[o.Spec.RunID]-1 {
			// one of two calls that use the same run ID at the same time is refused; the other is judged as usual
			refused[o.Spec.RunID]++
			c.Count("executes_refused_as_duplicates")
			continue
		}
		e := execs[o.Spec.RunID]
		wantID, wantData, wantErr := rig.InProcess(o.Spec.RunID, o.Spec.StepID, o.Spec.Input)
		c.Count("executes_compared")
		w := map[string]any{"session": wit, "run_id": o.Spec.RunID, "step": o.Spec.StepID, "input": fmt.Sprintf("%#v", o.Spec.Input), "invalid": e.invalid}
		got := o.Result
		if wantErr != nil {
			c.Count("executes_expected_error")
			if got.Error == nil {
				c.Violation("C05:error-became-success:"+label, fmt.Sprintf("in-process CallStep fails (%v) but Execute(%s) returned output %q", wantErr, o.Spec.RunID, got.OutputID), w)
				continue
			}
			// it must be this run's error, not another run's
			msg := got.Error.Error()
			for _, other := range all {
				if other != o.Spec.RunID && strings.Contains(msg, "\""+other+"\"") {
					c.Violation("C05:error-of-other-run:"+label, fmt.Sprintf("Execute(%s) returned an error that names run %s: %s", o.Spec.RunID, other, msg), w)
				}
			}
			if !strings.Contains(msg, o.Spec.RunID) {
				c.Violation("C05:error-not-attributed:"+label, fmt.Sprintf("Execute(%s) failed as expected but the error does not belong to this run: %s", o.Spec.RunID, msg), w)
			}
			continue
		}
		c.Count("executes_expected_success")
		if got.Error != nil {
			w["error"] = got.Error.Error()
			c.Violation("C05:success-became-error:"+label+":"+errClass(got.Error.Error()), fmt.Sprintf("in-process CallStep returns %q but Execute(%s) failed: %v", wantID, o.Spec.RunID, got.Error), w)
			continue
		}
		if got.OutputID != wantID {
			c.Violation("C05:wrong-output-id:"+label, fmt.Sprintf("Execute(%s) output ID %q, in-process %q", o.Spec.RunID, got.OutputID, wantID), w)
			continue
		}
		norm, err := cmpx.CBORNorm(wantData)
		if err != nil {
			continue
		}
		// data_id of the "sig" step counts initialiser calls of the plugin instance: it depends on
		// the history, not on the input, so it is not part of the comparison (C11 checks it).
		if o.Spec.StepID == "sig" {
			if m, ok := norm.(map[any]any); ok {
				delete(m, "data_id")
			}
			if m, ok := got.OutputData.(map[any]any); ok {
				delete(m, "data_id")
			}
		}
		if cmpx.Canon(norm) != cmpx.Canon(got.OutputData) {
			w["expected"] = clipStr(cmpx.Canon(norm), 1500)
			w["got"] = clipStr(cmpx.Canon(got.OutputData), 1500)
			kind := "wrong-output-data"
			if m, ok := got.OutputData.(map[any]any); ok {
				if n, ok := m["nonce"].(string); ok && n != o.Spec.RunID {
					kind = "result-of-other-run"
				}
			}
			c.Violation("C05:"+kind+":"+label, fmt.Sprintf("Execute(%s) output data differs from the in-process result (after CBOR normalisation)", o.Spec.RunID), w)
		}
	}
}

func errClass(msg string) string {
	switch {
	case strings.Contains(msg, "failed to read or decode runtime message"):
		return "stream-decode-failure"
	case strings.Contains(msg, "failed to decode work done"):
		return "work-done-decode-failure"
	case strings.Contains(msg, "sent error message"):
		return "server-error-message"
	case strings.Contains(msg, "failed to write"):
		return "write-failure"
	case strings.Contains(msg, "duplicate run ID"):
		return "duplicate-run-id"
	}
	return "other"
}

// c05CheckTaps is the offline checker over the recorded byte streams.
func c05CheckTaps(c *wk.Ctx, label string, res *rig.SessionResult, execs map[string]c05Exec, wit map[string]any) {
	if res.S2C.Overlap.Load() > 1 {
		c.Violation("C05:concurrent-writers:s2c:"+label, "two goroutines were inside Write on the server->client stream at the same time (encoder not serialised)", wit)
	}
	if res.C2S.Overlap.Load() > 1 {
		c.Violation("C05:concurrent-writers:c2s:"+label, "two goroutines were inside Write on the client->server stream at the same time (encoder not serialised)", wit)
	}
	c2s, _ := res.C2S.Tap()
	s2c, _ := res.S2C.Tap()
	cm, _, cerr := rig.SplitStream(c2s)
	sm, _, serr := rig.SplitStream(s2c)
	c.CountN("tapped_messages", int64(len(cm)+len(sm)))
	c.CountN("tapped_bytes", int64(len(c2s)+len(s2c)))
	if cerr != nil {
		c.Violation("C05:framing:c2s:"+label, fmt.Sprintf("client->server stream is not a sequence of CBOR items: %v", cerr), wit)
	}
	if serr != nil {
		c.Violation("C05:framing:s2c:"+label, fmt.Sprintf("server->client stream is not a sequence of CBOR items: %v", serr), wit)
		return
	}
	started := map[string]int{}
	for _, m := range cm {
		rm := rig.AsRuntime(m.Value)
		if rm.OK && rm.ID == uint64(atp.MessageTypeWorkStart) {
			started[rm.RunID]++
		}
	}
	terminal := map[string]int{}
	for i, m := range sm {
		if i == 0 {
			continue // hello
		}
		rm := rig.AsRuntime(m.Value)
		if !rm.OK {
			c.Violation("C05:malformed-runtime-message:"+label, fmt.Sprintf("server message #%d is not a runtime message: %v", i, m.Value), wit)
			continue
		}
		switch rm.ID {
		case uint64(atp.MessageTypeWorkDone):
			terminal[rm.RunID]++
			if d, ok := rig.Field(rm.Data, "output_data"); ok {
				if n, ok := rig.Field(d, "nonce"); ok {
					if ns, ok := n.(string); ok && ns != rm.RunID {
						c.Violation("C05:crosstalk-on-wire:"+label, fmt.Sprintf("work-done for run %q carries the nonce of run %q", rm.RunID, ns), wit)
					}
				}
			}
		case uint64(atp.MessageTypeError):
			if sf, ok := rig.Field(rm.Data, "step_fatal"); ok && sf == true && rm.RunID != "" {
				terminal[rm.RunID]++
			}
		}
	}
	ids := make([]string, 0, len(started))
	for id := range started {
		ids = append(ids, id)
	}
	sort.Strings(ids)
	for _, id := range ids {
		if started[id] == 1 && terminal[id] != 1 && res.Monitor.Outcome == "done" {
			c.Violation(fmt.Sprintf("C05:terminal-count-%d:%s", min(terminal[id], 2), label), fmt.Sprintf("run %q was started once but the server sent %d terminal message(s)", id, terminal[id]), wit)
		}
	}
	for id, n := range terminal {
		if started[id] == 0 {
			c.Violation("C05:terminal-for-unknown-run:"+label, fmt.Sprintf("server sent %d terminal message(s) for run %q which no work-start names", n, id), wit)
		}
	}
}

// runV1Session drives the real client against a fake ATP v1 server (legacy framing).
func runV1Session(groups [][]rig.ExecSpec, c2sMode, s2cMode rig.Mode, seed uint64) *rig.SessionResult {
	res := &rig.SessionResult{Fixture: rig.NewFixture()}
	res.C2S = rig.NewPipe("c2s", c2sMode, nil)
	res.S2C = rig.NewPipe("s2c", s2cMode, chunkFn(seed))
	var done atomic.Int32
	var mu sync.Mutex
	setPanic := func(p any) {
		mu.Lock()
		if res.Panic == "" {
			res.Panic = fmt.Sprint(p)
		}
		mu.Unlock()
	}
	res.BaseGID = rig.TakeSnapshot().MaxGID()
	go func() { // fake v1 server
		defer done.Add(1)
		defer func() {
			if p := recover(); p != nil {
				setPanic(p)
			}
		}()
		dec := cbor.NewDecoder(rig.ReadEnd{P: res.C2S})
		enc := cbor.NewEncoder(rig.WriteEnd{P: res.S2C})
		var start any
		if dec.Decode(&start) != nil {
			return
		}
		desc, err := res.Fixture.Schema.SelfSerialize()
		if err != nil {
			panic(err)
		}
		if enc.Encode(atp.HelloMessage{Version: 1, Schema: desc}) != nil {
			return
		}
		for {
			var ws atp.WorkStartMessage
			if err := dec.Decode(&ws); err != nil {
				res.ServerDone = true
				return
			}
			id, data, err := res.Fixture.Schema.CallStep(context.Background(), "v1", ws.StepID, ws.Config)
			if err != nil {
				return
			}
			if enc.Encode(atp.WorkDoneMessage{StepID: ws.StepID, OutputID: id, OutputData: data}) != nil {
				return
			}
		}
	}()
	go func() {
		defer done.Add(1)
		defer func() {
			if p := recover(); p != nil {
				setPanic(p)
			}
		}()
		cli := atp.NewClient(rig.Duplex{In: res.S2C, Out: res.C2S})
		_, err := cli.ReadSchema()
		res.ReadSchemaErr = err
		if err == nil {
			for _, g := range groups {
				for _, ex := range g {
					o := &rig.ExecOutcome{Spec: ex}
					res.Execs = append(res.Execs, o)
					o.Result = cli.Execute(schema.Input{RunID: ex.RunID, ID: ex.StepID, InputData: ex.Input}, nil, nil)
					atomic.StoreInt32(&o.Returned, 1)
				}
			}
		}
		res.CloseErr = cli.Close()
		res.CloseReturned = true
		_ = res.C2S.CloseWrite()
	}()
	res.Monitor = rig.Monitor(func() bool { return done.Load() == 2 }, nil, 20*time.Second)
	if res.Monitor.Outcome != "done" {
		_ = res.C2S.CloseRead()
		_ = res.C2S.CloseWrite()
		_ = res.S2C.CloseRead()
		_ = res.S2C.CloseWrite()
		rig.Settle(500 * time.Millisecond)
	}
	return res
}

func chunkFn(seed uint64) func() int {
	s := seed | 1
	return func() int {
		s ^= s << 13
		s ^= s >> 7
		s ^= s << 17
		if s%3 == 0 {
			return 1 + int(s>>9)%3
		}
		return 1 + int(s>>9)%300
	}
}

func runC05(c *wk.Ctx) {
	rig.SendTimerStallIsVerdict = true
	c.Meta("rule", "generated sessions of 1..12 Execute calls (serial, fully concurrent, staggered; a run ID may be used again once its run is over) on the fixture plugin (3 steps; any-typed payloads of every CBOR shape incl. strings spanning read chunks; declared error output, undeclared output, non-conforming output, panicking handler; inputs the step schema rejects; to-step signals with valid and invalid data) x transports {sync, buffered, chunked(seed)} per direction x {ATP v3 real server, ATP v1 fake server (serial)} x random pauses at yield points (overlay build) and the same sessions under the race detector. Oracle: every Execute result equals CallStep on a fresh identical plugin after CBOR normalisation; offline checker over the tapped byte streams (framing, exactly one terminal message per started run, no terminal for unknown runs, nonce of the run in its own work-done, no concurrent writers). non-trivial = a session with >=2 executes or a non-sync transport; distinct = hash of the generated session Step mode 'await': the step finishes only when the signal passed along with the call has reached it through the run's step data (in-process: CallSignal, then CallStep); a signal value whose handler takes until the session's calls are over.")
	c.Meta("assumptions", []string{"handlers are pure functions of their input embedding the run's unique nonce, so results identify the run they belong to",
		"unknown signal IDs are not generated here (C07/C11 cover them)"})
	c.Floor("sessions", 30)
	c.Floor("executes_compared", 100)
	c.Floor("executes_expected_error", 5)
	c.Floor("tapped_messages", 200)
	points := map[int]yieldPoint{}
	var pausePool []rig.PauseAt
	if rig.OverlayBuild {
		points = loadYieldPoints(c.Variant)
		// one baseline session to learn which yield points a session reaches
		g, _ := genC05Groups(wk.NewRand(c.Seed, "C05-base", 0), "base", false)
		b := rig.RunSession(rig.SessionSpec{C2S: rig.ModeBuffered, S2C: rig.ModeBuffered, ChunkSeed: 1, Groups: g})
		for p, n := range b.Hits {
			for k := 1; k <= n && k <= 3; k++ {
				pausePool = append(pausePool, rig.PauseAt{Point: p, Hit: k})
			}
		}
		sort.Slice(pausePool, func(i, j int) bool {
			if pausePool[i].Point != pausePool[j].Point {
				return pausePool[i].Point < pausePool[j].Point
			}
			return pausePool[i].Hit < pausePool[j].Hit
		})
	}
	n := c.N(700, 48000)
	if c.Variant == "race" {
		n = c.N(250, 12000)
	}
	modes := []rig.Mode{rig.ModeSync, rig.ModeBuffered, rig.ModeChunked}
	sigs := map[uint64]bool{}
	c.Cases(n, func(idx int64, r *wk.Rand) {
		v1 := r.Chance(12)
		tag := fmt.Sprintf("s%d", idx)
		groups, execs := genC05Groups(r, tag, v1)
		c2s, s2c := wk.Pick(r, modes), wk.Pick(r, modes)
		if idx%9 == 4 {
			// an error burst over rendezvous pipes: many calls fail at once (unknown steps, rejected inputs, failing
			// steps) next to valid ones, with late signals - every error report travels through the plugin's small
			// error queue while both sides have writes pending
			v1 = false
			groups, execs = c05Burst(r, tag)
			c2s, s2c = rig.ModeSync, rig.ModeSync
			c.Count("error_burst_sessions")
		}
		seed := r.U64()
		var sched []rig.PauseAt
		if rig.OverlayBuild && !v1 && len(pausePool) > 0 {
			for k := r.Intn(4); k > 0; k-- {
				sched = append(sched, wk.Pick(r, pausePool))
			}
			if len(sched) > 0 && (c2s == rig.ModeSync || s2c == rig.ModeSync) {
				// a writer parked inside a rendezvous pipe keeps the SDK's send timer pending: use non-blocking writes with pauses
				c2s, s2c = rig.ModeBuffered, rig.ModeChunked
			}
		}
		nexec := 0
		for _, g := range groups {
			nexec += len(g)
		}
		wit := map[string]any{"case": idx, "protocol": map[bool]string{true: "v1", false: "v3"}[v1], "transport": fmt.Sprintf("c2s=%s s2c=%s seed=%d", c2s, s2c, seed),
			"executes": nexec, "groups": len(groups), "schedule": describePause(points, sched)}
		c.Note(fmt.Sprintf("v1=%v c2s=%s s2c=%s nexec=%d sched=%v", v1, c2s, s2c, nexec, sched))
		label := "v3"
		var res *rig.SessionResult
		if v1 {
			label = "v1"
			res = runV1Session(groups, c2s, s2c, seed)
		} else {
			res = rig.RunSession(rig.SessionSpec{C2S: c2s, S2C: s2c, ChunkSeed: seed, Groups: groups, Sched: sched, Lifo: r.Bool()})
		}
		c.Count("sessions")
		c.Count("protocol:" + label)
		c.Count("transport:" + c2s.String() + "/" + s2c.String())
		c.CountN("yield_hits", res.NHits)
		if res.Pauses > 0 {
			c.Count("sessions_with_effective_pause")
		}
		if !sigs[res.Sig] {
			sigs[res.Sig] = true
			c.Count("distinct_interleaving_signatures_in_shard")
		}
		c.Eval(wk.Hash64(fmt.Sprintf("%v|%v|%v|%d|%v", groups, c2s, s2c, seed, sched)), nexec >= 2 || c2s != rig.ModeSync || s2c != rig.ModeSync)
		switch res.Monitor.Outcome {
		case "inconclusive":
			c.Inconclusive(fmt.Sprintf("%v: watchdog fired; running: %v", wit, res.Monitor.Verdict.RunningDescr) + snapSummary(res.Monitor.Snap))
			return
		case "send-timer-stall":
			var un []string
			for _, e := range res.Execs {
				if atomic.LoadInt32(&e.Returned) == 0 {
					un = append(un, e.Spec.RunID)
				}
			}
			wit["goroutines"] = res.Monitor.Snap.Detail()
			if len(un) == 0 && res.CloseReturnedAtVerdict {
				c.Inconclusive(fmt.Sprintf("%v: only the server's send timer is pending, but no caller is waiting", wit))
				return
			}
			c.Violation("C05:callers-wait-for-the-send-timeout:"+stallClass(res.Monitor.Snap), fmt.Sprintf("Execute %v (Close returned: %v) wait although the connection is healthy: every goroutine is blocked and only the plugin's 60 s send timeout can still fire (%s)", un, res.CloseReturnedAtVerdict, stallClass(res.Monitor.Snap)), wit)
			return
		case "deadlock":
			var un []string
			for _, e := range res.Execs {
				if atomic.LoadInt32(&e.Returned) == 0 {
					un = append(un, e.Spec.RunID)
				}
			}
			wit["blocked"] = res.Monitor.Snap.Summary()
			c.Violation("C05:result-never-delivered:"+label, fmt.Sprintf("session deadlocked: Execute %v never returned although the connection is healthy", un), wit)
			return
		}
		if res.Panic != "" {
			wit["stack"] = clipStr(res.PanicStack, 4000)
			c.Violation("C05:panic:"+label+":"+panicSiteFromStack(res.PanicStack), res.Panic, wit)
			return
		}
		if res.ReadSchemaErr != nil {
			c.Violation("C05:readschema-failed:"+label, fmt.Sprintf("ReadSchema failed on a healthy connection: %v", res.ReadSchemaErr), wit)
			return
		}
		c05CheckResults(c, label, res, execs, wit)
		if !v1 {
			c05CheckTaps(c, label, res, execs, wit)
		}
		if idx%151 == 0 {
			var ex []string
			for _, g := range groups {
				var ids []string
				for _, e := range g {
					ids = append(ids, e.StepID+":"+e.RunID)
				}
				ex = append(ex, "{"+strings.Join(ids, " ")+"}")
			}
			c.Sample("session", map[string]any{"setup": wit, "groups": ex})
		}
	})
}

func init() { register("C05", runC05) }

// snapSummary renders the last snapshot of an inconclusive session (what every goroutine was doing).
func snapSummary(s *rig.Snapshot) string {
	if s == nil {
		return ""
	}
	return "; goroutines: " + clipStr(strings.Join(s.Detail(), " | "), 6000)
}

// stallClass tells the two known shapes of a send-timer stall apart: the client's read loop exists but cannot go on
// (it waits for a lock a blocked writer holds), or the client is not reading at all (its read loop went idle while
// one of its write loops still sends signals that the plugin answers with error messages).
func stallClass(s *rig.Snapshot) string {
	if s == nil {
		return "unknown"
	}
	for _, g := range s.Detail() {
		if strings.Contains(g, "executeReadLoop") {
			return "client-read-loop-blocked"
		}
	}
	return "client-not-reading"
}
