package props

import (
	"fmt"
	"reflect"

	"go.flow.arcalot.io/pluginsdk/schema"

	"verif/internal/gen"
	"verif/internal/wk"
)

// buildGuarded builds the SDK schema for a shape; constructor panics are the
// documented contract for mis-built schemas and only mean "generator produced
// something the SDK refuses" - not a property violation.
func buildGuarded(s *gen.Shape) (t schema.Type, ok bool, msg string) {
	p, _, m, _ := wk.Guard(func() { t = gen.Build(s) })
	if p {
		return nil, false, m
	}
	return t, true, ""
}

func dynType(v any) string {
	if v == nil {
		return "nil"
	}
	return reflect.TypeOf(v).String()
}

type c04Op struct {
	name string
	call func(t schema.Type, v any) error
}

var c04Ops = []c04Op{
	{"Unserialize", func(t schema.Type, v any) error { _, err := t.Unserialize(v); return err }},
	{"ValidateCompatibility(data)", func(t schema.Type, v any) error { return t.ValidateCompatibility(v) }},
	{"Validate", func(t schema.Type, v any) error { return t.Validate(v) }},
	{"Serialize", func(t schema.Type, v any) error { _, err := t.Serialize(v); return err }},
}

func runC04(c *wk.Ctx) {
	c.Meta("rule", "per case: a generated schema (all 15 kinds, nested, map-based and struct-mapped objects over a pool of Go types, typed enums, one-of inlined/not, treat-empty-as-default, units, defaults, presence rules, scopes with recursive references) built through the public constructors; then Unserialize / data-mode ValidateCompatibility / Validate / Serialize are called with (a) each of ~66 hostile values (nil, typed nils, wrong kinds, NaN/Inf/2^63, uint64 max, []byte, cbor.Tag, big.Int, time, typed maps/slices, mixed / NaN / bool / array map keys, named scalars, pointers, wrong structs, funcs, chans) at the root, (b) the same substituted at a random position of an otherwise valid input, (c) valid inputs in alternative representations and their CBOR image, (d) the unserialized native value and hostile substitutions in it, (e) 2000-deep nesting, also with an unacceptable value (nil, a func, a string) at the bottom. Each call is journalled before it is made (fatal crashes are attributed by the parent) and guarded (recovered panics). distinct = hash(root kind, position kind, operation, dynamic type); a case is non-trivial when the hostile value is placed below the root Directed: chains of 4..49 single-property objects around int[0,10] with lone values of every kind (the work must stay proportional to the chain).")
	c.Meta("assumptions", []string{"struct-mapped objects range over a fixed pool of 11 Go types", "a non-terminating call is decided by CPU time of the worker on one journalled call (20 s), see DESIGN.md §1"})
	c.Floor("calls", 20000)
	for k := 0; k < gen.NKinds; k++ {
		c.Floor("node-kind:"+gen.Kind(k).String(), 1)
	}
	if c.Mine(0) {
		c.Begin(0, "cross-namespace default loops")
		c04CrossNamespace(c, "C04")
	}
	if c.Mine(3) {
		c.Begin(3, "list properties held in array fields")
		c04ArrayFields(c)
	}
	if c.Mine(2) {
		c.Begin(2, "chains of objects with two defaulted references each")
		c04DefaultChains(c, "C04")
		c.Note("chains of single-property objects")
		c04WrapperChains(c, "C04")
	}
	if c.Mine(1) {
		c.Begin(1, "deep valid values of recursive struct-mapped schemas")
		c04StructTrees(c)
	}
	n := c.N(2500, 600000)
	c.Cases(n, func(idx int64, r *wk.Rand) {
		cfg := gen.Full()
		cfg.TypedVariants = true
		var shape *gen.Shape
		tricky := gen.TrickyShapes()
		if idx < int64(4*len(tricky)) {
			shape = tricky[int(idx)%len(tricky)]
			c.Count("tricky_shapes")
		} else if se := gen.SelfExpandingShapes(); idx < int64(4*len(tricky)+2*len(se)) {
			// scopes whose default leads back to its own property: refused by the constructors - or, if not,
			// still subject to everything below
			shape = se[int(idx-int64(4*len(tricky)))%len(se)]
			if _, ok, _ := buildGuarded(shape); !ok {
				c.Count("self_expanding_defaults_refused")
				return
			}
			c.Count("self_expanding_defaults_ACCEPTED")
		} else {
			shape = nil
		}
		if shape == nil {
			switch r.Intn(6) {
			case 0, 1:
				shape = gen.GenScope(r, cfg)
			case 2:
				shape = gen.GenObjectStandalone(r, cfg)
			default:
				shape = gen.GenType(r, cfg)
			}
		}
		t, ok, _ := buildGuarded(shape)
		if !ok {
			c.Count("misbuilt_schemas")
			return
		}
		c.Count("schemas")
		c.Count("root-kind:" + shape.Kind.String())
		shape.Walk(func(s *gen.Shape) { c.Count("node-kind:" + s.Kind.String()) })
		descr := shape.Describe()
		env := &gen.Env{}
		call := func(op c04Op, v any, where string) {
			dt := dynType(v)
			c.Note(fmt.Sprintf("%s root=%s where=%s dyn=%s", op.name, shape.Kind, where, dt))
			var err error
			p, site, msg, stack := wk.Guard(func() { err = op.call(t, v) })
			c.Count("calls")
			c.Count("op:" + op.name)
			c.Eval(wk.Hash64(shape.Kind.String(), where, op.name, dt), where != "root")
			if p {
				c.Violation("C04:panic:"+op.name+":"+site, fmt.Sprintf("%s panicked on a %s (at %s) for schema %s: %s", op.name, dt, where, clipStr(descr, 300), msg),
					map[string]any{"schema": descr, "operation": op.name, "value": clipStr(fmt.Sprintf("%#v", v), 600), "dynamic_type": dt, "position": where, "stack": clipStr(stack, 3000)})
			}
			_ = err
		}
		// (a) hostile values at the root
		for i := 0; i < 14; i++ {
			name, h := gen.HostileValue(r)
			for _, op := range c04Ops {
				call(op, h, "root")
			}
			c.Count("hostile:" + name)
		}
		// (b)-(d) need a valid input
		raw, okRaw := gen.ValidRaw(r, shape, env, 0)
		if okRaw {
			c.Count("schemas_with_valid_input")
			for i := 0; i < 10; i++ {
				name, h := gen.HostileValue(r)
				mut, path := gen.SubstituteAt(r, gen.CopyRaw(raw), h)
				where := "inside"
				if path == "$" {
					where = "root"
				}
				for _, op := range c04Ops {
					call(op, mut, where)
				}
				c.Count("hostile-inside:" + name)
			}
			if dv, ok := gen.UnknownDiscriminator(r, gen.CopyRaw(raw)); ok {
				for _, op := range c04Ops {
					call(op, dv, "unknown-discriminator")
				}
				c.Count("unknown_discriminators")
			}
			for i := 0; i < 4; i++ {
				if mut, where, ok := gen.InsertOddKey(r, gen.CopyRaw(raw)); ok {
					for _, op := range c04Ops {
						call(op, mut, "odd-key")
					}
					_ = where
					c.Count("odd_key_insertions")
				}
			}
			for i := 0; i < 3; i++ {
				rep := gen.Represent(r, gen.CopyRaw(raw), shape, env, 0)
				for _, op := range c04Ops {
					call(op, rep, "valid-representation")
				}
				if cb, err := gen.ViaCBOR(rep); err == nil {
					for _, op := range c04Ops {
						call(op, cb, "valid-after-cbor")
					}
				}
			}
			var native any
			var uerr error
			if p, _, _, _ := wk.Guard(func() { native, uerr = t.Unserialize(gen.CopyRaw(raw)) }); !p && uerr == nil {
				c.Count("natives")
				for _, op := range c04Ops[2:] {
					call(op, native, "native")
				}
				// hostile substitutions inside generic containers of the native value
				for i := 0; i < 4; i++ {
					_, h := gen.HostileValue(r)
					mut, path := gen.SubstituteAt(r, gen.CopyRaw(native), h)
					if path != "$" {
						for _, op := range c04Ops[2:] {
							call(op, mut, "inside-native")
						}
					}
				}
			}
		}
		// (e) deep nesting
		// (41 and 287 are coprime with the number of shards, so these expensive cases spread over all of them)
		if idx%41 == 0 || idx < int64(len(gen.TrickyShapes())) {
			for _, asMap := range []bool{false, true} {
				deep := gen.DeepNest(2000, asMap)
				for _, op := range c04Ops {
					call(op, deep, "deep-nesting")
				}
				// the same with a value at the bottom that nothing accepts: the error has to travel all the way up
				for _, leaf := range []any{nil, func() {}, "bottom"} {
					if !c.Quick() && idx%287 != 0 && idx >= int64(len(gen.TrickyShapes())) {
						break
					}
					deepBad := gen.DeepNestLeaf(2000, asMap, leaf)
					for _, op := range c04Ops {
						call(op, deepBad, "deep-nesting-bad-leaf")
					}
				}
			}
		}
		if idx < 4 {
			c.Sample("schema", descr)
		}
	})
}

// c04CrossNamespace: defaults that lead back to their own property through references into ANOTHER namespace, linked
// by a later ApplyNamespace call (two sibling scopes referring to each other; a scope that refers to itself under a
// second name). Linking must refuse them - or every operation on what was accepted must still terminate.
func c04CrossNamespace(c *wk.Ctx, propID string) {
	def := "{}"
	prop := func(t schema.Type, d *string) *schema.PropertySchema {
		return schema.NewPropertySchema(t, nil, false, nil, nil, nil, d, nil)
	}
	builders := map[string]func() []schema.Type{
		"two sibling scopes": func() []schema.Type {
			s1 := schema.NewScopeSchema(schema.NewObjectSchema("A", map[string]*schema.PropertySchema{"b": prop(schema.NewNamespacedRefSchema("B", "ext", nil), &def)}))
			s2 := schema.NewScopeSchema(schema.NewObjectSchema("B", map[string]*schema.PropertySchema{"a": prop(schema.NewNamespacedRefSchema("A", "main", nil), &def)}))
			s1.ApplyNamespace(s2.Objects(), "ext")
			s2.ApplyNamespace(s1.Objects(), "main")
			return []schema.Type{s1, s2}
		},
		"one scope under a second name": func() []schema.Type {
			s := schema.NewScopeSchema(schema.NewObjectSchema("N", map[string]*schema.PropertySchema{
				"next": prop(schema.NewNamespacedRefSchema("N", "again", nil), &def), "v": prop(schema.NewIntSchema(nil, nil, nil), nil)}))
			s.ApplyNamespace(s.Objects(), "again")
			return []schema.Type{s}
		},
		"through a list": func() []schema.Type {
			d := "[{}]"
			s1 := schema.NewScopeSchema(schema.NewObjectSchema("A", map[string]*schema.PropertySchema{
				"items": prop(schema.NewListSchema(schema.NewNamespacedRefSchema("B", "ext", nil), nil, nil), &d)}))
			s2 := schema.NewScopeSchema(schema.NewObjectSchema("B", map[string]*schema.PropertySchema{"a": prop(schema.NewNamespacedRefSchema("A", "main", nil), &def)}))
			s2.ApplyNamespace(s1.Objects(), "main")
			s1.ApplyNamespace(s2.Objects(), "ext")
			return []schema.Type{s1, s2}
		},
	}
	for _, name := range sortedKeys(builders) {
		var ts []schema.Type
		c.Note("linking: " + name)
		if p, _, _, _ := wk.Guard(func() { ts = builders[name]() }); p {
			c.Count("cross_namespace_self_expanding_defaults_refused")
			continue
		}
		c.Count("cross_namespace_self_expanding_defaults_ACCEPTED")
		for _, t := range ts {
			for _, in := range []any{map[string]any{}, map[any]any{}, nil, "x", []any{}} {
				for _, op := range c04Ops {
					c.Note(fmt.Sprintf("%s on accepted cross-namespace scopes (%s) dyn=%s", op.name, name, dynType(in)))
					var err error
					if p, site, msg, _ := wk.Guard(func() { err = op.call(t, in) }); p {
						c.Violation(propID+":panic:"+op.name+":"+site, op.name+" panicked on scopes linked across namespaces ("+name+"): "+msg, map[string]any{"scopes": name})
					}
					_ = err
					c.Count("calls")
				}
			}
		}
	}
}

func init() { register("C04", runC04) }

// c04Node / c04Dir: struct-mapped objects that contain themselves through a slice and through a map (a Go struct
// can do that without a pointer).
type c04Node struct {
	V        int64     `json:"v"`
	Children []c04Node `json:"children"`
}

type c04Dir struct {
	Name    string            `json:"name"`
	Entries map[string]c04Dir `json:"entries"`
}

// c04StructTrees: valid, deeply nested values of recursive struct-mapped schemas (one child per level, so the value
// is small): every operation is linear in the depth, and the CPU-time rule of the driver decides if one is not.
func c04StructTrees(c *wk.Ctx) {
	prop := func(t schema.Type, required bool) *schema.PropertySchema {
		return schema.NewPropertySchema(t, nil, required, nil, nil, nil, nil, nil)
	}
	node := schema.NewScopeSchema(schema.NewStructMappedObjectSchema[c04Node]("Node", map[string]*schema.PropertySchema{
		"v":        prop(schema.NewIntSchema(nil, nil, nil), true),
		"children": prop(schema.NewListSchema(schema.NewRefSchema("Node", nil), nil, nil), false),
	}))
	dir := schema.NewScopeSchema(schema.NewStructMappedObjectSchema[c04Dir]("Dir", map[string]*schema.PropertySchema{
		"name":    prop(schema.NewStringSchema(nil, nil, nil), true),
		"entries": prop(schema.NewMapSchema(schema.NewStringSchema(nil, nil, nil), schema.NewRefSchema("Dir", nil), nil, nil), false),
	}))
	for _, depth := range []int{4, 16, 64, 400} {
		var nodeRaw any = map[string]any{"v": int64(depth)}
		var dirRaw any = map[string]any{"name": "leaf"}
		for i := 0; i < depth; i++ {
			nodeRaw = map[string]any{"v": int64(i), "children": []any{nodeRaw}}
			dirRaw = map[string]any{"name": fmt.Sprint(i), "entries": map[string]any{"sub": dirRaw}}
		}
		for _, tc := range []struct {
			name string
			t    schema.Type
			raw  any
		}{{"Node{v, children: list<ref Node>} on a struct", node, nodeRaw}, {"Dir{name, entries: map<string, ref Dir>} on a struct", dir, dirRaw}} {
			var native any
			var err error
			for _, op := range []string{"Unserialize", "ValidateCompatibility(data)", "Validate", "Serialize"} {
				c.Note(fmt.Sprintf("%s on a valid value nested %d deep: %s", op, depth, tc.name))
				p, site, msg, _ := wk.Guard(func() {
					switch op {
					case "Unserialize":
						native, err = tc.t.Unserialize(gen.CopyRaw(tc.raw))
					case "ValidateCompatibility(data)":
						err = tc.t.ValidateCompatibility(gen.CopyRaw(tc.raw))
					case "Validate":
						err = tc.t.Validate(native)
					default:
						_, err = tc.t.Serialize(native)
					}
				})
				c.Count("calls")
				c.Count("struct_tree_calls")
				c.Eval(wk.Hash64("struct-tree", tc.name, op, fmt.Sprint(depth)), true)
				w := map[string]any{"schema": tc.name, "depth": depth, "operation": op}
				if p {
					c.Violation("C04:panic:"+op+":"+site, fmt.Sprintf("%s panicked on a valid value nested %d deep (%s): %s", op, depth, tc.name, msg), w)
					break
				}
				if err != nil {
					c.Violation("C04:valid-deep-value-rejected:"+op, fmt.Sprintf("%s rejects a valid value nested %d deep (%s): %v", op, depth, tc.name, err), w)
					break
				}
			}
		}
	}
}

// c04DefaultChains: a valid, acyclic chain of objects in which every object refers to the next one through two
// properties that both default to "{}". Building the scope, describing it and loading the description all have to
// return (the CPU-time rule decides); no input that would make the defaults unfold is used - the unfolded value
// really has 2^n nodes.
func c04DefaultChains(c *wk.Ctx, propID string) {
	def := "{}"
	for _, n := range []int{4, 12, 40, 200} {
		build := func() *schema.ScopeSchema {
			var objs []*schema.ObjectSchema
			for i := 0; i <= n; i++ {
				props := map[string]*schema.PropertySchema{}
				if i < n {
					next := fmt.Sprintf("O%d", i+1)
					props["a"] = schema.NewPropertySchema(schema.NewRefSchema(next, nil), nil, false, nil, nil, nil, &def, nil)
					props["b"] = schema.NewPropertySchema(schema.NewListSchema(schema.NewRefSchema(next, nil), nil, nil), nil, false, nil, nil, nil, &def2, nil)
				} else {
					props["v"] = schema.NewPropertySchema(schema.NewIntSchema(nil, nil, nil), nil, false, nil, nil, nil, nil, nil)
				}
				objs = append(objs, schema.NewObjectSchema(fmt.Sprintf("O%d", i), props))
			}
			return schema.NewScopeSchema(objs[0], objs[1:]...)
		}
		var s *schema.ScopeSchema
		var desc any
		var err error
		w := map[string]any{"objects_in_the_chain": n + 1}
		c.Note(fmt.Sprintf("building a chain of %d objects with two defaulted references each", n+1))
		if p, site, msg, _ := wk.Guard(func() { s = build() }); p {
			c.Violation(propID+":panic:NewScopeSchema:"+site, "building a valid acyclic chain of defaulted references panicked: "+msg, w)
			continue
		}
		c.Note(fmt.Sprintf("describing a chain of %d objects with two defaulted references each", n+1))
		if p, site, msg, _ := wk.Guard(func() { desc, err = s.SelfSerialize() }); p || err != nil {
			c.Violation(propID+":chain-not-described:"+site, fmt.Sprintf("SelfSerialize of the chain failed: %v %s", err, msg), w)
			continue
		}
		c.Note(fmt.Sprintf("loading the description of a chain of %d objects with two defaulted references each", n+1))
		var rebuilt *schema.ScopeSchema
		if p, site, msg, _ := wk.Guard(func() { rebuilt, err = schema.UnserializeScope(desc) }); p || err != nil {
			c.Violation(propID+":chain-not-loaded:"+site, fmt.Sprintf("UnserializeScope of the chain's own description failed: %v %s", err, msg), w)
			continue
		}
		for _, t := range []*schema.ScopeSchema{s, rebuilt} {
			for _, in := range []any{5, "x", nil, []any{}} {
				c.Note(fmt.Sprintf("Unserialize of a non-map value on a chain of %d objects", n+1))
				_, _, _, _ = wk.Guard(func() { _, _ = t.Unserialize(in) })
				c.Count("calls")
			}
		}
		c.Count("default_chains")
		c.Eval(wk.Hash64("default-chain", fmt.Sprint(n)), true)
	}
}

var def2 = "[{}, {}]"

// c04WrapperChains: W0{p: ref W1} -> W1{p: ref W2} -> ... -> Wn{v: int[0,10]}: every object has one property, so a
// lone scalar travels down the whole chain by the shorthand rule and a rejection at the bottom travels back up
// through n levels. The work (and the size of the error) has to stay proportional to n - the chain's length is the
// plugin's choice. Constructor-built and rebuilt from its description.
func c04WrapperChains(c *wk.Ctx, propID string) {
	for _, n := range []int{3, 12, 24, 48} {
		build := func() *schema.ScopeSchema {
			var objs []*schema.ObjectSchema
			for i := 0; i <= n; i++ {
				props := map[string]*schema.PropertySchema{}
				if i < n {
					props["p"] = schema.NewPropertySchema(schema.NewRefSchema(fmt.Sprintf("W%d", i+1), nil), nil, true, nil, nil, nil, nil, nil)
				} else {
					props["v"] = schema.NewPropertySchema(schema.NewIntSchema(schema.IntPointer(0), schema.IntPointer(10), nil), nil, true, nil, nil, nil, nil, nil)
				}
				objs = append(objs, schema.NewObjectSchema(fmt.Sprintf("W%d", i), props))
			}
			return schema.NewScopeSchema(objs[0], objs[1:]...)
		}
		var s, rebuilt *schema.ScopeSchema
		var err error
		w := map[string]any{"objects_in_the_chain": n + 1}
		c.Note(fmt.Sprintf("building and describing a chain of %d single-property objects", n+1))
		if p, site, msg, _ := wk.Guard(func() {
			s = build()
			rebuilt, err = rebuildScope(s)
		}); p || err != nil {
			c.Violation(propID+":wrapper-chain-not-loaded:"+site, fmt.Sprintf("a chain of single-property objects cannot be built, described and rebuilt: %v %s", err, msg), w)
			continue
		}
		for ti, t := range []*schema.ScopeSchema{s, rebuilt} {
			for _, in := range []any{int64(5), "x", int64(50), nil, []any{}, 2.5, map[string]any{"p": "x"}, map[string]any{"p": map[string]any{"p": int64(11)}}} {
				c.Note(fmt.Sprintf("a lone value %v on a chain of %d single-property objects (rebuilt: %v)", in, n+1, ti == 1))
				var uerr error
				if p, site, msg, _ := wk.Guard(func() {
					_, uerr = t.Unserialize(in)
					if uerr != nil {
						_ = uerr.Error()
					}
					_ = t.ValidateCompatibility(in)
				}); p {
					w["input"] = fmt.Sprint(in)
					c.Violation(propID+":panic:Unserialize:"+site, "a lone value on a chain of single-property objects: "+msg, w)
				}
				if in == int64(5) && uerr != nil {
					c.Violation(propID+":wrapper-chain-rejects-valid-shorthand", fmt.Sprintf("5 is shorthand for the only value the chain can hold, but it is rejected: %v", clipStr(uerr.Error(), 300)), w)
				}
				c.Count("calls")
			}
		}
		c.Count("wrapper_chains")
		c.Eval(wk.Hash64("wrapper-chain", fmt.Sprint(n)), true)
	}
}

// c04Arrays: list properties held in fixed-size ARRAY fields of a struct. Lists of every length (shorter, exact,
// longer), of wrong item types, defaults that are too short, below a reference in a list: errors, never panics.
type c04Arr struct {
	Arr  [3]float64 `json:"arr"`
	Pair [2]string  `json:"pair"`
	N    *int64     `json:"n"`
}

func c04ArrayFields(c *wk.Ctx) {
	short := "[1.5]"
	mk := func(def *string) *schema.ScopeSchema {
		return schema.NewScopeSchema(
			schema.NewObjectSchema("Root", map[string]*schema.PropertySchema{
				"one":  schema.NewPropertySchema(schema.NewRefSchema("A", nil), nil, false, nil, nil, nil, nil, nil),
				"many": schema.NewPropertySchema(schema.NewListSchema(schema.NewRefSchema("A", nil), nil, nil), nil, false, nil, nil, nil, nil, nil)}),
			schema.NewStructMappedObjectSchema[c04Arr]("A", map[string]*schema.PropertySchema{
				"arr":  schema.NewPropertySchema(schema.NewListSchema(schema.NewFloatSchema(nil, nil, nil), nil, nil), nil, false, nil, nil, nil, def, nil),
				"pair": schema.NewPropertySchema(schema.NewListSchema(schema.NewStringSchema(nil, nil, nil), nil, nil), nil, false, nil, nil, nil, nil, nil),
				"n":    schema.NewPropertySchema(schema.NewIntSchema(nil, nil, nil), nil, false, nil, nil, nil, nil, nil)}))
	}
	lists := []any{[]any{}, []any{1.5}, []any{1.5, 2.5}, []any{1.5, 2.5, 3.5}, []any{1.5, 2.5, 3.5, 4.5}, []any{"a", "b"}, []any{"a", "b", "c"}, []any{nil, nil, nil}, "x", nil, []float64{1}, [2]float64{1, 2}}
	for di, def := range []*string{nil, &short} {
		var t *schema.ScopeSchema
		c.Note("array fields: building the scope")
		if p, _, _, _ := wk.Guard(func() { t = mk(def) }); p {
			c.Count("array_field_scopes_refused")
			continue
		}
		for _, arr := range lists {
			for _, pair := range lists {
				a := map[string]any{"arr": arr, "pair": pair}
				if arr == nil {
					delete(a, "arr")
				}
				for wi, in := range []any{map[string]any{"one": a}, map[string]any{"many": []any{a, map[any]any{"pair": pair}}}, map[any]any{"one": map[any]any{"arr": arr}}} {
					for _, op := range c04Ops[:2] {
						c.Note(fmt.Sprintf("%s on a struct with array fields (default %d, wrapping %d) arr=%s pair=%s", op.name, di, wi, dynType(arr), dynType(pair)))
						if p, site, msg, _ := wk.Guard(func() { _ = op.call(t, gen.CopyRaw(in)) }); p {
							c.Violation("C04:panic:"+op.name+":"+site, fmt.Sprintf("%s panicked on a list for an array field: %s", op.name, msg), map[string]any{"input": fmt.Sprintf("%#v", in), "default_of_arr": def})
						}
						c.Count("calls")
						c.Count("array_field_calls")
					}
				}
			}
		}
		c.Eval(wk.Hash64("array-fields", fmt.Sprint(di)), true)
	}
}
