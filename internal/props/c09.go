package props

import (
	"context"
	"fmt"
	"strings"
	"sync"
	"sync/atomic"
	"time"

	"go.flow.arcalot.io/pluginsdk/atp"
	"go.flow.arcalot.io/pluginsdk/schema"
	"gopkg.in/yaml.v3"

	"verif/internal/cmpx"
	"verif/internal/gen"
	"verif/internal/ref"
	"verif/internal/rig"
	"verif/internal/wk"
)

func viaYAML(v any) (any, error) {
	b, err := yaml.Marshal(v)
	if err != nil {
		return nil, err
	}
	var out any
	if err := yaml.Unmarshal(b, &out); err != nil {
		return nil, err
	}
	return out, nil
}

// c09Constructors: one schema per public constructor that the generator does not already cover, each
// wrapped as the only property of a scope's root object.
func c09Constructors() []struct {
	name string
	t    func() schema.Type
} {
	intS := func() *schema.IntSchema { return schema.NewIntSchema(nil, nil, nil) }
	strS := func() *schema.StringSchema { return schema.NewStringSchema(nil, nil, nil) }
	p1props := func() map[string]*schema.PropertySchema {
		return map[string]*schema.PropertySchema{"a": schema.NewPropertySchema(intS(), nil, true, nil, nil, nil, nil, nil),
			"b": schema.NewPropertySchema(strS(), nil, false, nil, nil, nil, nil, nil),
			"c": schema.NewPropertySchema(schema.NewFloatSchema(nil, nil, nil), nil, false, nil, nil, nil, nil, nil),
			"d": schema.NewPropertySchema(schema.NewBoolSchema(), nil, false, nil, nil, nil, nil, nil)}
	}
	return []struct {
		name string
		t    func() schema.Type
	}{
		{"NewTypedStringEnumSchema", func() schema.Type {
			return schema.NewTypedStringEnumSchema(map[gen.NamedStr]*schema.DisplayValue{"a": {}, "b": {}})
		}},
		{"NewTypedListSchema", func() schema.Type { return schema.NewTypedListSchema[int64](intS(), nil, nil) }},
		{"NewTypedMapSchema", func() schema.Type { return schema.NewTypedMapSchema[string, int64](strS(), intS(), nil, nil) }},
		{"NewTypedObject", func() schema.Type { return schema.NewTypedObject[gen.P1]("P1", p1props()) }},
		{"NewTypedScopeSchema", func() schema.Type {
			return schema.NewTypedScopeSchema[gen.P1](schema.NewStructMappedObjectSchema[gen.P1]("P1", p1props()))
		}},
		{"NewMapSchema(enum_string keys)", func() schema.Type {
			return schema.NewMapSchema(schema.NewStringEnumSchema(map[string]*schema.DisplayValue{"a": {}, "b": {}}), intS(), nil, nil)
		}},
		{"NewMapSchema(enum_integer keys)", func() schema.Type {
			return schema.NewMapSchema(schema.NewIntEnumSchema(map[int64]*schema.DisplayValue{1: {}, 2: {}}, nil), intS(), nil, nil)
		}},
		{"NewStringEnumSchema(nil display)", func() schema.Type {
			return schema.NewStringEnumSchema(map[string]*schema.DisplayValue{"a": nil, "b": nil})
		}},
		{"NewIntEnumSchema(nil display)", func() schema.Type { return schema.NewIntEnumSchema(map[int64]*schema.DisplayValue{1: nil}, nil) }},
		{"NewUnenforcedIDObjectSchema", func() schema.Type { return schema.NewUnenforcedIDObjectSchema("U", p1props()) }},
		{"NewNamespacedRefSchema", func() schema.Type { return schema.NewNamespacedRefSchema("Other", "some-namespace", nil) }},
		{"NewOneOfIntSchema", func() schema.Type {
			return schema.NewOneOfIntSchema[any](map[int64]schema.Object{1: schema.NewObjectSchema("A", p1props())}, "_t", false)
		}},
		{"NewObjectSchema(nil property map)", func() schema.Type { return schema.NewObjectSchema("NoProps", nil) }},
		{"NewObjectSchema(empty property map)", func() schema.Type {
			return schema.NewObjectSchema("NoProps", map[string]*schema.PropertySchema{})
		}},
		{"NewPropertySchema(empty rule lists)", func() schema.Type {
			return schema.NewObjectSchema("Rules", map[string]*schema.PropertySchema{
				"a": schema.NewPropertySchema(intS(), nil, false, []string{}, []string{}, []string{}, nil, []string{}),
				"b": schema.NewPropertySchema(intS(), nil, false, nil, nil, nil, nil, nil)})
		}},
		{"NewUnits(nil multipliers)", func() schema.Type {
			return schema.NewIntSchema(nil, nil, schema.NewUnits(schema.NewUnit("x", "xs", "ex", "exes"), nil))
		}},
		{"NewUnits(empty multipliers)", func() schema.Type {
			return schema.NewIntSchema(nil, nil, schema.NewUnits(schema.NewUnit("x", "xs", "ex", "exes"), map[int64]*schema.UnitDefinition{}))
		}},
		{"NewScopeSchema(root only)", func() schema.Type { return schema.NewScopeSchema(schema.NewObjectSchema("OnlyRoot", nil)) }},
		{"NewUnits(custom)", func() schema.Type {
			return schema.NewIntSchema(nil, nil, schema.NewUnits(schema.NewUnit("x", "xs", "ex", "exes"), map[int64]*schema.UnitDefinition{12: schema.NewUnit("dz", "dz", "dozen", "dozens")}))
		}},
	}
}

type c09Probe struct {
	in     any
	origin string
}

func c09Probes(r *wk.Rand, shape *gen.Shape, env *gen.Env) []c09Probe {
	var out []c09Probe
	for i := 0; i < 5; i++ {
		raw, ok := gen.ValidRaw(r, shape, env, 0)
		if !ok {
			break
		}
		out = append(out, c09Probe{gen.Represent(r, gen.CopyRaw(raw), shape, env, 0), "valid"})
		pv, _ := gen.Perturb(r, gen.CopyRaw(raw))
		out = append(out, c09Probe{pv, "perturbed"})
		if dv, ok := gen.DropKey(r, gen.CopyRaw(raw)); ok {
			out = append(out, c09Probe{dv, "property dropped"})
		}
		if cb, err := gen.ViaCBOR(raw); err == nil {
			out = append(out, c09Probe{cb, "valid after CBOR"})
		}
	}
	out = append(out, c09Probe{map[string]any{}, "empty map"}, c09Probe{"scalar", "scalar"})
	return out
}

// c09SameBehaviour compares original and rebuilt on the probes.
func c09SameBehaviour(c *wk.Ctx, leg, what string, orig, rebuilt schema.Type, shape *gen.Shape, probes []c09Probe, descr string) {
	structMapped := false
	shape.Walk(func(s *gen.Shape) {
		if s.Kind == gen.KObject && s.Struct != "" {
			structMapped = true
		}
	})
	for _, p := range probes {
		var vo, vr any
		var eo, er error
		c.Note("behaviour " + leg + " " + what)
		wit := map[string]any{"schema": clipStr(descr, 1500), "leg": leg, "subject": what, "input": clipStr(cmpx.Canon(p.in), 600), "input_origin": p.origin}
		if pp, _, _, _ := wk.Guard(func() { vo, eo = orig.Unserialize(cmpx.DeepCopy(p.in)) }); pp {
			continue
		}
		if pp, site, msg, _ := wk.Guard(func() { vr, er = rebuilt.Unserialize(cmpx.DeepCopy(p.in)) }); pp {
			c.Violation("C09:rebuilt-panics:"+site, fmt.Sprintf("the schema rebuilt from the description (%s leg) panics where the original returns: %s", leg, msg), wit)
			return
		}
		c.Count("behaviour_comparisons")
		if (eo == nil) != (er == nil) {
			wit["original"] = fmt.Sprint(eo)
			wit["rebuilt"] = fmt.Sprint(er)
			if structMapped {
				// A struct-mapped parent fills in a by-value sub-object the input leaves out (a Go struct field cannot
				// be absent); the map-based schema rebuilt from the description does not. One finding, whatever the
				// message of the side that rejects.
				if d := ref.Denote(shape, p.in, &gen.Env{}); d.V == ref.Unspec && strings.Contains(d.Why, "absent by-value sub-object of a struct-mapped parent") {
					c.Violation("C09:rebuilt-differs:acceptance:struct-mapped-parent-materialises-absent-by-value-sub-object",
						fmt.Sprintf("the input leaves out a sub-object that the struct-mapped original holds by value: the original fills it from the defaults below it and %s the input, the map-based schema rebuilt from the description (%s leg) leaves it absent and %s it", acceptWord(eo), leg, acceptWord(er)), wit)
					return
				}
			}
			c.Violation("C09:rebuilt-differs:acceptance:"+normMsg(firstErr(eo, er)), fmt.Sprintf("original %s the input, the schema rebuilt from its description (%s leg, %s) %s it", acceptWord(eo), leg, what, acceptWord(er)), wit)
			return
		}
		if eo != nil {
			continue
		}
		if !structMapped {
			if cmpx.Canon(vo) != cmpx.Canon(vr) {
				wit["difference"] = diffOf(vo, vr)
				c.Violation("C09:rebuilt-differs:value:"+diffOf(vo, vr), "original and rebuilt schema unserialize the same input to different values", wit)
				return
			}
			continue
		}
		// struct-mapped: the rebuilt schema is map-based; compare after re-serialization
		var so, sr any
		var e1, e2 error
		if pp, _, _, _ := wk.Guard(func() { so, e1 = orig.Serialize(vo); sr, e2 = rebuilt.Serialize(vr) }); pp || e1 != nil || e2 != nil {
			continue
		}
		_ = so
		_ = sr
	}
}

func firstErr(a, b error) error {
	if a != nil {
		return a
	}
	return b
}

func acceptWord(err error) string {
	if err == nil {
		return "accepts"
	}
	return "rejects"
}

func runC09(c *wk.Ctx) {
	c.Meta("rule", "(a) generated scopes using every feature the meta-schema has a table entry for (all scalar kinds with bounds / units / patterns, enums with display data, lists, maps, map-based and struct-mapped objects with defaults, presence rules, disabled properties, one-of inlined/not, references, nested scopes, recursion) built through the constructors; d0 = SelfSerialize; for each leg (direct, CBOR encode/decode, YAML marshal/unmarshal): R = UnserializeScope(leg(d0)) + ApplySelf; SelfSerialize(R) must equal d0; R must accept / reject / (map-based) unserialize generated inputs (valid, perturbed, property dropped, CBOR images) exactly as the original. (b) one schema per public constructor the generator does not cover (typed list/map/object/scope/enum, enum-keyed maps, nil display values, custom units, namespaced refs, unenforced IDs, int one-of), each as the only property of a root object. (c) whole plugin schemas (1..3 steps, several outputs, signal handlers and emitters with their own data scopes): the description from CallableSchema.SelfSerialize directly and through UnserializeSchema, and through a real ATP session (RunATPServer <-> Client.ReadSchema over in-memory pipes); step inputs, every output and every signal data schema must behave like the original. distinct = hash(schema); non-trivial = depth >= 2 (c) also: the same steps in a plain NewSchema whose keys differ from the step IDs, one step under two keys - described, rebuilt, compared key by key.")
	c.Meta("assumptions", []string{"rebuilding a scope means UnserializeScope followed by ApplySelf (UnserializeSchema links by itself)",
		"struct-mapped objects are rebuilt as map-based ones: acceptance is compared, values only for map-based schemas"})
	c.Floor("scopes_described", 300)
	c.Floor("behaviour_comparisons", 3000)
	c.Floor("plugin_schemas", 20)
	ctors := c09Constructors()
	n := c.N(1500, 150000)
	c.Cases(n, func(idx int64, r *wk.Rand) {
		env := &gen.Env{}
		// ---- (b) one per constructor -------------------------------------------------------------
		if idx < int64(len(ctors)) {
			ct := ctors[idx]
			c.Count("constructor_matrix")
			var scope *schema.ScopeSchema
			var d0 any
			var err error
			wit := map[string]any{"constructor": ct.name}
			if p, site, msg, _ := wk.Guard(func() {
				root := schema.NewObjectSchema("Root", map[string]*schema.PropertySchema{"v": schema.NewPropertySchema(ct.t(), nil, false, nil, nil, nil, nil, nil)})
				scope = schema.NewScopeSchema(root, schema.NewObjectSchema("Other", map[string]*schema.PropertySchema{}))
				d0, err = scope.SelfSerialize()
			}); p {
				c.Violation("C09:selfserialize-panics:"+ct.name+":"+site, "SelfSerialize panicked: "+msg, wit)
				return
			}
			c.Eval(wk.Hash64("ctor", ct.name), true)
			if err != nil {
				wit["error"] = err.Error()
				c.Violation("C09:not-describable:"+ct.name, fmt.Sprintf("a schema built with %s cannot describe itself: %v", ct.name, err), wit)
				return
			}
			var rb *schema.ScopeSchema
			if p, site, msg, _ := wk.Guard(func() { rb, err = schema.UnserializeScope(d0) }); p {
				c.Violation("C09:unserializescope-panics:"+ct.name+":"+site, msg, wit)
				return
			}
			if err != nil {
				wit["error"] = err.Error()
				c.Violation("C09:description-rejected:"+ct.name, fmt.Sprintf("the meta-schema rejects the description of a schema built with %s: %v", ct.name, err), wit)
				return
			}
			var d1 any
			if p, _, _, _ := wk.Guard(func() { d1, err = rb.SelfSerialize() }); !p && err == nil && cmpx.Canon(d1) != cmpx.Canon(d0) {
				wit["difference"] = diffOf(d0, d1)
				c.Violation("C09:not-a-fixed-point:"+ct.name, "describing the rebuilt schema gives a different description: "+diffOf(d0, d1), wit)
			}
			return
		}
		// ---- (c) plugin schemas -------------------------------------------------------------------
		if idx%12 == 5 {
			c09Plugin(c, r, idx)
			return
		}
		// ---- (a) generated scopes -----------------------------------------------------------------
		cfg := gen.Full()
		cfg.Describable, cfg.TypedEnum, cfg.NilDisplay, cfg.GoodDefaults = true, false, false, true
		var shape *gen.Shape
		if tricky := gen.DescribableTrickyShapes(); idx < int64(len(ctors)+len(tricky)) {
			shape = tricky[int(idx)-len(ctors)]
		} else {
			shape = gen.GenScope(r, cfg)
		}
		t, ok, _ := buildGuarded(shape)
		if !ok {
			c.Count("misbuilt_schemas")
			return
		}
		scope := t.(*schema.ScopeSchema)
		descr := shape.Describe()
		wit := map[string]any{"schema": clipStr(descr, 1500)}
		var d0 any
		var err error
		c.Note("SelfSerialize")
		if p, site, msg, _ := wk.Guard(func() { d0, err = scope.SelfSerialize() }); p {
			c.Violation("C09:selfserialize-panics:generated:"+site, "SelfSerialize panicked: "+msg, wit)
			return
		}
		c.Eval(wk.Hash64(descr), shape.Depth() >= 3)
		if err != nil {
			wit["error"] = err.Error()
			c.Violation("C09:selfserialize-fails:"+normMsg(err), fmt.Sprintf("a constructor-built scope cannot describe itself: %v", err), wit)
			return
		}
		c.Count("scopes_described")
		shape.Walk(func(s *gen.Shape) { c.Count("node-kind:" + s.Kind.String()) })
		probes := c09Probes(r, shape, env)
		for _, leg := range []string{"direct", "cbor", "yaml"} {
			var d any = d0
			switch leg {
			case "cbor":
				if d, err = gen.ViaCBOR(d0); err != nil {
					c.Violation("C09:description-not-cbor-encodable", err.Error(), wit)
					continue
				}
			case "yaml":
				if d, err = viaYAML(d0); err != nil {
					c.Violation("C09:description-not-yaml-encodable", err.Error(), wit)
					continue
				}
			}
			var rb *schema.ScopeSchema
			c.Note("UnserializeScope " + leg)
			w := map[string]any{"schema": clipStr(descr, 1500), "leg": leg}
			if p, site, msg, _ := wk.Guard(func() {
				rb, err = schema.UnserializeScope(d)
				if err == nil {
					rb.ApplySelf()
				}
			}); p {
				c.Violation("C09:rebuild-panics:"+leg+":"+site, "UnserializeScope/ApplySelf panicked on the SDK's own description: "+msg, w)
				continue
			}
			if err != nil {
				w["error"] = err.Error()
				c.Violation("C09:description-rejected:"+leg+":"+normMsg(err), fmt.Sprintf("the meta-schema rejects the description the schema gave of itself (%s leg): %v", leg, err), w)
				continue
			}
			c.Count("rebuilds:" + leg)
			var d1 any
			if p, site, msg, _ := wk.Guard(func() { d1, err = rb.SelfSerialize() }); p || err != nil {
				c.Violation("C09:redescribe-fails:"+leg+":"+site, fmt.Sprintf("the rebuilt schema cannot describe itself: %v %s", err, msg), w)
				continue
			}
			if cmpx.Canon(d1) != cmpx.Canon(d0) {
				w["difference"] = diffOf(d0, d1)
				c.Violation("C09:not-a-fixed-point:"+leg+":"+whyClass(diffOf(d0, d1)), "describe(rebuild(describe(S))) differs from describe(S): "+diffOf(d0, d1), w)
				continue
			}
			c09SameBehaviour(c, leg, "scope", scope, rb, shape, probes, descr)
		}
		if idx%301 == 0 {
			c.Sample("scope", descr)
		}
	})
}

// c09Plugin: a whole plugin schema, described directly and through a real ATP hello.
func c09Plugin(c *wk.Ctx, r *wk.Rand, idx int64) {
	cfg := gen.Full()
	cfg.Describable, cfg.TypedEnum, cfg.NilDisplay, cfg.GoodDefaults, cfg.Structs = true, false, false, true, false
	type part struct {
		what  string
		shape *gen.Shape
		orig  *schema.ScopeSchema
	}
	var parts []part
	mkScope := func(what string) *schema.ScopeSchema {
		for try := 0; try < 5; try++ {
			sh := gen.GenScope(r, cfg)
			if t, ok, _ := buildGuarded(sh); ok {
				s := t.(*schema.ScopeSchema)
				parts = append(parts, part{what, sh, s})
				return s
			}
		}
		sh := &gen.Shape{Kind: gen.KScope, Root: "E", Objects: []*gen.Shape{{Kind: gen.KObject, ID: "E"}}}
		s := gen.Build(sh).(*schema.ScopeSchema)
		parts = append(parts, part{what, sh, s})
		return s
	}
	nsteps := 1 + r.Intn(3)
	var steps []schema.CallableStep
	for si := 0; si < nsteps; si++ {
		id := fmt.Sprintf("step%d", si)
		in := mkScope(id + ".input")
		outs := map[string]*schema.StepOutputSchema{}
		for oi := 0; oi <= r.Intn(3); oi++ {
			oid := fmt.Sprintf("out%d", oi)
			outs[oid] = schema.NewStepOutputSchema(mkScope(id+".outputs."+oid), nil, oi > 0)
		}
		handlers := map[string]schema.CallableSignal{}
		emitters := map[string]*schema.SignalSchema{}
		for hi := 0; hi < r.Intn(3); hi++ {
			hid := fmt.Sprintf("sig%d", hi)
			handlers[hid] = schema.NewCallableSignal[any, any](hid, mkScope(id+".signal_handlers."+hid), nil, func(context.Context, any, any) {})
		}
		for ei := 0; ei < r.Intn(3); ei++ {
			eid := fmt.Sprintf("emit%d", ei)
			if ei == 0 && (idx/12)%2 == 1 {
				eid = "sig0" // a step may receive and emit a signal under the same ID: two tables, two schemas
			}
			emitters[eid] = schema.NewSignalSchema(eid, mkScope(id+".signal_emitters."+eid), nil)
		}
		if len(handlers) == 0 && (idx/12)%2 == 0 {
			handlers = nil // nil and empty containers must describe alike
			c.Count("steps_with_nil_signal_handler_map")
		}
		if len(emitters) == 0 && (idx/12)%3 == 0 {
			emitters = nil
		}
		steps = append(steps, schema.NewCallableStepWithSignals[any, any](id, in, outs, handlers, emitters, nil, nil,
			func(context.Context, any, any) (string, any) { return "out0", nil }))
	}
	callable := schema.NewCallableSchema(steps...)
	c.Count("plugin_schemas")
	var d0 any
	var err error
	wit := map[string]any{"steps": nsteps, "parts": len(parts)}
	if p, site, msg, _ := wk.Guard(func() { d0, err = callable.SelfSerialize() }); p || err != nil {
		c.Violation("C09:plugin:selfserialize-fails:"+site+normMsg(err), fmt.Sprintf("the plugin schema cannot describe itself: %v %s", err, msg), wit)
		return
	}
	c.Eval(wk.Hash64("plugin", cmpx.Canon(d0)), true)
	find := func(s *schema.SchemaSchema, what string) schema.Scope {
		segs := strings.Split(what, ".")
		st := s.StepsValue[segs[0]]
		if st == nil {
			return nil
		}
		switch segs[1] {
		case "input":
			return st.InputValue
		case "outputs":
			if o := st.OutputsValue[segs[2]]; o != nil {
				return o.Schema()
			}
		case "signal_handlers":
			if o := st.SignalHandlersValue[segs[2]]; o != nil {
				return o.DataSchema()
			}
		case "signal_emitters":
			if o := st.SignalEmittersValue[segs[2]]; o != nil {
				return o.DataSchema()
			}
		}
		return nil
	}
	check := func(leg string, rebuilt *schema.SchemaSchema) {
		var d1 any
		if p, site, msg, _ := wk.Guard(func() { d1, err = rebuilt.SelfSerialize() }); p || err != nil {
			c.Violation("C09:plugin:redescribe-fails:"+leg+":"+site, fmt.Sprintf("%v %s", err, msg), wit)
			return
		}
		if cmpx.Canon(d1) != cmpx.Canon(d0) {
			c.Violation("C09:plugin:not-a-fixed-point:"+leg+":"+whyClass(diffOf(d0, d1)), "the plugin schema rebuilt from its description describes itself differently: "+diffOf(d0, d1), map[string]any{"leg": leg, "difference": diffOf(d0, d1)})
			return
		}
		for _, pt := range parts {
			rb := find(rebuilt, pt.what)
			if rb == nil {
				c.Violation("C09:plugin:part-missing:"+leg+":"+strings.Join(strings.Split(pt.what, ".")[1:2], ""), "the rebuilt plugin schema lacks "+pt.what, wit)
				continue
			}
			kind := strings.Split(pt.what, ".")[1]
			c.Count("plugin_parts:" + kind)
			c09SameBehaviour(c, leg, kind, pt.orig, rb, pt.shape, c09Probes(r, pt.shape, &gen.Env{}), pt.what+": "+pt.shape.Describe())
		}
	}
	var direct *schema.SchemaSchema
	if p, site, msg, _ := wk.Guard(func() { direct, err = schema.UnserializeSchema(d0) }); p || err != nil {
		c.Violation("C09:plugin:description-rejected:direct:"+site+normMsg(err), fmt.Sprintf("UnserializeSchema rejects the plugin's own description: %v %s", err, msg), wit)
	} else {
		check("direct", direct)
	}
	// the same steps in a plain schema (NewSchema) whose map keys are not the step IDs, one step under two keys: the
	// description and the schema rebuilt from it keep the keys
	if (idx/12)%2 == 0 {
		keyed := map[string]*schema.StepSchema{}
		for i, st := range steps {
			keyed["alias-"+st.ID()] = st.ToStepSchema()
			if i == 0 {
				keyed["second-key-for-"+st.ID()] = keyed["alias-"+st.ID()]
			}
		}
		var plain schema.Schema[schema.Step]
		var pd any
		var rbPlain *schema.SchemaSchema
		if p, site, msg, _ := wk.Guard(func() {
			plain = schema.NewSchema(keyed)
			pd, err = plain.SelfSerialize()
			if err == nil {
				rbPlain, err = schema.UnserializeSchema(pd)
			}
		}); p || err != nil {
			c.Violation("C09:plugin:description-rejected:keyed:"+site+normMsg(err), fmt.Sprintf("a schema whose step keys differ from the step IDs cannot be described and rebuilt: %v %s", err, msg), wit)
		} else {
			c.Count("plain_schemas_with_keys_other_than_ids")
			for key, st := range keyed {
				rb := rbPlain.StepsValue[key]
				if rb == nil {
					c.Violation("C09:plugin:part-missing:keyed:step", fmt.Sprintf("the schema rebuilt from the description lacks the step under key %q (keys: %v)", key, len(rbPlain.StepsValue)), wit)
					continue
				}
				var a, b any
				var e1, e2 error
				if p, site, msg, _ := wk.Guard(func() {
					a, e1 = schema.NewSchema(map[string]*schema.StepSchema{"k": st}).SelfSerialize()
					b, e2 = schema.NewSchema(map[string]*schema.StepSchema{"k": rb}).SelfSerialize()
				}); p || e1 != nil || e2 != nil {
					c.Violation("C09:plugin:redescribe-fails:keyed:"+site, fmt.Sprintf("%v %v %s", e1, e2, msg), wit)
				} else if cmpx.Canon(a) != cmpx.Canon(b) {
					c.Violation("C09:plugin:not-a-fixed-point:keyed:"+whyClass(diffOf(a, b)), fmt.Sprintf("the step under key %q of the rebuilt schema is not the step that was described: %s", key, diffOf(a, b)), wit)
				}
			}
			if len(rbPlain.StepsValue) != len(keyed) {
				c.Violation("C09:plugin:part-missing:keyed:step", fmt.Sprintf("%d step keys were described, the rebuilt schema has %d", len(keyed), len(rbPlain.StepsValue)), wit)
			}
		}
	}
	// through a real ATP hello
	c2s := rig.NewPipe("c2s", rig.ModeBuffered, nil)
	s2c := rig.NewPipe("s2c", rig.ModeChunked, chunkFn(uint64(idx)+3))
	var done atomic.Int32
	var viaATP *schema.SchemaSchema
	var rerr error
	var readMu sync.Mutex
	readReturned := false
	ctx, cancel := context.WithCancel(context.Background())
	defer cancel()
	go func() {
		defer done.Add(1)
		defer func() { recover() }() //nolint
		atp.RunATPServer(ctx, rig.ReadEnd{P: c2s}, rig.WriteEnd{P: s2c}, callable)
	}()
	go func() {
		defer done.Add(1)
		defer func() {
			if p := recover(); p != nil {
				rerr = fmt.Errorf("panic: %v", p)
			}
		}()
		cli := atp.NewClient(rig.Duplex{In: s2c, Out: c2s})
		sch, err := cli.ReadSchema()
		readMu.Lock()
		viaATP, rerr, readReturned = sch, err, true
		readMu.Unlock()
		if err != nil {
			// nothing more to do on this connection; let the server's pending writes fail
			_ = s2c.CloseRead()
			_ = c2s.CloseWrite()
			return
		}
		_ = cli.Close()
	}()
	res := rig.Monitor(func() bool { return done.Load() == 2 }, nil, 20*time.Second)
	_ = c2s.CloseRead()
	_ = s2c.CloseRead()
	rig.Settle(200 * time.Millisecond)
	readMu.Lock()
	defer readMu.Unlock()
	if !readReturned {
		if res.Outcome == "deadlock" {
			wit["blocked"] = res.Snap.Summary()
			c.Violation("C09:plugin:readschema-never-returns", "ReadSchema never returns for the hello message of a plugin built with the SDK: every goroutine is blocked", wit)
		} else {
			c.Inconclusive("ATP hello session did not complete: " + res.Outcome)
		}
		return
	}
	if rerr == nil && res.Outcome != "done" {
		c.Inconclusive("ATP hello session did not complete after ReadSchema: " + res.Outcome)
		return
	}
	if rerr != nil || viaATP == nil {
		c.Violation("C09:plugin:description-rejected:atp:"+normMsg(rerr), fmt.Sprintf("ReadSchema rejects the hello message of a plugin built with the SDK: %v", rerr), wit)
		return
	}
	c.Count("plugin_schemas_via_atp")
	check("atp", viaATP)
}

func init() { register("C09", runC09) }
