package props

import (
	"fmt"
	"sort"
	"strings"

	"go.flow.arcalot.io/pluginsdk/schema"

	"verif/internal/cmpx"
	"verif/internal/gen"
	"verif/internal/ref"
	"verif/internal/wk"
)

// collectRefs enumerates every reference of a built schema through the public accessors.
func collectRefs(t any, seen map[any]bool, out *[]*schema.RefSchema) {
	if t == nil || seen[t] {
		return
	}
	switch x := t.(type) {
	case *schema.RefSchema:
		seen[t] = true
		*out = append(*out, x)
	case *schema.ScopeSchema:
		seen[t] = true
		ids := make([]string, 0, len(x.Objects()))
		for id := range x.Objects() {
			ids = append(ids, id)
		}
		sort.Strings(ids)
		for _, id := range ids {
			collectRefs(x.Objects()[id], seen, out)
		}
	case *schema.ObjectSchema:
		seen[t] = true
		names := make([]string, 0, len(x.Properties()))
		for n := range x.Properties() {
			names = append(names, n)
		}
		sort.Strings(names)
		for _, n := range names {
			collectRefs(x.Properties()[n].Type(), seen, out)
		}
	case *schema.ListSchema:
		collectRefs(x.Items(), seen, out)
	case *schema.MapSchema[schema.Type, schema.Type]:
		collectRefs(x.Keys(), seen, out)
		collectRefs(x.Values(), seen, out)
	case *schema.OneOfSchema[string]:
		for _, m := range x.Types() {
			collectRefs(m, seen, out)
		}
	case *schema.OneOfSchema[int64]:
		for _, m := range x.Types() {
			collectRefs(m, seen, out)
		}
	}
}

func refsOf(t schema.Type) []*schema.RefSchema {
	var out []*schema.RefSchema
	collectRefs(t, map[any]bool{}, &out)
	return out
}

func permutations(xs []string) [][]string {
	if len(xs) <= 1 {
		return [][]string{append([]string{}, xs...)}
	}
	var out [][]string
	for i := range xs {
		rest := append(append([]string{}, xs[:i]...), xs[i+1:]...)
		for _, p := range permutations(rest) {
			out = append(out, append([]string{xs[i]}, p...))
		}
	}
	return out
}

// deepRecursive builds a finite input of nesting depth d for three of the tricky recursive shapes.
func deepRecursive(which string, d int) any {
	switch which {
	case "N": // N{v: int, next: ref N}
		var cur map[string]any
		for i := 0; i < d; i++ {
			n := map[string]any{"v": int64(i)}
			if cur != nil {
				n["next"] = cur
			}
			cur = n
		}
		return cur
	case "Tree":
		var cur any = map[string]any{"value": "leaf"}
		for i := 0; i < d; i++ {
			if i%2 == 0 {
				cur = map[string]any{"value": fmt.Sprint(i), "children": []any{cur, map[string]any{"value": "sibling"}}}
			} else {
				cur = map[string]any{"index": map[any]any{"k": cur}}
			}
		}
		return cur
	default: // Expr{e: one_of{lit: Lit{v}, neg: Expr}}
		var cur any = map[string]any{"e": map[string]any{"_type": "lit", "v": int64(1)}}
		for i := 0; i < d; i++ {
			inner := cur.(map[string]any)
			neg := map[string]any{"_type": "neg"}
			for k, v := range inner {
				neg[k] = v
			}
			cur = map[string]any{"e": neg}
		}
		return cur
	}
}

// c14NamespaceCycles: reference cycles that exist only across namespaces (a scope linked to itself under a second
// name; two sibling scopes that refer to each other; three in a ring). Once every namespace is applied, every
// reference must be ready, ValidateReferences must say so (and return), and finite inputs must unserialize.
func c14NamespaceCycles(c *wk.Ctx) {
	prop := func(t schema.Type) *schema.PropertySchema {
		return schema.NewPropertySchema(t, nil, false, nil, nil, nil, nil, nil)
	}
	intT := func() schema.Type { return schema.NewIntSchema(nil, nil, nil) }
	type built struct {
		scopes []*schema.ScopeSchema
		inputs []any
	}
	cases := map[string]func() built{
		"one scope under a second name": func() built {
			s := schema.NewScopeSchema(schema.NewObjectSchema("Node", map[string]*schema.PropertySchema{"v": prop(intT()), "next": prop(schema.NewNamespacedRefSchema("Node", "nodes", nil))}))
			s.ApplyNamespace(s.Objects(), "nodes")
			return built{[]*schema.ScopeSchema{s}, []any{map[string]any{"v": int64(1)}, map[string]any{"v": int64(1), "next": map[string]any{"v": int64(2), "next": map[string]any{}}}}}
		},
		"two sibling scopes": func() built {
			folder := schema.NewScopeSchema(schema.NewObjectSchema("Folder", map[string]*schema.PropertySchema{"n": prop(intT()),
				"files": prop(schema.NewListSchema(schema.NewNamespacedRefSchema("File", "files", nil), nil, nil))}))
			file := schema.NewScopeSchema(schema.NewObjectSchema("File", map[string]*schema.PropertySchema{"n": prop(intT()),
				"parent": prop(schema.NewNamespacedRefSchema("Folder", "fs", nil))}))
			folder.ApplyNamespace(file.Objects(), "files")
			file.ApplyNamespace(folder.Objects(), "fs")
			return built{[]*schema.ScopeSchema{folder, file}, []any{map[string]any{"n": int64(1)}, map[string]any{"n": int64(1), "files": []any{map[string]any{"n": int64(2), "parent": map[string]any{"n": int64(3)}}}}}}
		},
		"three scopes in a ring": func() built {
			mk := func(id, next, ns string) *schema.ScopeSchema {
				return schema.NewScopeSchema(schema.NewObjectSchema(id, map[string]*schema.PropertySchema{"n": prop(intT()), "to": prop(schema.NewNamespacedRefSchema(next, ns, nil))}))
			}
			a, b, cc := mk("A", "B", "nb"), mk("B", "C", "nc"), mk("C", "A", "na")
			a.ApplyNamespace(b.Objects(), "nb")
			b.ApplyNamespace(cc.Objects(), "nc")
			cc.ApplyNamespace(a.Objects(), "na")
			return built{[]*schema.ScopeSchema{a, b, cc}, []any{map[string]any{"n": int64(1), "to": map[string]any{"n": int64(2), "to": map[string]any{"n": int64(3), "to": map[string]any{"n": int64(4)}}}}}}
		},
	}
	for _, name := range sortedKeys(cases) {
		var b built
		c.Note("namespace cycle: build " + name)
		if p, site, msg, _ := wk.Guard(func() { b = cases[name]() }); p {
			c.Violation("C14:panic:ApplyNamespace:"+site, "linking scopes that refer to each other across namespaces panicked ("+name+"): "+msg, map[string]any{"scopes": name})
			continue
		}
		c.Count("namespace_cycles")
		for si, s := range b.scopes {
			wit := map[string]any{"scopes": name, "scope": si}
			for _, rf := range refsOf(s) {
				c.Count("reference_state_checks")
				if !rf.ObjectReady() {
					c.Violation("C14:link-state:namespace cycle", fmt.Sprintf("reference %s@%q is not linked although its namespace was applied", rf.ID(), rf.Namespace()), wit)
				}
			}
			var verr error
			c.Note("namespace cycle: ValidateReferences " + name)
			if p, site, msg, _ := wk.Guard(func() { verr = s.ValidateReferences() }); p {
				c.Violation("C14:panic:ValidateReferences:"+site, msg, wit)
			} else if verr != nil {
				c.Violation("C14:validate-references-disagrees:ready=true", fmt.Sprintf("every reference is linked but ValidateReferences()=%v", verr), wit)
			}
			if si > 0 {
				continue
			}
			for _, in := range b.inputs {
				c.Note("namespace cycle: Unserialize " + name)
				c.Count("recursive_inputs")
				c.Eval(wk.Hash64("namespace-cycle", name, cmpx.Canon(in)), true)
				var err error
				if p, site, msg, _ := wk.Guard(func() { _, err = s.Unserialize(cmpx.DeepCopy(in)) }); p {
					c.Violation("C14:panic:Unserialize:"+site, "Unserialize panicked on a finite input of scopes linked in a cycle: "+msg, wit)
				} else if err != nil {
					wit["input"] = cmpx.Canon(in)
					c.Violation("C14:rejected-must-accept:namespace cycle", fmt.Sprintf("a finite valid input of scopes that refer to each other across namespaces is rejected: %v", err), wit)
				}
			}
		}
	}
}

// c14NamespacedMembers: a one-of whose members are references into OTHER namespaces, given directly. Building the
// scope links only the self namespace and must leave those members alone; the namespaces are then applied in both
// orders. Once all are applied the one-of behaves like the same one-of over the objects themselves; a target that
// contradicts the inlining flag is refused when its namespace arrives, as the constructors refuse the inlined tree.
func c14NamespacedMembers(c *wk.Ctx) {
	prop := func(t schema.Type) *schema.PropertySchema {
		return schema.NewPropertySchema(t, nil, false, nil, nil, nil, nil, nil)
	}
	intT := func() schema.Type { return schema.NewIntSchema(nil, nil, nil) }
	strT := func() schema.Type { return schema.NewStringSchema(nil, nil, nil) }
	thing := func(bad bool) *schema.ObjectSchema {
		props := map[string]*schema.PropertySchema{"x": prop(intT())}
		if bad {
			props["_type"] = prop(strT()) // contradicts "discriminator not inlined"
		}
		return schema.NewObjectSchema("Thing", props)
	}
	other := func() *schema.ObjectSchema {
		return schema.NewObjectSchema("Other", map[string]*schema.PropertySchema{"y": prop(strT())})
	}
	inputs := []any{
		map[string]any{"p": map[string]any{"_type": "a", "x": int64(1)}},
		map[string]any{"p": map[string]any{"_type": "b", "y": "s"}},
		map[string]any{"p": map[string]any{"_type": "b", "x": int64(1)}},
		map[string]any{"p": map[string]any{"_type": "c"}},
		map[string]any{}}
	for _, bad := range []bool{false, true} {
		// the comparison tree: the objects themselves as members
		var inlined schema.Type
		inlinedRefused, _, _, _ := wk.Guard(func() {
			inlined = schema.NewScopeSchema(schema.NewObjectSchema("Root", map[string]*schema.PropertySchema{
				"p": prop(schema.NewOneOfStringSchema[any](map[string]schema.Object{"a": thing(bad), "b": other()}, "_type", false))}))
		})
		for _, order := range [][]string{{"things", "others"}, {"others", "things"}} {
			name := fmt.Sprintf("one-of over namespaced references, target contradicts the inlining flag: %v, order %v", bad, order)
			c.Note("namespaced one-of members: build, " + name)
			c.Count("namespaced_member_cases")
			c.Eval(wk.Hash64("namespaced-members", name), true)
			wit := map[string]any{"case": name}
			var s *schema.ScopeSchema
			if p, site, msg, _ := wk.Guard(func() {
				s = schema.NewScopeSchema(schema.NewObjectSchema("Root", map[string]*schema.PropertySchema{
					"p": prop(schema.NewOneOfStringSchema[any](map[string]schema.Object{
						"a": schema.NewNamespacedRefSchema("Thing", "things", nil), "b": schema.NewNamespacedRefSchema("Other", "others", nil)}, "_type", false))}))
			}); p {
				c.Violation("C14:panic:NewScopeSchema:"+site, "a scope whose one-of members are references into other namespaces cannot be built (linking the self namespace touched them): "+msg, wit)
				continue
			}
			refused := false
			for _, ns := range order {
				objs := map[string]*schema.ObjectSchema{"Thing": thing(bad)}
				if ns == "others" {
					objs = map[string]*schema.ObjectSchema{"Other": other()}
				}
				c.Note("namespaced one-of members: apply " + ns + ", " + name)
				if p, _, _, _ := wk.Guard(func() { s.ApplyNamespace(objs, ns) }); p {
					refused = true
					break
				}
			}
			if refused != inlinedRefused {
				c.Violation("C14:refusal-differs-from-inlined:namespaced one-of members", fmt.Sprintf("linking refused: %v, but building the same tree with the objects in place of the references refused: %v", refused, inlinedRefused), wit)
				continue
			}
			if refused {
				continue
			}
			if err := s.ValidateReferences(); err != nil {
				c.Violation("C14:validate-references-disagrees:ready=true", fmt.Sprintf("every namespace is applied but ValidateReferences()=%v", err), wit)
			}
			for _, in := range inputs {
				var a, b any
				var ea, eb error
				c.Note("namespaced one-of members: Unserialize, " + name)
				if p, site, msg, _ := wk.Guard(func() { a, ea = s.Unserialize(cmpx.DeepCopy(in)); b, eb = inlined.Unserialize(cmpx.DeepCopy(in)) }); p {
					c.Violation("C14:panic:Unserialize:"+site, "Unserialize panicked: "+msg, wit)
					continue
				}
				c.Count("recursive_inputs")
				if (ea == nil) != (eb == nil) || (ea == nil && cmpx.Canon(a) != cmpx.Canon(b)) {
					wit["input"] = cmpx.Canon(in)
					c.Violation("C14:differs-from-inlined:namespaced one-of members", fmt.Sprintf("with references: %v %v; with the objects in their place: %v %v", cmpx.Canon(a), ea, cmpx.Canon(b), eb), wit)
				}
			}
		}
	}
}

// c14LinkOrder: rings of 2..3 scopes that refer to each other across namespaces, whose objects have one property (so
// that a non-map value is the shorthand for it) or two, entered through a root property with a non-map default, a map
// default or none. The namespaces are applied in EVERY order on separate instances; what the linked scopes answer
// (value, rejection, refusal to link) must not depend on the order in which they were linked.
func c14LinkOrder(c *wk.Ctx) {
	prop := func(t schema.Type, def *string) *schema.PropertySchema {
		return schema.NewPropertySchema(t, nil, false, nil, nil, nil, def, nil)
	}
	sp := func(x string) *string { return &x }
	defaults := []*string{nil, sp(`"foo"`), sp(`{}`), sp(`5`)}
	inputs := []any{"foo", int64(5), map[string]any{}, map[string]any{"p": map[string]any{"only": map[string]any{"only": map[string]any{}}}},
		map[string]any{"p": "foo"}, map[string]any{"p": map[string]any{"only": "foo"}}, nil, []any{}}
	for ring := 2; ring <= 3; ring++ {
		for single := 0; single < 1<<uint(ring); single++ { // bit i: object i has exactly one property
			for di, def := range defaults {
				ids := []string{"A", "B", "C"}[:ring]
				nss := []string{"na", "nb", "nc"}[:ring]
				build := func(order []string) (outcome []string) {
					scopes := make([]*schema.ScopeSchema, ring)
					for i := 0; i < ring; i++ {
						next := (i + 1) % ring
						props := map[string]*schema.PropertySchema{"only": prop(schema.NewNamespacedRefSchema(ids[next], nss[next], nil), nil)}
						if single&(1<<uint(i)) == 0 {
							props["n"] = prop(schema.NewIntSchema(nil, nil, nil), nil)
						}
						obj := schema.NewObjectSchema(ids[i], props)
						if i == 0 {
							root := schema.NewObjectSchema("Root", map[string]*schema.PropertySchema{"p": prop(schema.NewRefSchema("A", nil), def)})
							scopes[i] = schema.NewScopeSchema(root, obj)
						} else {
							scopes[i] = schema.NewScopeSchema(obj)
						}
					}
					for _, ns := range order {
						for i := 0; i < ring; i++ {
							if nss[(i+1)%ring] == ns {
								c.Note(fmt.Sprintf("link order: ApplyNamespace %s (ring %d, single %b, default %d, order %v)", ns, ring, single, di, order))
								if p, site, _, _ := wk.Guard(func() { scopes[i].ApplyNamespace(scopes[(i+1)%ring].Objects(), ns) }); p {
									outcome = append(outcome, "link "+ns+": refused@"+site)
								}
							}
						}
					}
					if len(outcome) > 0 {
						// a ring that is refused is refused in every order, but which call refuses depends on the order
						return []string{"refused to link"}
					}
					for si, sc := range scopes {
						var verr error
						if p, site, _, _ := wk.Guard(func() { verr = sc.ValidateReferences() }); p {
							outcome = append(outcome, fmt.Sprintf("ValidateReferences[%d]: panic@%s", si, site))
						} else {
							outcome = append(outcome, fmt.Sprintf("ValidateReferences[%d]: %v", si, verr == nil))
						}
						targets := []schema.Type{sc}
						if si == 0 {
							targets = append(targets, sc.Objects()["A"])
						}
						for ti, t := range targets {
							for ii, in := range inputs {
								c.Note(fmt.Sprintf("link order: Unserialize input %d on scope %d/%d (ring %d, single %b, default %d, order %v)", ii, si, ti, ring, single, di, order))
								c.Count("link_order_inputs")
								var v any
								var err error
								p, site, _, _ := wk.Guard(func() { v, err = t.Unserialize(cmpx.DeepCopy(in)) })
								switch {
								case p:
									outcome = append(outcome, fmt.Sprintf("[%d/%d] Unserialize(%s): panic@%s", si, ti, cmpx.Canon(in), site))
								case err != nil:
									outcome = append(outcome, fmt.Sprintf("[%d/%d] Unserialize(%s): error", si, ti, cmpx.Canon(in)))
								default:
									outcome = append(outcome, fmt.Sprintf("[%d/%d] Unserialize(%s): %s", si, ti, cmpx.Canon(in), cmpx.Canon(v)))
								}
							}
						}
					}
					return outcome
				}
				var first []string
				var firstOrder []string
				for _, order := range permutations(nss) {
					got := build(order)
					c.Count("link_orders")
					c.Eval(wk.Hash64("link-order", fmt.Sprint(ring, single, di, order)), true)
					for _, o := range got {
						if strings.Contains(o, "panic@") {
							c.Violation("C14:panic:link-order:"+o[strings.Index(o, "panic@"):], "an operation on scopes linked in a ring panicked: "+o, map[string]any{"ring": ring, "single_property_objects": fmt.Sprintf("%b", single), "default": di, "order": order})
							break
						}
					}
					if first == nil {
						first, firstOrder = got, order
						continue
					}
					if fmt.Sprint(got) != fmt.Sprint(first) {
						diff := ""
						for k := range got {
							if k >= len(first) || got[k] != first[k] {
								diff = got[k]
								if k < len(first) {
									diff += " vs " + first[k]
								}
								break
							}
						}
						c.Violation("C14:depends-on-link-order", fmt.Sprintf("scopes linked in the order %v answer differently from the same scopes linked in the order %v: %s", order, firstOrder, clipStr(diff, 300)),
							map[string]any{"ring": ring, "single_property_objects": fmt.Sprintf("%b", single), "default": di, "order": order, "other_order": firstOrder, "difference": clipStr(diff, 600)})
					}
				}
			}
		}
	}
}

func runC14(c *wk.Ctx) {
	c.Meta("rule", "(a) generated non-recursive scope trees (nested scopes whose object IDs collide with outer ones, references under properties / lists / maps / one-ofs, 0..2 external namespaces, also external objects with the same ID as a local one) built through the constructors; the external namespaces are applied in EVERY order (all permutations) on separate instances; the same tree with every reference replaced by the object the harness' own lexical resolution finds (no references, no namespaces needed) is built as the comparison schema. Inputs: valid by construction, perturbed, with a property dropped. Oracle: identical accept/reject verdicts and equal unserialized values (and the reference interpreter's verdict), for every application order; before, between and after the ApplyNamespace calls ValidateReferences()==nil exactly when every reference enumerated through the public accessors reports ObjectReady(), and applying one namespace leaves the link state and target of references to other namespaces untouched. (b) the same for scopes rebuilt from their own description (UnserializeScope + ApplySelf). (c) recursive and mutually recursive scopes (hand-written shapes) on finite inputs of nesting depth 1..500 and on non-map values. distinct = hash(scope, namespaces, input); non-trivial = the tree has a nested scope or an external namespace (c) also: ValidateReferences()==nil exactly when every reference is ready, on the hand-written recursive scopes (struct-mapped ones included). (d) rings of 2..3 scopes referring to each other across namespaces (objects with one property - the shorthand form - or two; root default non-map / map / none), linked in every order: identical outcomes for 8 inputs on every scope whatever the order.")
	c.Floor("link_orders", 50)
	c.Meta("assumptions", []string{"references directly under a one-of are only generated for the self namespace (the SDK inspects member properties while linking)",
		"external namespace objects contain no references themselves"})
	c.Floor("scopes", 300)
	c.Floor("inputs_compared", 3000)
	c.Floor("reference_state_checks", 500)
	c.Floor("recursive_inputs", 100)
	if c.Mine(0) {
		c.Begin(0, "namespace cycles")
		c14NamespaceCycles(c)
	}
	if c.Mine(2) {
		c.Begin(2, "one-of members that are references into other namespaces")
		c14NamespacedMembers(c)
	}
	if c.Mine(3) {
		c.Begin(3, "rings of scopes linked in every order")
		c14LinkOrder(c)
	}
	if c.Mine(1) {
		// default values that lead back to their own property only through a reference into another namespace: such a
		// graph has no finite value for an input that leaves the property out, so linking refuses it - or everything
		// still terminates
		c.Begin(1, "default loops closed by a namespaced reference")
		c04CrossNamespace(c, "C14")
	}
	tricky := gen.TrickyShapes()
	n := c.N(2500, 800000)
	c.Cases(n, func(idx int64, r *wk.Rand) {
		// ---- (c) recursive shapes -----------------------------------------------------
		if idx < int64(3*len(tricky)) {
			shape := tricky[int(idx)%len(tricky)]
			t, ok, bmsg := buildGuarded(shape)
			if !ok {
				c.Violation("C14:hand-written-scope-refused:"+shape.Root, "the constructors refuse a hand-written scope that has finite values: "+bmsg, map[string]any{"schema": shape.Describe()})
				return
			}
			env := &gen.Env{}
			descr := shape.Describe()
			// every reference of these scopes is linked by construction, whatever field type it sits in, and
			// ValidateReferences says so
			if vr, isScope := t.(interface{ ValidateReferences() error }); isScope {
				allReady := true
				for _, rf := range refsOf(t) {
					if !rf.ObjectReady() {
						allReady = false
					}
				}
				var verr error
				c.Count("recursive_scopes_reference_checks")
				if p, site, msg, _ := wk.Guard(func() { verr = vr.ValidateReferences() }); p {
					c.Violation("C14:panic:ValidateReferences:"+site, msg, map[string]any{"schema": descr})
				} else if (verr == nil) != allReady {
					c.Violation(fmt.Sprintf("C14:validate-references-disagrees:ready=%v", allReady), fmt.Sprintf("hand-written recursive scope: ValidateReferences()=%v although all references linked = %v", verr, allReady), map[string]any{"schema": descr})
				}
			}
			var inputs []any
			switch shape.Root {
			case "N":
				for _, d := range []int{1, 2, 5, 50, 500} {
					inputs = append(inputs, deepRecursive("N", d))
				}
			case "Tree":
				for _, d := range []int{1, 2, 7, 60, 500} {
					inputs = append(inputs, deepRecursive("Tree", d))
				}
			case "Expr":
				for _, d := range []int{0, 1, 3, 40, 500} {
					inputs = append(inputs, deepRecursive("Expr", d))
				}
			}
			inputs = append(inputs, "scalar", int64(5), []any{}, nil, map[string]any{})
			for _, in := range inputs {
				c.Count("recursive_inputs")
				c.Eval(wk.Hash64(descr, clipStr(cmpx.Canon(in), 2000)), true)
				if native, acc := judgeUnserialize(c, "C14", t, shape, env, in, descr, "recursive scope, finite input"); acc {
					var verr error
					if p, site, msg, _ := wk.Guard(func() { verr = t.Validate(native) }); p {
						c.Violation("C14:panic:Validate:"+site, "Validate panicked on the unserialized value of a recursive scope: "+msg, map[string]any{"schema": descr})
					} else if verr != nil {
						c.Violation("C14:recursive-validate-rejects", fmt.Sprintf("Validate rejects what Unserialize produced for a recursive scope: %v", verr), map[string]any{"schema": descr, "input": clipStr(cmpx.Canon(in), 500)})
					}
				}
			}
			return
		}
		// ---- (a), (b) -------------------------------------------------------------------
		shape, tables := gen.GenNamespaced(r)
		env := &gen.Env{NS: gen.TablesToNS(tables)}
		inlined, okInl := gen.Inline(shape, env)
		if !okInl {
			c.Count("skipped:unresolvable-reference")
			return
		}
		tInl, ok, inlMsg := buildGuarded(inlined)
		if !ok {
			c.Count("misbuilt_inlined")
			c.Sample("misbuilt_inlined", map[string]any{"why": inlMsg, "inlined": clipStr(inlined.Describe(), 600)})
			return
		}
		var nss []string
		for ns := range tables {
			nss = append(nss, ns)
		}
		sort.Strings(nss)
		descr := shape.Describe()
		nested := false
		for i, x := range shape.Nodes() {
			if i > 0 && x.Kind == gen.KScope {
				nested = true
			}
		}
		c.Count("scopes")
		if nested {
			c.Count("scopes_with_nested_scope")
		}
		if len(nss) > 0 {
			c.Count("scopes_with_external_namespace")
		}
		buildTables := func() map[string]map[string]*schema.ObjectSchema {
			out := map[string]map[string]*schema.ObjectSchema{}
			for ns, objs := range tables {
				m := map[string]*schema.ObjectSchema{}
				for _, o := range objs {
					m[o.ID] = gen.BuildObject(o, gen.BuildOpts{})
				}
				out[ns] = m
			}
			return out
		}
		type inst struct {
			name string
			t    schema.Type
		}
		var insts []inst
		witBase := map[string]any{"schema": clipStr(descr, 1500), "namespaces": nss}
		checkState := func(t schema.Type, applied map[string]bool, when string) bool {
			c.Count("reference_state_checks")
			allReady := true
			for _, rf := range refsOf(t) {
				want := rf.Namespace() == "" || applied[rf.Namespace()]
				if rf.ObjectReady() != want {
					c.Violation("C14:link-state:"+when, fmt.Sprintf("%s: reference %s@%q ObjectReady()=%v, expected %v", when, rf.ID(), rf.Namespace(), rf.ObjectReady(), want), witBase)
					return false
				}
				if !rf.ObjectReady() {
					allReady = false
				}
			}
			var verr error
			if p, site, msg, _ := wk.Guard(func() { verr = t.ValidateReferences() }); p {
				c.Violation("C14:panic:ValidateReferences:"+site, msg, witBase)
				return false
			}
			if (verr == nil) != allReady {
				c.Violation(fmt.Sprintf("C14:validate-references-disagrees:ready=%v", allReady), fmt.Sprintf("%s: ValidateReferences()=%v although all references linked = %v", when, verr, allReady), witBase)
				return false
			}
			return true
		}
		for pi, order := range permutations(nss) {
			var t schema.Type
			var bt map[string]map[string]*schema.ObjectSchema
			if p, site, msg, _ := wk.Guard(func() { t = gen.Build(shape); bt = buildTables() }); p {
				// the same tree with every reference replaced by its target was built a moment ago
				c.Violation("C14:refused-but-inlined-accepted:"+site, "the constructors refuse a scope whose inlined equivalent (every reference replaced by the object it resolves to) they accept: "+msg, witBase)
				return
			}
			applied := map[string]bool{}
			if !checkState(t, applied, "before any namespace is applied") {
				return
			}
			for _, ns := range order {
				// snapshot of references to other namespaces
				type st struct {
					ready bool
					obj   any
				}
				before := map[*schema.RefSchema]st{}
				for _, rf := range refsOf(t) {
					if rf.Namespace() != ns {
						s := st{ready: rf.ObjectReady()}
						if s.ready {
							s.obj = rf.GetObject()
						}
						before[rf] = s
					}
				}
				// first an application that must fail (an outdated table that lacks the objects), which the caller
				// survives: it must leave every reference as it was
				failedOnce, _, _, _ := wk.Guard(func() { t.ApplyNamespace(map[string]*schema.ObjectSchema{}, ns) })
				if failedOnce {
					c.Count("failed_namespace_applications")
					if !checkState(t, applied, "after a failed application of "+ns) {
						return
					}
				}
				if p, site, msg, _ := wk.Guard(func() { t.ApplyNamespace(bt[ns], ns) }); p {
					c.Violation("C14:panic:ApplyNamespace:"+site, fmt.Sprintf("ApplyNamespace(%q) panicked although every reference of that namespace has a target: %s", ns, msg), witBase)
					return
				}
				applied[ns] = true
				if failedOnce && pi%2 == 1 {
					// and once more after the link exists: a failed re-application must not take it away
					_, _, _, _ = wk.Guard(func() { t.ApplyNamespace(map[string]*schema.ObjectSchema{}, ns) })
					if !checkState(t, applied, "after a failed re-application of "+ns) {
						return
					}
				}
				for rf, s := range before {
					now := st{ready: rf.ObjectReady()}
					if now.ready {
						now.obj = rf.GetObject()
					}
					if now != s {
						c.Violation("C14:other-namespace-touched", fmt.Sprintf("applying namespace %q changed reference %s@%q (ready %v -> %v, same target: %v)", ns, rf.ID(), rf.Namespace(), s.ready, now.ready, s.obj == now.obj), witBase)
						return
					}
				}
				if !checkState(t, applied, "after applying "+ns) {
					return
				}
			}
			insts = append(insts, inst{fmt.Sprintf("constructors, namespaces applied in order %v", order), t})
			// (b) rebuilt from the description, then linked
			if pi == 0 {
				if scope, isScope := t.(*schema.ScopeSchema); isScope {
					var rb *schema.ScopeSchema
					var rerr error
					if p, _, _, _ := wk.Guard(func() {
						d, e := scope.SelfSerialize()
						if e != nil {
							rerr = e
							return
						}
						rb, rerr = schema.UnserializeScope(d)
						if rerr == nil {
							rb.ApplySelf()
							for _, ns := range order {
								rb.ApplyNamespace(bt[ns], ns)
							}
						}
					}); !p && rerr == nil && rb != nil {
						c.Count("rebuilt_scopes")
						if checkState(rb, applied, "rebuilt from the description, all namespaces applied") {
							insts = append(insts, inst{"rebuilt from its description", rb})
						}
					} else {
						c.Count("not_describable")
					}
				}
			}
		}
		// inputs
		refEnv := &gen.Env{}
		for k := 0; k < 6; k++ {
			raw, okv := gen.ValidRaw(r, inlined, refEnv, 0)
			if !okv {
				break
			}
			var in any = gen.Represent(r, gen.CopyRaw(raw), inlined, refEnv, 0)
			switch k % 3 {
			case 1:
				in, _ = gen.Perturb(r, gen.CopyRaw(raw))
			case 2:
				in, _ = gen.DropKey(r, gen.CopyRaw(raw))
			}
			c.Eval(wk.Hash64(descr, cmpx.Canon(in)), nested || len(nss) > 0)
			var vInl any
			var eInl error
			c.Note("Unserialize inlined")
			if p, _, _, _ := wk.Guard(func() { vInl, eInl = tInl.Unserialize(cmpx.DeepCopy(in)) }); p {
				continue
			}
			for _, it := range insts {
				var v any
				var err error
				c.Note("Unserialize " + it.name)
				wit := map[string]any{"schema": clipStr(descr, 1500), "inlined": clipStr(inlined.Describe(), 1500), "input": clipStr(cmpx.Canon(in), 600), "instance": it.name}
				if p, site, msg, _ := wk.Guard(func() { v, err = it.t.Unserialize(cmpx.DeepCopy(in)) }); p {
					c.Violation("C14:panic:Unserialize:"+site, "Unserialize panicked on a fully linked scope: "+msg, wit)
					continue
				}
				c.Count("inputs_compared")
				if (err == nil) != (eInl == nil) {
					wit["with_references"] = fmt.Sprint(err)
					wit["inlined_result"] = fmt.Sprint(eInl)
					c.Violation("C14:inlining-changes-acceptance", fmt.Sprintf("the scope with references %s the input, the same scope with the references replaced by their objects %s it (%s)",
						map[bool]string{true: "accepts", false: "rejects"}[err == nil], map[bool]string{true: "accepts", false: "rejects"}[eInl == nil], it.name), wit)
					continue
				}
				if err == nil && cmpx.Canon(v) != cmpx.Canon(vInl) {
					wit["difference"] = diffOf(vInl, v)
					c.Violation("C14:inlining-changes-value", "the scope with references and the inlined scope unserialize the same input to different values ("+it.name+")", wit)
				}
			}
			// and the reference interpreter agrees with the lexical reading
			judgeUnserialize(c, "C14", insts[0].t, shape, env, cmpx.DeepCopy(in), descr, "lexical resolution")
		}
		if idx%397 == 0 {
			c.Sample("scope", map[string]any{"schema": descr, "namespaces": nss})
		}
		_ = ref.Accept
	})
}

func init() { register("C14", runC14) }
