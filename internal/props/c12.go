package props

import (
	"fmt"
	"reflect"
	"sort"
	"strings"

	"go.flow.arcalot.io/pluginsdk/schema"

	"verif/internal/cmpx"
	"verif/internal/gen"
	"verif/internal/wk"
)

type c12Probe struct {
	op   string // Unserialize | Validate | Serialize | ValidateCompatibility
	arg  any
	name string
	// for schema arguments: which one (kept per instance, so that "fresh" and "used" compare like with like)
	schemaArg int // -1: data argument; 0: self; 1: compatible twin; 2: incompatible mutant
}

type c12Outcome struct {
	panicked bool
	site     string
	isErr    bool
	value    string
	err      error  // the error value itself, and how it read when it was returned: a later call must not change an
	errText  string // error that an earlier call handed out
}

func (o c12Outcome) String() string {
	switch {
	case o.panicked:
		return "panic@" + o.site
	case o.isErr:
		return "error"
	}
	return "ok:" + o.value
}

type c12Instance struct {
	t       schema.Type
	schemas []schema.Type // schema arguments: self, twin, mutant
}

func c12Call(inst *c12Instance, p c12Probe, arg any) c12Outcome {
	var out any
	var err error
	if p.schemaArg >= 0 {
		arg = inst.schemas[p.schemaArg]
	}
	pan, site, _, _ := wk.Guard(func() {
		switch p.op {
		case "Unserialize":
			out, err = inst.t.Unserialize(arg)
		case "Validate":
			err = inst.t.Validate(arg)
		case "Serialize":
			out, err = inst.t.Serialize(arg)
		default:
			err = inst.t.ValidateCompatibility(arg)
		}
	})
	if pan {
		return c12Outcome{panicked: true, site: site}
	}
	if err != nil {
		o := c12Outcome{isErr: true, err: err}
		_, _, _, _ = wk.Guard(func() { o.errText = err.Error() })
		return o
	}
	return c12Outcome{value: cmpx.Canon(out)}
}

// scramble mutates every container reachable from v in place (maps get their values overwritten and a
// key added, slices their elements overwritten). It reports how many containers were touched.
func scramble(v reflect.Value, depth int) int {
	if depth > 30 || !v.IsValid() {
		return 0
	}
	n := 0
	switch v.Kind() {
	case reflect.Interface, reflect.Pointer:
		if !v.IsNil() {
			if v.Kind() == reflect.Pointer && v.Type().Elem().Kind() != reflect.Struct {
				return 0
			}
			return scramble(v.Elem(), depth+1)
		}
	case reflect.Map:
		if v.IsNil() {
			return 0
		}
		keys := v.MapKeys()
		for _, k := range keys {
			n += scramble(v.MapIndex(k), depth+1)
		}
		for _, k := range keys {
			v.SetMapIndex(k, reflect.Zero(v.Type().Elem()))
		}
		switch v.Type().Key().Kind() {
		case reflect.String:
			v.SetMapIndex(reflect.ValueOf("scrambled_by_harness").Convert(v.Type().Key()), reflect.Zero(v.Type().Elem()))
		case reflect.Int64:
			v.SetMapIndex(reflect.ValueOf(int64(-987654321)).Convert(v.Type().Key()), reflect.Zero(v.Type().Elem()))
		case reflect.Interface:
			v.SetMapIndex(reflect.ValueOf("scrambled_by_harness"), reflect.Zero(v.Type().Elem()))
		}
		n++
	case reflect.Slice:
		for i := 0; i < v.Len(); i++ {
			n += scramble(v.Index(i), depth+1)
		}
		for i := 0; i < v.Len(); i++ {
			if v.Index(i).CanSet() {
				v.Index(i).Set(reflect.Zero(v.Type().Elem()))
			}
		}
		if v.Len() > 0 {
			n++
		}
	case reflect.Struct:
		for i := 0; i < v.NumField(); i++ {
			if v.Type().Field(i).IsExported() {
				n += scramble(v.Field(i), depth+1)
			}
		}
	}
	return n
}

// c12Aliased: a one-of that registers ONE member object under two keys, compared with a one-of whose members under
// those keys differ (one compatible, one not). Whatever the verdict, it must not depend on the order in which a
// map happens to be walked: 200 evaluations on fresh instances and 200 on one instance must all agree.
func c12Aliased(c *wk.Ctx) {
	prop := func(t schema.Type) *schema.PropertySchema {
		return schema.NewPropertySchema(t, nil, true, nil, nil, nil, nil, nil)
	}
	consumer := func() schema.Type {
		x := schema.NewObjectSchema("X", map[string]*schema.PropertySchema{"v": prop(schema.NewIntSchema(nil, nil, nil))})
		return schema.NewOneOfStringSchema[any](map[string]schema.Object{"a": x, "b": x, "c": x}, "_type", false)
	}
	producer := func() schema.Type {
		return schema.NewOneOfStringSchema[any](map[string]schema.Object{
			"a": schema.NewObjectSchema("X", map[string]*schema.PropertySchema{"v": prop(schema.NewIntSchema(nil, nil, nil))}),
			"b": schema.NewObjectSchema("X", map[string]*schema.PropertySchema{"v": prop(schema.NewStringSchema(nil, nil, nil))}),
			"c": schema.NewObjectSchema("X", map[string]*schema.PropertySchema{"v": prop(schema.NewIntSchema(nil, nil, nil))})}, "_type", false)
	}
	verdicts := map[string]int{}
	used, arg := consumer(), producer()
	for rep := 0; rep < 400; rep++ {
		a, b := used, arg
		if rep%2 == 0 {
			a, b = consumer(), producer()
		}
		var err error
		if p, site, msg, _ := wk.Guard(func() { err = a.ValidateCompatibility(b) }); p {
			c.Violation("C12:panic:ValidateCompatibility:"+site, "ValidateCompatibility panicked on the aliased one-of pair: "+msg, nil)
			return
		}
		c.Count("probe_evaluations")
		verdicts[fmt.Sprint(err == nil)]++
	}
	c.Eval(wk.Hash64("directed-aliased-one-of"), true)
	if len(verdicts) > 1 {
		c.Violation("C12:not-deterministic:ValidateCompatibility", fmt.Sprintf("400 evaluations of ValidateCompatibility on the same pair of schemas (a one-of with one member object under three keys, against a one-of whose second member is incompatible) disagree: %v accepted/rejected", verdicts),
			map[string]any{"consumer": "one_of_string{a: X{v:int}, b: same object, c: same object}", "producer": "one_of_string{a: X{v:int}, b: X{v:string}, c: X{v:int}}", "verdicts": verdicts})
	}
}

// c12EnumDisplays: enums in which some values carry a display name and others do not, compared with an enum over
// the same values whose display names disagree on (or lack) one of them. The comparison walks a Go map, so a verdict
// that depends on which value it meets first shows up as evaluations that disagree.
func c12EnumDisplays(c *wk.Ctx) {
	dvn := func(name string) *schema.DisplayValue {
		if name == "" {
			return schema.NewDisplayValue(nil, nil, nil)
		}
		return schema.NewDisplayValue(&name, nil, nil)
	}
	// per value: the consumer's and the producer's display name ("" = a display value without a name, "-" = nil)
	type pairing struct {
		label string
		names map[string][2]string
	}
	disp := func(n string) *schema.DisplayValue {
		if n == "-" {
			return nil
		}
		return dvn(n)
	}
	pairings := []pairing{
		{"one disagreeing name among unnamed values", map[string][2]string{"a": {"", ""}, "b": {"", ""}, "c": {"", ""}, "d": {"Delta", "Dora"}, "e": {"-", "-"}}},
		{"one name missing at the producer among unnamed values", map[string][2]string{"a": {"", "-"}, "b": {"-", ""}, "c": {"", ""}, "d": {"Delta", ""}, "e": {"-", "-"}, "f": {"", ""}}},
		{"one name missing at the consumer among unnamed values", map[string][2]string{"a": {"", ""}, "b": {"-", "-"}, "c": {"", "Charlie"}, "d": {"-", ""}}},
		{"agreeing names and unnamed values", map[string][2]string{"a": {"", ""}, "b": {"Bravo", "Bravo"}, "c": {"-", ""}, "d": {"Delta", "Delta"}}},
	}
	for _, pg := range pairings {
		for kind := 0; kind < 3; kind++ {
			build := func(side int) schema.Type {
				sv := map[string]*schema.DisplayValue{}
				iv := map[int64]*schema.DisplayValue{}
				i := int64(0)
				keys := make([]string, 0, len(pg.names))
				for k := range pg.names {
					keys = append(keys, k)
				}
				sort.Strings(keys)
				for _, k := range keys {
					sv[k] = disp(pg.names[k][side])
					iv[i*7-3] = disp(pg.names[k][side])
					i++
				}
				switch kind {
				case 0:
					return schema.NewStringEnumSchema(sv)
				case 1:
					return schema.NewIntEnumSchema(iv, nil)
				}
				return schema.NewScopeSchema(schema.NewObjectSchema("E", map[string]*schema.PropertySchema{
					"e": schema.NewPropertySchema(schema.NewListSchema(schema.NewStringEnumSchema(sv), nil, nil), nil, false, nil, nil, nil, nil, nil)}))
			}
			verdicts := map[string]int{}
			used, arg := build(0), build(1)
			for rep := 0; rep < 300; rep++ {
				a, b := used, arg
				if rep%2 == 0 {
					a, b = build(0), build(1)
				}
				var err error
				if p, site, msg, _ := wk.Guard(func() { err = a.ValidateCompatibility(b) }); p {
					c.Violation("C12:panic:ValidateCompatibility:"+site, "ValidateCompatibility panicked on a pair of enums: "+msg, map[string]any{"pairing": pg.label})
					return
				}
				c.Count("probe_evaluations")
				verdicts[fmt.Sprint(err == nil)]++
			}
			c.Eval(wk.Hash64("directed-enum-displays", pg.label, fmt.Sprint(kind)), true)
			if len(verdicts) > 1 {
				c.Violation("C12:not-deterministic:ValidateCompatibility", fmt.Sprintf("300 evaluations of ValidateCompatibility on the same pair of enums (%s; %s) disagree: %v accepted/rejected", pg.label, []string{"string enums", "integer enums", "string enums in a list property of a scope"}[kind], verdicts),
					map[string]any{"pairing": pg.label, "consumer_and_producer_display_names_per_value": fmt.Sprint(pg.names), "verdicts": verdicts})
			}
		}
	}
}

// c12KeyKinds: maps whose keys are equal numbers of different Go integer types (int(1) beside int64(1)): the
// operations that normalise keys must give the same answer every time (reject, or always keep the same entry).
func c12KeyKinds(c *wk.Ctx) {
	str := func() schema.Type { return schema.NewStringSchema(nil, nil, nil) }
	schemas := map[string]func() schema.Type{
		"any":         func() schema.Type { return schema.NewAnySchema() },
		"list[any]":   func() schema.Type { return schema.NewListSchema(schema.NewAnySchema(), nil, nil) },
		"map[int]str": func() schema.Type { return schema.NewMapSchema(schema.NewIntSchema(nil, nil, nil), str(), nil, nil) },
		"map[str]any": func() schema.Type { return schema.NewMapSchema(str(), schema.NewAnySchema(), nil, nil) },
		"object{a:any}": func() schema.Type {
			return schema.NewObjectSchema("O", map[string]*schema.PropertySchema{"a": schema.NewPropertySchema(schema.NewAnySchema(), nil, false, nil, nil, nil, nil, nil)})
		},
	}
	twins := []map[any]any{
		{int(1): "a", int64(1): "b"},
		{int32(7): "a", int64(7): "b", int8(7): "c"},
		{uint8(2): "a", int64(2): "b"},
		{uint64(3): "a", int(3): "b"},
	}
	names := make([]string, 0, len(schemas))
	for n := range schemas {
		names = append(names, n)
	}
	sort.Strings(names)
	for _, name := range names {
		for ti, twin := range twins {
			var arg any = twin
			switch name {
			case "list[any]":
				arg = []any{twin}
			case "map[str]any":
				arg = map[string]any{"k": twin}
			case "object{a:any}":
				arg = map[string]any{"a": twin}
			}
			for _, op := range []string{"Unserialize", "Validate", "Serialize"} {
				outcomes := map[string]int{}
				t := schemas[name]()
				for rep := 0; rep < 120; rep++ {
					if rep%3 == 0 {
						t = schemas[name]()
					}
					var out any
					var err error
					in := cmpx.DeepCopy(arg)
					if p, site, msg, _ := wk.Guard(func() {
						switch op {
						case "Unserialize":
							out, err = t.Unserialize(in)
						case "Validate":
							err = t.Validate(in)
						default:
							out, err = t.Serialize(in)
						}
					}); p {
						c.Violation("C12:panic:"+op+":"+site, fmt.Sprintf("%s on %s panicked on keys of mixed integer types: %s", op, name, msg), map[string]any{"schema": name, "argument": fmt.Sprintf("%#v", arg)})
						break
					}
					c.Count("probe_evaluations")
					o := "ok " + cmpx.Canon(out)
					if err != nil {
						o = "rejected"
					}
					outcomes[o]++
				}
				c.Eval(wk.Hash64("directed-key-kinds", name, fmt.Sprint(ti), op), true)
				if len(outcomes) > 1 {
					c.Violation("C12:not-deterministic:"+op, fmt.Sprintf("120 evaluations of %s on %s with the same argument (a map whose keys are the same number as different Go integer types) disagree: %v", op, name, outcomes),
						map[string]any{"schema": name, "argument": fmt.Sprintf("%#v", arg), "outcomes": outcomes})
				}
			}
		}
	}
}

// c12AliasedStruct: ONE struct-mapped object registered under two (three) keys of a one-of whose discriminator is not
// a field of the struct: which key Serialize writes for a struct value is the schema's choice, but the same choice
// every time.
func c12AliasedStruct(c *wk.Ctx) {
	build := func(intKeys bool) schema.Type {
		member := schema.NewStructMappedObjectSchema[gen.P5]("K", map[string]*schema.PropertySchema{
			"y": schema.NewPropertySchema(schema.NewStringSchema(nil, nil, nil), nil, false, nil, nil, nil, nil, nil)})
		if intKeys {
			return schema.NewOneOfIntSchema[any](map[int64]schema.Object{3: member, 1: member, 2: member}, "_type", false)
		}
		return schema.NewOneOfStringSchema[any](map[string]schema.Object{"k8s": member, "kubernetes": member, "kube": member}, "_type", false)
	}
	for _, intKeys := range []bool{false, true} {
		outcomes := map[string]int{}
		t := build(intKeys)
		for rep := 0; rep < 300; rep++ {
			if rep%3 == 0 {
				t = build(intKeys)
			}
			var out any
			var err error
			if p, site, msg, _ := wk.Guard(func() { out, err = t.Serialize(gen.P5{Y: "v"}) }); p {
				c.Violation("C12:panic:Serialize:"+site, "Serialize panicked on a struct value of an aliased one-of: "+msg, nil)
				return
			}
			c.Count("probe_evaluations")
			o := "ok " + cmpx.Canon(out)
			if err != nil {
				o = "rejected"
			}
			outcomes[o]++
		}
		c.Eval(wk.Hash64("directed-aliased-struct", fmt.Sprint(intKeys)), true)
		if len(outcomes) > 1 {
			c.Violation("C12:not-deterministic:Serialize", fmt.Sprintf("300 evaluations of Serialize on the same struct value (a one-of with one struct-mapped object under three keys) disagree: %v", outcomes),
				map[string]any{"int_keys": intKeys, "outcomes": outcomes})
		}
	}
}

type c12FieldA struct {
	A int64 `json:"a"`
}

type c12FieldB struct {
	A int `json:"a"`
}

// c12SharedProperty: ONE property schema (treat-empty-as-default, minimum 1) used by two struct-mapped objects whose
// fields have different Go integer types. What one object has been asked before must not change what the other answers:
// after every history both answer like freshly built ones.
func c12SharedProperty(c *wk.Ctx) {
	build := func() (schema.Type, schema.Type) {
		p := schema.NewPropertySchema(schema.NewIntSchema(schema.IntPointer(1), nil, nil), nil, false, nil, nil, nil, nil, nil).TreatEmptyAsDefaultValue()
		return schema.NewStructMappedObjectSchema[c12FieldA]("A", map[string]*schema.PropertySchema{"a": p}),
			schema.NewStructMappedObjectSchema[c12FieldB]("B", map[string]*schema.PropertySchema{"a": p})
	}
	probe := func(t schema.Type, v any) string {
		var out any
		var verr, serr error
		if p, site, _, _ := wk.Guard(func() { verr = t.Validate(v); out, serr = t.Serialize(v) }); p {
			return "panic@" + site
		}
		return fmt.Sprintf("validate ok=%v serialize ok=%v %s", verr == nil, serr == nil, cmpx.Canon(out))
	}
	valsA := []any{c12FieldA{}, c12FieldA{A: 5}, c12FieldA{A: -2}}
	valsB := []any{c12FieldB{}, c12FieldB{A: 5}, c12FieldB{A: -2}}
	freshA, freshB := build()
	var wantA, wantB []string
	for i := range valsA {
		fa, fb := build() // a pristine pair for every expectation
		_ = fb
		wantA = append(wantA, probe(fa, valsA[i]))
		_, fb2 := build()
		wantB = append(wantB, probe(fb2, valsB[i]))
	}
	_, _ = freshA, freshB
	for order := 0; order < 2; order++ {
		a, b := build()
		first, second, fv, sv, fw, sw := a, b, valsA, valsB, wantA, wantB
		if order == 1 {
			first, second, fv, sv, fw, sw = b, a, valsB, valsA, wantB, wantA
		}
		for round := 0; round < 3; round++ {
			for i := range fv {
				c.Count("probe_evaluations")
				if got := probe(first, fv[i]); got != fw[i] {
					c.Violation("C12:history-dependent:shared-property", fmt.Sprintf("object used first (order %d, round %d): %s on %#v, a fresh schema gives %s", order, round, got, fv[i], fw[i]), nil)
					return
				}
			}
			for i := range sv {
				c.Count("probe_evaluations")
				if got := probe(second, sv[i]); got != sw[i] {
					c.Violation("C12:history-dependent:shared-property", fmt.Sprintf("two struct-mapped objects share one property schema; after the other object was used (order %d, round %d) this one gives %s on %#v, a fresh schema gives %s", order, round, got, sv[i], sw[i]),
						map[string]any{"value": fmt.Sprintf("%#v", sv[i]), "got": got, "fresh": sw[i]})
					return
				}
			}
		}
	}
	c.Eval(wk.Hash64("directed-shared-property"), true)
}

// c12UnitVariants: the spellings a units definition accepts are decided by the definition alone, not by what it has
// been asked before. Per round: one generated (or built-in-shaped) definition built twice from the same recipe. On the
// 'used' one a well-formed string is parsed first, then its near-variants (a space / tab inside a digit run or a name,
// all spaces removed, a character dropped or doubled, a letter's case changed), every one three times and in two
// orders, through ParseInt, ParseFloat and the Unserialize / ValidateCompatibility of int and float schemas; the twin is
// asked each variant cold, the well-formed original last. Outcomes (value, or rejection) must be the same on both.
func c12UnitVariants(c *wk.Ctx, from, to int) {
	bi := builtinUnits()
	for i := from; i < to; i++ {
		r := wk.NewRand(c.Seed, "C12-unit-variants", int64(i))
		var ref *refUnits
		mk := func() *schema.UnitsDefinition {
			if i%4 == 0 {
				b := bi[(i/4)%len(bi)].ref
				ref = b
				mm := map[int64]*schema.UnitDefinition{}
				for _, m := range b.mults {
					mm[m.mult] = schema.NewUnit(m.names[0], m.names[1], m.names[2], m.names[3])
				}
				return schema.NewUnits(schema.NewUnit(b.base.names[0], b.base.names[1], b.base.names[2], b.base.names[3]), mm)
			}
			rf, d := genUnits(wk.NewRand(c.Seed, "C12-unit-variants-def", int64(i)), fmt.Sprintf("uv-%d", i))
			ref = rf
			return d
		}
		used, cold := mk(), mk()
		type asker struct {
			name string
			ask  func(d *schema.UnitsDefinition, s string) string
		}
		askers := []asker{
			{"ParseInt", func(d *schema.UnitsDefinition, s string) string {
				v, err := d.ParseInt(s)
				return fmt.Sprint(v, err == nil)
			}},
			{"ParseFloat", func(d *schema.UnitsDefinition, s string) string {
				v, err := d.ParseFloat(s)
				return fmt.Sprint(v, err == nil)
			}},
			{"IntSchema.Unserialize", func(d *schema.UnitsDefinition, s string) string {
				v, err := schema.NewIntSchema(nil, nil, d).Unserialize(s)
				return fmt.Sprint(v, err == nil)
			}},
			{"FloatSchema.Unserialize", func(d *schema.UnitsDefinition, s string) string {
				v, err := schema.NewFloatSchema(nil, nil, d).Unserialize(s)
				return fmt.Sprint(v, err == nil)
			}},
			{"IntSchema.ValidateCompatibility", func(d *schema.UnitsDefinition, s string) string {
				return fmt.Sprint(schema.NewIntSchema(nil, nil, d).ValidateCompatibility(s) == nil)
			}},
		}
		for round := 0; round < 6; round++ {
			s := genWellFormed(r, ref, r.Chance(30), false)
			vars := map[string]bool{}
			add := func(v string) {
				if v != s {
					vars[v] = true
				}
			}
			rs := []rune(s)
			add(strings.Join(strings.Fields(s), ""))
			add(strings.ReplaceAll(s, " ", ""))
			for k := 0; k < 10 && len(rs) > 0; k++ {
				at := r.Intn(len(rs) + 1)
				switch r.Intn(5) {
				case 0:
					add(string(rs[:at]) + " " + string(rs[at:]))
				case 1:
					add(string(rs[:at]) + "\t" + string(rs[at:]))
				case 2:
					if at < len(rs) {
						add(string(rs[:at]) + string(rs[at+1:]))
					}
				case 3:
					if at < len(rs) {
						add(string(rs[:at+1]) + string(rs[at:]))
					}
				default:
					add(swapCase(s, r.Intn(4)))
				}
			}
			var list []string
			for v := range vars {
				list = append(list, v)
			}
			sort.Strings(list)
			a := askers[r.Intn(len(askers))]
			c.Note(fmt.Sprintf("unit-string variants after their original (round %d/%d, %s)", i, round, a.name))
			var got, want map[string]string
			pan, site, _, _ := wk.Guard(func() {
				got, want = map[string]string{}, map[string]string{}
				a.ask(used, s)
				for rep := 0; rep < 3; rep++ {
					for k := range list {
						v := list[k]
						if rep == 1 {
							v = list[len(list)-1-k]
						}
						o := a.ask(used, v)
						if prev, seen := got[v]; seen && prev != o {
							got[v] = prev + " then " + o
						} else if !seen {
							got[v] = o
						}
					}
					a.ask(used, s)
				}
				for _, v := range list {
					want[v] = a.ask(cold, v)
				}
				want[s], got[s] = a.ask(cold, s), a.ask(used, s)
			})
			if pan {
				c.Count("unit_variant_rounds_panicked:" + site) // totality is C04's and C16's business
				continue
			}
			c.Count("unit_variant_rounds")
			c.CountN("probe_evaluations", int64(4*len(list)+5))
			c.Eval(wk.Hash64("C12-unit-variants", ref.label, s, a.name), true)
			for _, v := range append(list, s) {
				if got[v] != want[v] {
					c.Violation("C12:history-dependent:units:"+a.name, fmt.Sprintf("%s(%q) on a units definition that has parsed %q before gives %s, on a definition built the same way and asked cold %s", a.name, v, s, got[v], want[v]),
						map[string]any{"definition": ref.describe(), "parsed_before": s, "argument": v, "used": got[v], "cold": want[v]})
					break
				}
			}
		}
	}
}

func runC12(c *wk.Ctx) {
	c.Meta("rule", "per case: one generated shape built twice (a 'used' and a 'fresh' instance, each with its own self / twin / incompatible-mutant schema arguments); a probe set (valid inputs in random representations, perturbed and hostile inputs for Unserialize; natives for Validate/Serialize; data and schema arguments for ValidateCompatibility) is first evaluated on the fresh instance. The used instance then goes through a random history of 1..30 calls (accepted, rejected and default-filling ones, failing schema comparisons), with a deep snapshot of every argument before and after, and with every container reachable from every returned value overwritten in place. Afterwards each probe is evaluated 16 times on the used instance. Oracle: the argument snapshot is unchanged by the call and by scrambling the result; all 16 evaluations agree; they equal the fresh instance's outcome; SelfSerialize of the used scope equals that of the fresh one. distinct = hash(shape, history); non-trivial = history length >= 2 Directed: schema comparison of enums in which only some values carry display names (one disagreeing / one missing name), 300 evaluations per pair. Directed: unit strings - a well-formed string is parsed on a units definition, then its near-variants (whitespace inside digit runs and names, dropped / doubled characters, case changes) three times in two orders; every outcome equals that of a definition built the same way and asked cold.")
	c.Floor("unit_variant_rounds", 100)
	c.Meta("assumptions", []string{"GetDefaults() is deliberately not compared (the SDK extends decoded sub-object defaults in place, which changes that accessor but neither the self-description nor behaviour)",
		"inputs whose map keys collide after normalisation are excluded from the determinism verdict"})
	c.Floor("probe_evaluations", 20000)
	c.Floor("history_calls", 5000)
	c.Floor("results_scrambled", 500)
	if c.Mine(0) {
		c.Begin(0, "directed: one member object under two one-of keys")
		c12Aliased(c)
	}
	if c.Mine(1) {
		c.Begin(1, "directed: equal keys of different Go integer types")
		c12KeyKinds(c)
	}
	if c.Mine(2) {
		c.Begin(2, "directed: a struct-mapped member under two one-of keys, serialized")
		c12AliasedStruct(c)
		c.Note("directed: one property schema shared by two struct-mapped objects")
		c12SharedProperty(c)
		c.Note("directed: enums with display names on some values only")
		c12EnumDisplays(c)
	}
	// "a function of (schema, argument) only" also from the very first evaluations, which fill the lazily built tables
	// of unit definitions: 8 goroutines use a fresh definition at once, every result is what a twin used by one
	// goroutine gives
	perShard := int(c.N(500, 6000))
	for k := int64(3); k < 19; k++ {
		if c.Mine(k) {
			c.Begin(k, "first evaluations on fresh unit definitions by 8 goroutines")
			unitsFirstUse(c, "C12", int(k-3)*perShard, int(k-2)*perShard, k%2 == 0)
		}
	}
	perUV := int(c.N(60, 3000))
	for k := int64(19); k < 35; k++ {
		if c.Mine(k) {
			c.Begin(k, "unit-string variants after their original")
			c12UnitVariants(c, int(k-19)*perUV, int(k-18)*perUV)
		}
	}
	n := c.N(6000, 600000)
	c.Cases(n, func(idx int64, r *wk.Rand) {
		cfg := gen.Full()
		cfg.TypedVariants = true
		cfg.GoodDefaults = true
		var shape *gen.Shape
		if tricky := gen.TrickyShapes(); idx < int64(2*len(tricky)) {
			shape = tricky[int(idx)%len(tricky)]
		} else {
			switch r.Intn(5) {
			case 0, 1, 2:
				shape = gen.GenScope(r, cfg)
			case 3:
				shape = gen.GenObjectStandalone(r, cfg)
			default:
				shape = gen.GenType(r, cfg)
			}
		}
		mutShape, mutWhat := c15Mutate(r, shape)
		build := func() (*c12Instance, bool) {
			t, ok, _ := buildGuarded(shape)
			if !ok {
				return nil, false
			}
			twin, ok2, _ := buildGuarded(shape)
			mut, ok3, _ := buildGuarded(mutShape)
			if !ok2 || !ok3 || isRecursive(shape) {
				// distinct recursive instances cannot be compared (C15 known finding): only self
				return &c12Instance{t: t, schemas: []schema.Type{t, t, t}}, true
			}
			return &c12Instance{t: t, schemas: []schema.Type{t, twin, mut}}, true
		}
		used, ok := build()
		fresh, ok2 := build()
		if !ok || !ok2 {
			c.Count("misbuilt_schemas")
			return
		}
		env := &gen.Env{}
		descr := shape.Describe()
		// the self-description of the instance that is going to be used, before any call is made on it
		var descBefore any
		var descBeforeErr error
		if us, okU := used.t.(*schema.ScopeSchema); okU {
			if p, _, _, _ := wk.Guard(func() { descBefore, descBeforeErr = us.SelfSerialize() }); p {
				descBeforeErr = fmt.Errorf("panic")
			}
		}
		// probe set
		var probes []c12Probe
		addData := func(op string, arg any, name string) {
			probes = append(probes, c12Probe{op: op, arg: arg, name: name, schemaArg: -1})
		}
		for i := 0; i < 3; i++ {
			raw, okv := gen.ValidRaw(r, shape, env, 0)
			if !okv {
				break
			}
			rep := gen.Represent(r, gen.CopyRaw(raw), shape, env, 0)
			addData("Unserialize", rep, "valid input")
			addData("ValidateCompatibility", gen.CopyRaw(rep), "valid input as data")
			pv, _ := gen.Perturb(r, gen.CopyRaw(raw))
			addData("Unserialize", pv, "perturbed input")
			_, h := gen.HostileValue(r)
			hv, _ := gen.SubstituteAt(r, gen.CopyRaw(raw), h)
			addData("Unserialize", hv, "hostile leaf")
			var native any
			var uerr error
			if p, _, _, _ := wk.Guard(func() { native, uerr = fresh.t.Unserialize(gen.CopyRaw(raw)) }); !p && uerr == nil {
				addData("Validate", native, "native value")
				addData("Serialize", native, "native value")
			}
		}
		// two keys of one map that denote the same key, as distinct values (7 and "7") and as distinct spellings
		// ("7" and "07"): whatever the verdict is, it is the same every time
		if raw, okv := gen.ValidRaw(r, shape, env, 0); okv {
			if ck, okc := gen.AddCollidingKey(r, gen.CopyRaw(raw)); okc {
				addData("Unserialize", ck, "two keys that denote the same key")
			}
			if ck, okc := gen.AddCollidingSpelling(r, gen.CopyRaw(raw)); okc {
				addData("Unserialize", ck, "two spellings of the same key")
				addData("ValidateCompatibility", gen.CopyRaw(ck), "two spellings of the same key, as data")
			}
		}
		addData("Unserialize", map[string]any{}, "empty map (defaults are filled)")
		addData("Unserialize", nil, "nil")
		for sa, name := range []string{"the schema itself", "an identical twin schema", "an incompatible mutant (" + mutWhat + ")"} {
			probes = append(probes, c12Probe{op: "ValidateCompatibility", name: name, schemaArg: sa})
		}
		// baseline on the fresh instance
		baseline := make([]c12Outcome, len(probes))
		for i, p := range probes {
			c.Note("baseline " + p.op)
			if p.schemaArg >= 0 {
				// schema comparisons get an instance nothing has been called on at all: an earlier accepted
				// comparison is exactly the kind of history that must not matter
				if pristine, okp := build(); okp {
					baseline[i] = c12Call(pristine, p, nil)
					continue
				}
			}
			baseline[i] = c12Call(fresh, p, cmpx.DeepCopy(p.arg))
		}
		// history on the used instance
		hlen := 1 + r.Intn(30)
		var hist []string
		for h := 0; h < hlen; h++ {
			p := wk.Pick(r, probes)
			if r.Chance(30) {
				// a fresh argument not in the probe set
				if raw, okv := gen.ValidRaw(r, shape, env, 0); okv {
					pv, _ := gen.Perturb(r, raw)
					if r.Bool() {
						// leave a property out: presence rules reject (or defaults fill)
						raw2, _ := gen.ValidRaw(r, shape, env, 0)
						if dv, okd := gen.DropKey(r, raw2); okd {
							pv = dv
						}
					}
					p = c12Probe{op: wk.Pick(r, []string{"Unserialize", "ValidateCompatibility", "Validate", "Serialize"}), arg: pv, name: "history-only input", schemaArg: -1}
				}
			}
			hist = append(hist, p.op+"("+p.name+")")
			c.Note("history " + p.op)
			c.Count("history_calls")
			if p.schemaArg >= 0 {
				c12Call(used, p, nil)
				continue
			}
			arg := cmpx.DeepCopy(p.arg)
			before := cmpx.Canon(arg)
			var out any
			var err error
			pan, _, _, _ := wk.Guard(func() {
				switch p.op {
				case "Unserialize":
					out, err = used.t.Unserialize(arg)
				case "Validate":
					err = used.t.Validate(arg)
				case "Serialize":
					out, err = used.t.Serialize(arg)
				default:
					err = used.t.ValidateCompatibility(arg)
				}
			})
			if pan {
				continue // totality is C04's business
			}
			wit := map[string]any{"schema": clipStr(descr, 1200), "operation": p.op, "argument": clipStr(before, 700), "argument_kind": p.name}
			if after := cmpx.Canon(arg); after != before {
				wit["argument_after"] = clipStr(after, 700)
				c.Violation("C12:argument-modified:"+p.op+":"+diffOf(cmpx.DeepCopy(p.arg), arg), fmt.Sprintf("%s modified the argument passed to it", p.op), wit)
			}
			if err == nil && out != nil {
				// overwrite every container of the result: neither the argument nor the schema may notice
				if k := scramble(reflect.ValueOf(&out).Elem(), 0); k > 0 {
					c.Count("results_scrambled")
					if after := cmpx.Canon(arg); after != before {
						wit["argument_after"] = clipStr(after, 700)
						c.Violation("C12:result-aliases-argument:"+p.op, fmt.Sprintf("overwriting the containers of %s's result changed the argument: the result aliases it", p.op), wit)
					}
				}
			}
		}
		c.Eval(wk.Hash64(descr, fmt.Sprint(hist)), hlen >= 2)
		// probes on the used instance, 16 times each
		for i, p := range probes {
			if p.schemaArg < 0 && collidingKeys(p.arg) && !strings.Contains(p.name, "the same key") {
				continue // (only the deliberately built collisions are judged: a map schema rejects them)
			}
			var first c12Outcome
			for rep := 0; rep < 16; rep++ {
				c.Note("probe " + p.op)
				o := c12Call(used, p, cmpx.DeepCopy(p.arg))
				c.Count("probe_evaluations")
				if rep == 0 {
					first = o
					continue
				}
				if rep == 15 && first.err != nil {
					// fifteen more calls later, the error that the first call returned still reads as it did
					now := ""
					_, _, _, _ = wk.Guard(func() { now = first.err.Error() })
					c.Count("returned_errors_read_again_after_later_calls")
					if now != first.errText {
						c.Violation("C12:returned-error-changed-by-later-calls:"+p.op, fmt.Sprintf("the error returned by the first of 16 evaluations of %s (%s) read %q then and reads %q after the other evaluations: calls share and modify an error value", p.op, p.name, clipStr(first.errText, 300), clipStr(now, 300)),
							map[string]any{"schema": clipStr(descr, 1200), "argument": clipStr(cmpx.Canon(p.arg), 600), "first": clipStr(first.errText, 600), "later": clipStr(now, 600)})
						break
					}
				}
				if o.String() != first.String() {
					c.Violation("C12:not-deterministic:"+p.op, fmt.Sprintf("two evaluations of %s on the same schema and argument (%s) differ: %s vs %s", p.op, p.name, clipStr(first.String(), 200), clipStr(o.String(), 200)),
						map[string]any{"schema": clipStr(descr, 1200), "argument": clipStr(cmpx.Canon(p.arg), 600), "first": clipStr(first.String(), 600), "other": clipStr(o.String(), 600)})
					break
				}
			}
			if first.String() != baseline[i].String() && !first.panicked && !baseline[i].panicked {
				c.Violation("C12:history-dependent:"+p.op+":"+outcomeClass(baseline[i])+"->"+outcomeClass(first),
					fmt.Sprintf("%s(%s) on a schema that has been used before gives %s, on a freshly built one %s", p.op, p.name, clipStr(first.String(), 160), clipStr(baseline[i].String(), 160)),
					map[string]any{"schema": clipStr(descr, 1200), "argument": clipStr(cmpx.Canon(p.arg), 600), "history": hist, "used": clipStr(first.String(), 600), "fresh": clipStr(baseline[i].String(), 600)})
			}
		}
		// the self-description is part of "the schema as it was"
		if us, okU := used.t.(*schema.ScopeSchema); okU && descBeforeErr == nil {
			var du any
			var eu error
			if p, _, _, _ := wk.Guard(func() { du, eu = us.SelfSerialize() }); !p && eu == nil {
				c.Count("self_descriptions_compared")
				if cmpx.Canon(du) != cmpx.Canon(descBefore) {
					c.Violation("C12:self-description-changed:"+diffOf(descBefore, du), "after a history of calls the schema describes itself differently than before them",
						map[string]any{"schema": clipStr(descr, 1200), "history": hist, "difference": diffOf(descBefore, du)})
				}
				// and differently from an instance that was never used at all
				if pristine, okP, _ := buildGuarded(shape); okP {
					var dp any
					var ep error
					if p, _, _, _ := wk.Guard(func() { dp, ep = pristine.(*schema.ScopeSchema).SelfSerialize() }); !p && ep == nil && cmpx.Canon(dp) != cmpx.Canon(du) {
						c.Violation("C12:self-description-differs-from-pristine:"+diffOf(dp, du), "after a history of calls the schema describes itself differently than a never-used instance built the same way",
							map[string]any{"schema": clipStr(descr, 1200), "history": hist, "difference": diffOf(dp, du)})
					}
				}
			}
		}
		if idx < 3 {
			c.Sample("case", map[string]any{"schema": descr, "history": hist})
		}
	})
}

func outcomeClass(o c12Outcome) string {
	switch {
	case o.panicked:
		return "panic"
	case o.isErr:
		return "error"
	}
	return "ok"
}

// collidingKeys: does the raw tree contain a map with two keys that normalise to the same key ("1" and 1)?
func collidingKeys(v any) bool {
	found := false
	var walk func(x reflect.Value, depth int)
	walk = func(x reflect.Value, depth int) {
		if depth > 40 || !x.IsValid() || found {
			return
		}
		switch x.Kind() {
		case reflect.Interface, reflect.Pointer:
			if !x.IsNil() {
				walk(x.Elem(), depth+1)
			}
		case reflect.Map:
			seen := map[string]bool{}
			it := x.MapRange()
			for it.Next() {
				k := fmt.Sprint(it.Key().Interface())
				if seen[k] {
					found = true
				}
				seen[k] = true
				walk(it.Value(), depth+1)
			}
		case reflect.Slice:
			for i := 0; i < x.Len(); i++ {
				walk(x.Index(i), depth+1)
			}
		}
	}
	walk(reflect.ValueOf(v), 0)
	return found
}

func init() { register("C12", runC12) }
