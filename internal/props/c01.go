package props

import (
	"fmt"
	"reflect"
	"regexp"
	"strings"

	"go.flow.arcalot.io/pluginsdk/schema"

	"verif/internal/cmpx"
	"verif/internal/gen"
	"verif/internal/wk"
)

var reDigits = regexp.MustCompile(`[0-9]+`)
var reQuoted = regexp.MustCompile(`'[^']*'|"[^"]*"`)

// normMsg turns an error message into a class: values, numbers and the path are stripped.
func normMsg(err error) string {
	if err == nil {
		return "nil"
	}
	m := err.Error()
	if i := strings.Index(m, "': "); strings.HasPrefix(m, "Validation failed for '") && i > 0 {
		m = "Validation failed: " + m[i+3:]
	}
	m = reQuoted.ReplaceAllString(m, "Q")
	m = reDigits.ReplaceAllString(m, "N")
	if len(m) > 70 {
		m = m[:70]
	}
	return m
}

// firstDiff describes the first position where two values differ, by dynamic type.
func firstDiff(a, b reflect.Value, depth int) string {
	if depth > 40 {
		return "deep"
	}
	for a.IsValid() && a.Kind() == reflect.Interface && !a.IsNil() {
		a = a.Elem()
	}
	for b.IsValid() && b.Kind() == reflect.Interface && !b.IsNil() {
		b = b.Elem()
	}
	if !a.IsValid() || !b.IsValid() {
		return fmt.Sprintf("%s vs %s", vtype(a), vtype(b))
	}
	if a.Type() != b.Type() {
		return fmt.Sprintf("type %s vs %s", a.Type(), b.Type())
	}
	switch a.Kind() {
	case reflect.Slice, reflect.Array:
		if a.Len() != b.Len() {
			return fmt.Sprintf("length of %s", a.Type())
		}
		for i := 0; i < a.Len(); i++ {
			if cmpx.Canon(a.Index(i).Interface()) != cmpx.Canon(b.Index(i).Interface()) {
				return firstDiff(a.Index(i), b.Index(i), depth+1)
			}
		}
	case reflect.Map:
		if a.Len() != b.Len() {
			return fmt.Sprintf("size of %s", a.Type())
		}
		it := a.MapRange()
		for it.Next() {
			bv := b.MapIndex(it.Key())
			if !bv.IsValid() {
				return fmt.Sprintf("key set of %s (key type %s)", a.Type(), vtype(it.Key()))
			}
			if cmpx.Canon(it.Value().Interface()) != cmpx.Canon(bv.Interface()) {
				return firstDiff(it.Value(), bv, depth+1)
			}
		}
	case reflect.Pointer:
		if a.IsNil() != b.IsNil() {
			return "nil-ness of " + a.Type().String()
		}
		if !a.IsNil() && a.Type() != reflect.TypeOf((*regexp.Regexp)(nil)) {
			return firstDiff(a.Elem(), b.Elem(), depth+1)
		}
	case reflect.Struct:
		for i := 0; i < a.NumField(); i++ {
			if a.Type().Field(i).IsExported() && cmpx.Canon(a.Field(i).Interface()) != cmpx.Canon(b.Field(i).Interface()) {
				return a.Type().String() + "." + a.Type().Field(i).Name + ": " + firstDiff(a.Field(i), b.Field(i), depth+1)
			}
		}
	}
	return "value of " + a.Type().String()
}

func vtype(v reflect.Value) string {
	if !v.IsValid() {
		return "nil"
	}
	for v.Kind() == reflect.Interface && !v.IsNil() {
		v = v.Elem()
	}
	return v.Type().String()
}

func diffOf(a, b any) string { return firstDiff(reflect.ValueOf(a), reflect.ValueOf(b), 0) }

type c01Subject struct {
	name  string
	t     schema.Type
	shape *gen.Shape
	env   *gen.Env
}

// c01Typed is the one-per-typed-constructor matrix (generics need compile-time types).
func c01Typed(r *wk.Rand) []c01Subject {
	intS := &gen.Shape{Kind: gen.KInt}
	strS := &gen.Shape{Kind: gen.KString}
	p1Props := []*gen.Prop{{Name: "a", T: intS, Required: true}, {Name: "b", T: strS}, {Name: "c", T: &gen.Shape{Kind: gen.KFloat}}, {Name: "d", T: &gen.Shape{Kind: gen.KBool}}}
	p1Shape := &gen.Shape{Kind: gen.KObject, ID: "P1", Struct: "P1", Props: p1Props}
	enumShape := &gen.Shape{Kind: gen.KTypedStrEnum, StrVals: []string{"a", "b", "10"}}
	mkProps := func() map[string]*schema.PropertySchema { return gen.BuildProps(p1Shape, gen.BuildOpts{}) }
	typedEnum := schema.NewTypedStringEnumSchema(map[gen.NamedStr]*schema.DisplayValue{"a": {}, "b": {}, "10": {}})
	return []c01Subject{
		{"NewTypedListSchema[int64]", schema.NewTypedListSchema[int64](schema.NewIntSchema(nil, nil, nil), nil, nil), &gen.Shape{Kind: gen.KList, Items: intS}, nil},
		{"NewTypedListSchema[NamedStr]", schema.NewTypedListSchema[gen.NamedStr](typedEnum, nil, nil), &gen.Shape{Kind: gen.KList, Items: enumShape}, nil},
		{"NewTypedMapSchema[string,int64]", schema.NewTypedMapSchema[string, int64](schema.NewStringSchema(nil, nil, nil), schema.NewIntSchema(nil, nil, nil), nil, nil),
			&gen.Shape{Kind: gen.KMap, Keys: strS, Vals: intS}, nil},
		{"NewTypedMapSchema[int64,string]", schema.NewTypedMapSchema[int64, string](schema.NewIntSchema(nil, nil, nil), schema.NewStringSchema(nil, nil, nil), nil, nil),
			&gen.Shape{Kind: gen.KMap, Keys: intS, Vals: strS}, nil},
		{"NewTypedMapSchema[NamedStr,int64]", schema.NewTypedMapSchema[gen.NamedStr, int64](typedEnum, schema.NewIntSchema(nil, nil, nil), nil, nil),
			&gen.Shape{Kind: gen.KMap, Keys: enumShape, Vals: intS}, nil},
		{"NewTypedObject[P1]", schema.NewTypedObject[gen.P1]("P1", mkProps()), p1Shape, nil},
		{"NewTypedObject[P1].Any()", schema.NewTypedObject[gen.P1]("P1", mkProps()).Any(), p1Shape, nil},
		{"NewTypedScopeSchema[P1]", schema.NewTypedScopeSchema[gen.P1](schema.NewStructMappedObjectSchema[gen.P1]("P1", mkProps())), p1Shape, nil},
		{"NewTypedStringEnumSchema[NamedStr]", typedEnum, enumShape, nil},
	}
}

// callTyped invokes a *Type method through reflection; ok=false when the schema has none or the argument type does not fit.
func callTyped(t schema.Type, method string, arg any) (out []reflect.Value, ok bool) {
	m := reflect.ValueOf(t).MethodByName(method)
	if !m.IsValid() || m.Type().NumIn() != 1 {
		return nil, false
	}
	in := m.Type().In(0)
	var av reflect.Value
	if arg == nil {
		if in.Kind() != reflect.Interface {
			return nil, false
		}
		av = reflect.Zero(in)
	} else {
		av = reflect.ValueOf(arg)
		if !av.Type().AssignableTo(in) {
			return nil, false
		}
	}
	return m.Call([]reflect.Value{av}), true
}

func errOf(v reflect.Value) error {
	if v.IsNil() {
		return nil
	}
	return v.Interface().(error)
}

func runC01(c *wk.Ctx) {
	c.Meta("rule", "per case: a generated schema (all kinds, nesting, map-based and struct-mapped objects, units, defaults, one-of inlined/not, references) or one of 9 typed-constructor schemas, and a generated valid input put into a random representation (integer/float widths, numeric and unit strings, boolean words, map[string]any vs map[any]any, typed maps/slices, single-property shorthand), also its CBOR image. Chain: v=U(r); Validate(v); w=S(v); v1=U(w); v2=U(cbor(w)); w1=S(v1); w2=S(v2); require v=v1=v2 (typed deep equality, NaN=NaN, regexps by source), w=w1 and cbor(w)=cbor(w2); the typed entry points (UnserializeType / ValidateType / SerializeType, found by reflection) must agree with the untyped ones. No reference model: purely metamorphic. non-trivial = schema depth >= 2 or a non-native representation was used; distinct = hash(schema, input) Perturbed inputs include an explicit null in place of a leaf.")
	c.Meta("assumptions", []string{"inputs are drawn from the generator's valid-value procedure, so coverage of accepted inputs is by construction; rejected inputs are counted, not judged here (C02/C03 judge acceptance)"})
	c.Floor("chains_completed", 2000)
	c.Floor("typed_entry_point_checks", 500)
	for k := 0; k < gen.NKinds; k++ {
		c.Floor("node-kind:"+gen.Kind(k).String(), 1)
	}
	n := c.N(40000, 6000000)
	typed := c01Typed(wk.NewRand(c.Seed, "C01-typed", 0))
	if c.Mine(0) {
		c.Begin(0, "directed: one struct-mapped member under several keys of an inlined one-of")
		c01AliasedInlined(c)
	}
	c.Cases(n, func(idx int64, r *wk.Rand) {
		var sub c01Subject
		if tricky := gen.TrickyShapes(); idx%25 == 1 && idx/25 < int64(40*len(tricky)) {
			shape := tricky[int(idx/25)%len(tricky)]
			t, ok, _ := buildGuarded(shape)
			if !ok {
				return
			}
			sub = c01Subject{name: "tricky", t: t, shape: shape, env: &gen.Env{}}
		} else if idx%25 == 0 {
			sub = typed[int(idx/25)%len(typed)]
		} else {
			cfg := gen.Full()
			cfg.TypedVariants = true
			cfg.WeirdBounds = r.Chance(30)
			var shape *gen.Shape
			switch r.Intn(6) {
			case 0, 1:
				shape = gen.GenScope(r, cfg)
			case 2:
				shape = gen.GenObjectStandalone(r, cfg)
			default:
				shape = gen.GenType(r, cfg)
			}
			t, ok, _ := buildGuarded(shape)
			if !ok {
				c.Count("misbuilt_schemas")
				return
			}
			sub = c01Subject{name: shape.Kind.String(), t: t, shape: shape, env: &gen.Env{}}
		}
		if sub.env == nil {
			sub.env = &gen.Env{}
		}
		sub.shape.Walk(func(s *gen.Shape) { c.Count("node-kind:" + s.Kind.String()) })
		descr := sub.name + ": " + sub.shape.Describe()
		for rep := 0; rep < 4; rep++ {
			raw, ok := gen.ValidRaw(r, sub.shape, sub.env, 0)
			if !ok {
				c.Count("no_valid_input_found")
				return
			}
			in := gen.Represent(r, gen.CopyRaw(raw), sub.shape, sub.env, 0)
			if rep >= 2 && !sub.shape.HasEmptyDef() {
				// a plausible value near some boundary at one leaf: whatever Unserialize still accepts must
				// satisfy the whole chain
				in, _ = gen.Perturb(r, gen.CopyRaw(raw))
				c.Count("perturbed_inputs")
			}
			viaCBOR := false
			if r.Chance(35) {
				if cb, err := gen.ViaCBOR(in); err == nil {
					in, viaCBOR = cb, true
				}
			}
			nonNative := viaCBOR || cmpx.Canon(in) != cmpx.Canon(raw)
			c.Eval(wk.Hash64(descr, cmpx.Canon(in)), nonNative || sub.shape.Depth() >= 2)
			c01Chain(c, sub, descr, in, viaCBOR)
		}
		// two keys of a map that denote the same key ("7" beside 7): whatever Unserialize makes of it, an accepted
		// result must still satisfy the chain (in particular the size bounds)
		if raw, ok := gen.ValidRaw(r, sub.shape, sub.env, 0); ok {
			if in, ok := gen.AddCollidingKey(r, gen.CopyRaw(raw)); ok {
				c.Count("inputs_with_colliding_keys")
				c.Eval(wk.Hash64(descr, "colliding", cmpx.Canon(in)), true)
				c01Chain(c, sub, descr, in, false)
			}
			if in, ok := gen.AddCollidingSpelling(r, gen.CopyRaw(raw)); ok {
				c.Count("inputs_with_colliding_key_spellings")
				c.Eval(wk.Hash64(descr, "colliding-spelling", cmpx.Canon(in)), true)
				c01Chain(c, sub, descr, in, false)
			}
		}
		if idx < 4 {
			c.Sample("schema", descr)
		}
	})
}

func c01Chain(c *wk.Ctx, sub c01Subject, descr string, in any, viaCBOR bool) {
	t := sub.t
	wit := map[string]any{"schema": clipStr(descr, 1500), "input": clipStr(fmt.Sprintf("%#v", in), 800), "input_via_cbor": viaCBOR}
	root := sub.shape.Kind.String()
	viol := func(kind, what string) {
		c.Violation("C01:"+kind, what+" [schema root "+root+"]", wit)
	}
	var v any
	var err error
	guard := func(op string, f func()) bool {
		c.Note(op + " root=" + root)
		p, site, msg, _ := wk.Guard(f)
		if p {
			viol("panic:"+op+":"+site, op+" panicked: "+msg)
		}
		return !p
	}
	if !guard("Unserialize", func() { v, err = t.Unserialize(in) }) {
		return
	}
	if err != nil {
		c.Count("inputs_rejected")
		return
	}
	c.Count("inputs_accepted")
	wit["unserialized"] = clipStr(cmpx.Canon(v), 800)
	// typed entry point must agree
	if out, ok := callTyped(t, "UnserializeType", in); ok {
		c.Count("typed_entry_point_checks")
		if e := errOf(out[1]); e != nil {
			viol("typed-differs:UnserializeType:error", fmt.Sprintf("Unserialize accepts but UnserializeType fails: %v", e))
		} else if cmpx.Canon(out[0].Interface()) != cmpx.Canon(v) {
			viol("typed-differs:UnserializeType:"+diffOf(out[0].Interface(), v), "UnserializeType returns a different value than Unserialize")
		}
	} else if m := reflect.ValueOf(t).MethodByName("UnserializeType"); m.IsValid() {
		var pan bool
		guard("UnserializeType", func() {
			defer func() {
				if p := recover(); p != nil {
					pan = true
					panic(p)
				}
			}()
			m.Call([]reflect.Value{reflect.ValueOf(&in).Elem()})
		})
		_ = pan
	}
	var verr error
	if !guard("Validate", func() { verr = t.Validate(v) }) {
		return
	}
	if verr != nil {
		viol("validate-rejects-unserialized:"+normMsg(verr), fmt.Sprintf("Unserialize accepted the input but Validate rejects the result: %v", verr))
		return
	}
	if out, ok := callTyped(t, "ValidateType", v); ok {
		c.Count("typed_entry_point_checks")
		if e := errOf(out[0]); e != nil {
			viol("typed-differs:ValidateType", fmt.Sprintf("Validate accepts but ValidateType fails: %v", e))
		}
	}
	var w any
	if !guard("Serialize", func() { w, err = t.Serialize(v) }) {
		return
	}
	if err != nil {
		viol("serialize-fails:"+normMsg(err), fmt.Sprintf("Serialize of an unserialized value fails: %v", err))
		return
	}
	wit["serialized"] = clipStr(cmpx.Canon(w), 800)
	if out, ok := callTyped(t, "SerializeType", v); ok {
		c.Count("typed_entry_point_checks")
		if e := errOf(out[1]); e != nil {
			viol("typed-differs:SerializeType:error", fmt.Sprintf("Serialize succeeds but SerializeType fails: %v", e))
		} else if cmpx.Canon(out[0].Interface()) != cmpx.Canon(w) {
			viol("typed-differs:SerializeType:"+diffOf(out[0].Interface(), w), "SerializeType returns a different wire form than Serialize")
		}
	}
	var v1 any
	if !guard("Unserialize(Serialize)", func() { v1, err = t.Unserialize(w) }) {
		return
	}
	if err != nil {
		viol("reunserialize-fails:"+normMsg(err), fmt.Sprintf("Unserialize rejects the serialized form of its own result: %v", err))
		return
	}
	if cmpx.Canon(v1) != cmpx.Canon(v) {
		wit["reunserialized"] = clipStr(cmpx.Canon(v1), 800)
		viol("roundtrip-native-differs:"+diffOf(v, v1), "Unserialize(Serialize(v)) != v")
		return
	}
	var w1 any
	if !guard("Serialize(2)", func() { w1, err = t.Serialize(v1) }) {
		return
	}
	if err != nil || cmpx.Canon(w1) != cmpx.Canon(w) {
		viol("reserialize-differs:"+diffOf(w, w1), fmt.Sprintf("Serialize is not idempotent on wire forms (err=%v)", err))
		return
	}
	// the CBOR leg, exactly as ATP transports it
	cw, cerr := gen.ViaCBOR(w)
	if cerr != nil {
		viol("wire-form-not-cbor-encodable", fmt.Sprintf("the serialized form cannot pass through CBOR: %v", cerr))
		return
	}
	var v2 any
	if !guard("Unserialize(cbor(Serialize))", func() { v2, err = t.Unserialize(cw) }) {
		return
	}
	if err != nil {
		wit["after_cbor"] = clipStr(cmpx.Canon(cw), 800)
		viol("cbor-reunserialize-fails:"+normMsg(err), fmt.Sprintf("after a CBOR encode/decode the serialized form is rejected: %v", err))
		return
	}
	if cmpx.Canon(v2) != cmpx.Canon(v) {
		wit["after_cbor_unserialized"] = clipStr(cmpx.Canon(v2), 800)
		viol("cbor-roundtrip-native-differs:"+diffOf(v, v2), "Unserialize(cbor(Serialize(v))) != v")
		return
	}
	var w2 any
	if !guard("Serialize(3)", func() { w2, err = t.Serialize(v2) }) {
		return
	}
	if err != nil {
		viol("cbor-reserialize-fails:"+normMsg(err), fmt.Sprintf("Serialize after the CBOR leg fails: %v", err))
		return
	}
	cw2, cerr := gen.ViaCBOR(w2)
	if cerr != nil || cmpx.Canon(cw2) != cmpx.Canon(cw) {
		viol("cbor-reserialize-differs:"+diffOf(cw, cw2), "the wire form after the CBOR leg differs from the original wire form")
		return
	}
	c.Count("chains_completed")
	if viaCBOR {
		c.Count("chains_completed_from_cbor_input")
	}
}

func init() { register("C01", runC01) }

// c01AliasedInlined: an inlined one-of whose keys are aliases of ONE struct-mapped member (the discriminator is a
// field of the struct, so the value itself remembers which key was used). Whatever key the input uses comes back from
// the round trip, in memory and over CBOR.
func c01AliasedInlined(c *wk.Ctx) {
	prop := func(t schema.Type, req bool) *schema.PropertySchema {
		return schema.NewPropertySchema(t, nil, req, nil, nil, nil, nil, nil)
	}
	member := func() *schema.ObjectSchema {
		return schema.NewStructMappedObjectSchema[gen.P4]("K", map[string]*schema.PropertySchema{
			"kind": prop(schema.NewStringSchema(nil, nil, nil), true), "x": prop(schema.NewIntSchema(nil, nil, nil), false)})
	}
	m := member()
	oneOf := schema.NewOneOfStringSchema[any](map[string]schema.Object{"k8s": m, "kubernetes": m, "kube": m}, "kind", true)
	types := map[string]schema.Type{
		"the one-of itself":    oneOf,
		"a list of the one-of": schema.NewListSchema(oneOf, nil, nil),
	}
	for name, t := range types {
		for _, key := range []string{"k8s", "kubernetes", "kube"} {
			var raw any = map[string]any{"kind": key, "x": int64(3)}
			if name != "the one-of itself" {
				raw = []any{raw, map[string]any{"kind": "kube", "x": int64(1)}}
			}
			w := map[string]any{"schema": name + " {k8s, kubernetes, kube -> one struct-mapped object}", "input": cmpx.Canon(raw)}
			c.Count("chains")
			c.Eval(wk.Hash64("aliased-inlined", name, key), true)
			var v, ser, v2, v3 any
			var err error
			if p, site, msg, _ := wk.Guard(func() {
				if v, err = t.Unserialize(cmpx.DeepCopy(raw)); err != nil {
					return
				}
				if err = t.Validate(v); err != nil {
					return
				}
				if ser, err = t.Serialize(v); err != nil {
					return
				}
				if v2, err = t.Unserialize(cmpx.DeepCopy(ser)); err != nil {
					return
				}
				var viaCBOR any
				if viaCBOR, err = gen.ViaCBOR(ser); err != nil {
					return
				}
				v3, err = t.Unserialize(viaCBOR)
			}); p {
				c.Violation("C01:panic:"+site, "the round trip of an aliased inlined one-of panicked: "+msg, w)
				continue
			}
			if err != nil {
				c.Violation("C01:aliased-inlined-one-of:chain-fails", fmt.Sprintf("a step of U -> Validate -> S -> U -> U(cbor) failed: %v", err), w)
				continue
			}
			if cmpx.Canon(v) != cmpx.Canon(v2) || cmpx.Canon(v) != cmpx.Canon(v3) {
				w["unserialized"], w["serialized"], w["reunserialized"], w["after_cbor"] = cmpx.Canon(v), cmpx.Canon(ser), cmpx.Canon(v2), cmpx.Canon(v3)
				c.Violation("C01:roundtrip-native-differs:aliased-inlined-one-of", "Unserialize(Serialize(v)) differs from v: the key the input used does not come back", w)
			}
		}
	}
}
