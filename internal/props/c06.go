package props

import (
	"encoding/json"
	"fmt"
	"math"
	"os"
	"path/filepath"
	"sort"
	"strings"
	"sync/atomic"

	"go.flow.arcalot.io/pluginsdk/schema"

	"verif/internal/rig"
	"verif/internal/wk"
)

type yieldPoint struct {
	N    int    `json:"n"`
	File string `json:"file"`
	Line int    `json:"line"`
	Func string `json:"func"`
	Kind string `json:"kind"`
}

func loadYieldPoints(variant string) map[int]yieldPoint {
	out := map[int]yieldPoint{}
	b, err := os.ReadFile(filepath.Join(os.Getenv("VERIF_WORK"), "overlay-"+variant, "points.json"))
	if err != nil {
		return out
	}
	var ps []yieldPoint
	if json.Unmarshal(b, &ps) == nil {
		for _, p := range ps {
			out[p.N] = p
		}
	}
	return out
}

func describePause(points map[int]yieldPoint, sched []rig.PauseAt) []string {
	var out []string
	for _, p := range sched {
		yp := points[p.Point]
		out = append(out, fmt.Sprintf("pause at %s:%d (%s, before %s), hit #%d", yp.File, yp.Line, yp.Func, yp.Kind, p.Hit))
	}
	return out
}

func echoIn(nonce string, extra map[string]any) map[string]any {
	m := map[string]any{"nonce": nonce, "n": int64(len(nonce))}
	for k, v := range extra {
		m[k] = v
	}
	return m
}

type c06History struct {
	name         string
	groups       func(tag string) [][]rig.ExecSpec
	closeOverlap bool
	// rendezvous histories run (without pauses) over pipes on which a write blocks until the other side reads
	rendezvous bool
}

// c06ExecAtClose: the extra call of the "exec-at-close" histories.
func c06ExecAtClose(history, tag string) *rig.ExecSpec {
	if !strings.HasPrefix(history, "exec-at-close:") {
		return nil
	}
	return &rig.ExecSpec{RunID: tag + "-late", StepID: "echo2", Input: echoIn(tag+"-late", nil), NoSigCh: true}
}

func c06Histories() []c06History {
	ex := func(tag, run, step string, extra map[string]any) rig.ExecSpec {
		return rig.ExecSpec{RunID: tag + "-" + run, StepID: step, Input: echoIn(tag+"-"+run, extra), NoSigCh: true}
	}
	withSignals := func(e rig.ExecSpec, n int) rig.ExecSpec {
		e.NoSigCh = false
		for i := 0; i < n; i++ {
			e.Signals = append(e.Signals, schema.Input{RunID: e.RunID, ID: "record", InputData: map[string]any{"v": int64(i + 1)}})
		}
		return e
	}
	return []c06History{
		{"one", func(t string) [][]rig.ExecSpec { return [][]rig.ExecSpec{{ex(t, "a", "echo", nil)}} }, false, false},
		{"serial3", func(t string) [][]rig.ExecSpec {
			return [][]rig.ExecSpec{{ex(t, "a", "echo", nil)}, {ex(t, "b", "echo2", nil)}, {ex(t, "c", "echo", nil)}}
		}, false, false},
		{"overlap2-then-1", func(t string) [][]rig.ExecSpec {
			return [][]rig.ExecSpec{{ex(t, "a", "echo", nil), ex(t, "b", "echo2", nil)}, {ex(t, "c", "echo", nil)}}
		}, false, false},
		{"overlap3", func(t string) [][]rig.ExecSpec {
			return [][]rig.ExecSpec{{ex(t, "a", "echo", nil), ex(t, "b", "echo", nil), ex(t, "c", "sig", nil)}}
		}, false, false},
		{"signals-serial", func(t string) [][]rig.ExecSpec {
			return [][]rig.ExecSpec{{withSignals(ex(t, "a", "sig", nil), 2)}, {withSignals(ex(t, "b", "sig", nil), 1)}}
		}, false, false},
		{"signals-overlap", func(t string) [][]rig.ExecSpec {
			return [][]rig.ExecSpec{{withSignals(ex(t, "a", "sig", nil), 2), ex(t, "b", "echo", nil)}, {ex(t, "c", "echo", nil)}}
		}, false, false},
		{"await: steps that finish only when their signal has reached them", func(t string) [][]rig.ExecSpec {
			await := func(run string, n int64) rig.ExecSpec {
				e := ex(t, run, "sig", map[string]any{"mode": "await", "n": n})
				e.NoSigCh = false
				e.Signals = []schema.Input{{RunID: e.RunID, ID: "record", InputData: map[string]any{"v": n}}}
				return e
			}
			return [][]rig.ExecSpec{{await("a", 7)}, {await("b", 8), await("c", 9), ex(t, "d", "echo", nil)}, {await("e", 10)}}
		}, false, false},
		{"a signal handler that takes its time, then more work", func(t string) [][]rig.ExecSpec {
			a := ex(t, "a", "sig", map[string]any{"mode": "gated"})
			a.NoSigCh = false
			a.Signals = []schema.Input{{RunID: a.RunID, ID: "record", InputData: map[string]any{"v": int64(rig.SignalSlowValue)}}, {RunID: a.RunID, ID: "record", InputData: map[string]any{"v": int64(2)}}}
			return [][]rig.ExecSpec{{a}, {ex(t, "b", "echo", nil), ex(t, "c", "sig", nil)}, {ex(t, "d", "echo2", nil)}}
		}, false, false},
		{"open-signal-channel", func(t string) [][]rig.ExecSpec {
			// a signal channel that is passed but never used nor closed by the caller until Close
			a := ex(t, "a", "sig", nil)
			a.NoSigCh = false
			return [][]rig.ExecSpec{{a}, {ex(t, "b", "echo", nil)}}
		}, false, false},
		{"step-fatal-then-ok", func(t string) [][]rig.ExecSpec {
			return [][]rig.ExecSpec{{ex(t, "a", "echo", map[string]any{"mode": "panic"})}, {ex(t, "b", "echo", map[string]any{"mode": "undeclared"})}, {ex(t, "c", "echo", nil)}}
		}, false, false},
		{"errors-overlap", func(t string) [][]rig.ExecSpec {
			return [][]rig.ExecSpec{{ex(t, "a", "echo", map[string]any{"mode": "badout"}), ex(t, "b", "echo", nil), ex(t, "c", "nosuchstep", nil)}, {ex(t, "d", "echo", map[string]any{"mode": "err"})}}
		}, false, false},
		{"rejected-input-then-ok", func(t string) [][]rig.ExecSpec {
			bad := rig.ExecSpec{RunID: t + "-a", StepID: "echo", Input: map[string]any{"n": "not a number"}, NoSigCh: true}
			return [][]rig.ExecSpec{{bad}, {ex(t, "b", "echo", nil)}}
		}, false, false},
		{"unencodable-input-then-ok", func(t string) [][]rig.ExecSpec {
			// the work-start message cannot be CBOR-encoded (a channel in the input): that Execute fails on the client side
			bad := rig.ExecSpec{RunID: t + "-a", StepID: "echo", Input: map[string]any{"n": make(chan int)}, NoSigCh: true}
			return [][]rig.ExecSpec{{bad}, {ex(t, "b", "echo", nil)}}
		}, false, false},
		{"unencodable-input-overlap", func(t string) [][]rig.ExecSpec {
			bad := rig.ExecSpec{RunID: t + "-a", StepID: "echo", Input: map[string]any{"n": func() {}}, NoSigCh: true}
			return [][]rig.ExecSpec{{bad, ex(t, "b", "echo", map[string]any{"mode": "gated"})}, {ex(t, "c", "echo", nil)}}
		}, false, false},
		{"unencodable-input-last", func(t string) [][]rig.ExecSpec {
			bad := rig.ExecSpec{RunID: t + "-b", StepID: "echo", Input: map[string]any{"n": make(chan int)}, NoSigCh: true}
			return [][]rig.ExecSpec{{ex(t, "a", "echo", nil)}, {bad}}
		}, false, false},
		{"duplicate-run-id-while-running", func(t string) [][]rig.ExecSpec {
			// the second Execute names a run that is still in flight: it is refused, the first must still finish
			a := ex(t, "a", "echo", map[string]any{"mode": "gated"})
			dup := ex(t, "a", "echo2", nil)
			return [][]rig.ExecSpec{{a, dup}, {ex(t, "b", "echo", nil)}}
		}, false, false},
		{"refused-calls-that-carry-signal-channels", func(t string) [][]rig.ExecSpec {
			// calls that fail before their work-start is out (a run ID that is in flight, an input that cannot be
			// encoded) and that were given signal channels: open ones, ones with signals queued; then Close
			a := withSignals(ex(t, "a", "sig", map[string]any{"mode": "gated"}), 1)
			dup := withSignals(ex(t, "a", "sig", nil), 2)
			dupOpen := ex(t, "a", "echo", nil)
			dupOpen.NoSigCh, dupOpen.HoldSigCh = false, true
			bad := withSignals(rig.ExecSpec{RunID: t + "-bad", StepID: "sig", Input: map[string]any{"nonce": t + "-bad", "n": make(chan int)}}, 1)
			return [][]rig.ExecSpec{{a, dup, dupOpen, bad}}
		}, false, false},
		{"late-writes: the same run ID again, quickly", func(t string) [][]rig.ExecSpec {
			// the client's writes return late, so a run can have its result before its own Execute has got as far as
			// waiting for it; a second call with that run ID arrives in between (it is refused: the ID is in use
			// until the first call has collected its result)
			return [][]rig.ExecSpec{{ex(t, "a", "echo", nil), ex(t, "a", "echo2", nil)}, {ex(t, "a", "echo", nil)}}
		}, false, false},
		{"exec-at-close: a call issued while Close is being called on an idle client", func(t string) [][]rig.ExecSpec {
			return [][]rig.ExecSpec{{ex(t, "a", "echo", nil)}}
		}, false, false},
		{"nan-and-inf-inputs-then-close", func(t string) [][]rig.ExecSpec {
			return [][]rig.ExecSpec{{ex(t, "a", "echo", map[string]any{"payload": 0.5})}, {ex(t, "b", "echo", map[string]any{"payload": math.NaN()})}, {ex(t, "c", "echo", map[string]any{"payload": []any{math.Inf(1), math.Inf(-1)}})}}
		}, false, false},
		{"nan-input-only", func(t string) [][]rig.ExecSpec {
			return [][]rig.ExecSpec{{ex(t, "a", "echo", map[string]any{"payload": math.NaN()})}}
		}, false, false},
		{"empty-step-id-overlap", func(t string) [][]rig.ExecSpec {
			// the server answers an empty step ID with a step-fatal error that carries no run ID
			return [][]rig.ExecSpec{{ex(t, "a", "", nil), ex(t, "b", "echo", map[string]any{"mode": "gated"})}, {ex(t, "c", "echo", nil)}}
		}, false, false},
		{"empty-step-id-then-slow", func(t string) [][]rig.ExecSpec {
			return [][]rig.ExecSpec{{ex(t, "a", "", nil)}, {ex(t, "b", "echo", map[string]any{"mode": "gated"})}}
		}, false, false},
		{"slow-serial", func(t string) [][]rig.ExecSpec {
			return [][]rig.ExecSpec{{ex(t, "a", "echo", map[string]any{"mode": "gated"})}, {ex(t, "b", "echo2", map[string]any{"mode": "gated"})}}
		}, false, false},
		{"slow-overlap", func(t string) [][]rig.ExecSpec {
			return [][]rig.ExecSpec{{ex(t, "a", "echo", map[string]any{"mode": "gated"}), ex(t, "b", "echo", nil)}, {ex(t, "c", "sig", map[string]any{"mode": "gated"})}}
		}, false, false},
		{"empty-step-id-serial", func(t string) [][]rig.ExecSpec {
			return [][]rig.ExecSpec{{ex(t, "a", "", nil)}, {ex(t, "b", "echo", nil)}}
		}, false, false},
		{"close-overlaps-2-slow", func(t string) [][]rig.ExecSpec {
			return [][]rig.ExecSpec{{ex(t, "a", "echo", nil)}, {ex(t, "b", "echo", map[string]any{"mode": "gated"}), ex(t, "c", "echo2", map[string]any{"mode": "gated"})}}
		}, true, false},
		{"close-overlaps-3-mixed", func(t string) [][]rig.ExecSpec {
			return [][]rig.ExecSpec{{withSignals(ex(t, "a", "sig", map[string]any{"mode": "gated"}), 1), ex(t, "b", "echo", map[string]any{"mode": "panic"}), ex(t, "c", "echo", map[string]any{"mode": "gated"})}}
		}, true, false},
		{"close-overlaps-1-fast", func(t string) [][]rig.ExecSpec {
			return [][]rig.ExecSpec{{ex(t, "a", "echo", nil)}}
		}, true, false},
		{"rendezvous: close overlaps a run with a backlog of signals for an unknown run", func(t string) [][]rig.ExecSpec {
			a := ex(t, "a", "sig", map[string]any{"mode": "gated"})
			a.NoSigCh = false
			for i := 0; i < 48; i++ {
				a.Signals = append(a.Signals, schema.Input{RunID: t + "-ghost", ID: "record", InputData: map[string]any{"v": int64(i)}})
			}
			return [][]rig.ExecSpec{{a}}
		}, true, true},
		{"rendezvous: signals for an unknown run, then more work", func(t string) [][]rig.ExecSpec {
			a := ex(t, "a", "sig", map[string]any{"mode": "gated"})
			a.NoSigCh = false
			for i := 0; i < 12; i++ {
				a.Signals = append(a.Signals, schema.Input{RunID: t + "-ghost", ID: "record", InputData: map[string]any{"v": int64(i)}})
			}
			return [][]rig.ExecSpec{{a, ex(t, "b", "echo", nil), ex(t, "c", "nosuchstep", nil)}, {ex(t, "d", "echo", nil)}}
		}, false, true},
		{"rendezvous: burst of failing calls", func(t string) [][]rig.ExecSpec {
			var g []rig.ExecSpec
			for i := 0; i < 18; i++ {
				id := fmt.Sprintf("b%d", i)
				switch i % 3 {
				case 0:
					g = append(g, ex(t, id, "nosuchstep", nil))
				case 1:
					g = append(g, rig.ExecSpec{RunID: t + "-" + id, StepID: "echo", Input: map[string]any{"n": "not a number"}, NoSigCh: true})
				default:
					g = append(g, ex(t, id, "echo", nil))
				}
			}
			return [][]rig.ExecSpec{g}
		}, false, true},
	}
}

// c06Judge turns a session result into violations of C06.
func c06Judge(c *wk.Ctx, prop string, h string, spec rig.SessionSpec, res *rig.SessionResult, points map[int]yieldPoint) bool {
	wit := map[string]any{"history": h, "schedule": spec.Sched, "schedule_text": describePause(points, spec.Sched), "lifo": spec.Lifo, "pauses_first": spec.PausesFirst,
		"transport": fmt.Sprintf("c2s=%s s2c=%s", spec.C2S, spec.S2C), "chunk_seed": spec.ChunkSeed, "slow_client_reads": spec.SlowClientReads, "close_after_client_messages": spec.CloseAfterItems, "client_writes_return_late": spec.LateClientWrites}
	switch res.Monitor.Outcome {
	case "inconclusive":
		c.Inconclusive(fmt.Sprintf("history=%s schedule=%v: watchdog fired; still running: %v", h, spec.Sched, res.Monitor.Verdict.RunningDescr) + snapSummary(res.Monitor.Snap))
		return false
	case "send-timer-stall":
		var unreturned []string
		for _, e := range res.Execs {
			if atomic.LoadInt32(&e.Returned) == 0 {
				unreturned = append(unreturned, e.Spec.RunID)
			}
		}
		wit["goroutines"] = res.Monitor.Snap.Detail()
		if len(unreturned) == 0 && res.CloseReturnedAtVerdict {
			c.Inconclusive(fmt.Sprintf("history=%s schedule=%v: only the server's send timer is pending, but no caller is waiting", h, spec.Sched))
			return false
		}
		c.Violation(prop+":callers-wait-for-the-send-timeout:"+stallClass(res.Monitor.Snap), fmt.Sprintf("history %s: Execute %v / Close(returned=%v) wait while every goroutine is blocked and only the plugin's 60 s send timeout can still fire (%s)", h, unreturned, res.CloseReturnedAtVerdict, stallClass(res.Monitor.Snap)), wit)
		return false
	case "deadlock":
		var blocked []string
		seen := map[string]bool{}
		for _, g := range res.Monitor.Snap.BlockedIn("pluginsdk/atp.", res.BaseGID) {
			f := g.State + "@" + shortFrame(g)
			if !seen[f] {
				seen[f] = true
				blocked = append(blocked, f)
			}
		}
		sort.Strings(blocked)
		var unreturned []string
		for _, e := range res.Execs {
			if atomic.LoadInt32(&e.Returned) == 0 {
				unreturned = append(unreturned, e.Spec.RunID)
			}
		}
		wit["blocked"] = res.Monitor.Snap.Summary()
		wit["unreturned_executes"] = unreturned
		wit["close_returned"] = res.CloseReturnedAtVerdict
		wit["server_returned"] = res.ServerDoneAtVerdict
		wit["goroutines"] = clipStr(res.Monitor.Snap.Raw, 12000)
		c.Violation(prop+":deadlock:"+strings.Join(blocked, "|"),
			fmt.Sprintf("history %s: every goroutine is blocked (no timer, nothing parked) but Execute %v / Close(returned=%v) / server(returned=%v) never return; %s",
				h, unreturned, res.CloseReturnedAtVerdict, res.ServerDoneAtVerdict, strings.Join(describePause(points, spec.Sched), "; ")), wit)
		return true
	}
	bad := false
	if res.Panic != "" {
		wit["stack"] = clipStr(res.PanicStack, 6000)
		c.Violation(prop+":panic:"+panicSiteFromStack(res.PanicStack), "history "+h+": "+res.Panic, wit)
		bad = true
	}
	if res.ReadSchemaErr != nil {
		c.Violation(prop+":readschema-failed", fmt.Sprintf("history %s: ReadSchema failed on a healthy connection: %v", h, res.ReadSchemaErr), wit)
		bad = true
	}
	for _, e := range res.Execs {
		if atomic.LoadInt32(&e.Returned) != 1 {
			c.Violation(prop+":execute-return-count", fmt.Sprintf("history %s: Execute(%s) returned %d times", h, e.Spec.RunID, atomic.LoadInt32(&e.Returned)), wit)
			bad = true
		}
	}
	if !res.CloseReturned && res.Panic == "" {
		c.Violation(prop+":close-not-returned", "history "+h+": session finished but Close did not return", wit)
		bad = true
	}
	if len(res.Leaked) > 0 {
		wit["leaked"] = res.Leaked
		sort.Strings(res.Leaked)
		c.Violation(prop+":goroutine-leak:"+res.Leaked[0], fmt.Sprintf("history %s: after Close returned, client goroutine(s) remain blocked: %v", h, res.Leaked), wit)
		bad = true
	}
	return bad
}

func shortFrame(g rig.GState) string {
	for _, f := range g.Funcs {
		if strings.Contains(f, "pluginsdk/") && !strings.HasPrefix(f, "created-by:") {
			f = f[strings.Index(f, "pluginsdk/")+len("pluginsdk/"):]
			return f
		}
	}
	return "?"
}

func panicSiteFromStack(stack string) string {
	for _, ln := range strings.Split(stack, "\n") {
		if strings.HasPrefix(ln, "go.flow.arcalot.io/pluginsdk/") {
			f := strings.TrimPrefix(ln, "go.flow.arcalot.io/pluginsdk/")
			if k := strings.LastIndexByte(f, '('); k > 0 {
				f = f[:k]
			}
			return f
		}
	}
	return "non-sdk"
}

func runC06(c *wk.Ctx) {
	rig.SendTimerStallIsVerdict = true
	c.Meta("rule", "session histories (1 execute; 3 serial; 2 overlapping then 1; 3 overlapping; with to-step signals serial/overlapping; unused open signal channel; step-fatal errors; rejected input) against the real client and real RunATPServer in one process over buffered and chunked in-memory transports. Schedules: a baseline run records every (yield point, hit ordinal<=3) reached in atp/client.go+server.go (overlay build, one yield point before every statement); then every such point is paused singly, and pairs are sampled (thorough: many more). A paused goroutine is parked until a stop-the-world goroutine snapshot shows every other goroutine blocked, then released (logical time, no sleeps). Verdict: a snapshot with every goroutine blocked on chan/cond/mutex/WaitGroup, nothing parked, no SDK timer pending, and an unreturned Execute/Close = deadlock. non-trivial = at least one pause actually took effect; distinct = hash(history, schedule, transport) Histories with steps that need their signal to finish, and with a signal handler that takes its time while other calls go on.")
	c.Meta("assumptions", []string{"a goroutine parked in the SDK's two timed selects (60 s send timeout, 5 s close timeout) makes the snapshot non-quiescent; such runs end inconclusive, never as violations",
		"schedules perturb at statement granularity, singly and in pairs; triple-delay interleavings are out of reach"})
	if !rig.OverlayBuild {
		panic("C06 needs the overlay build")
	}
	points := loadYieldPoints(c.Variant)
	c.Meta("cov.yield_points_total", len(points))
	hist := c06Histories()
	modes := []struct{ c2s, s2c rig.Mode }{{rig.ModeBuffered, rig.ModeBuffered}, {rig.ModeChunked, rig.ModeChunked}}
	// Baselines: which (point, ordinal) pairs does each history reach?
	type pa = rig.PauseAt
	singles := make([][]pa, len(hist))
	for hi, h := range hist {
		set := map[pa]bool{}
		for rep := 0; rep < 3; rep++ {
			bm := modes[rep%2]
			if h.rendezvous {
				bm.c2s, bm.s2c = rig.ModeSync, rig.ModeSync
			}
			res := rig.RunSession(rig.SessionSpec{C2S: bm.c2s, S2C: bm.s2c, ChunkSeed: uint64(rep + 1), Groups: h.groups(fmt.Sprintf("base%d", rep)), CloseOverlap: h.closeOverlap,
				LateClientWrites: strings.HasPrefix(h.name, "late-writes:"), ExecAtClose: c06ExecAtClose(h.name, fmt.Sprintf("base%d", rep)), PluginExits: strings.HasPrefix(h.name, "exec-at-close:")})
			if res.Monitor.Outcome != "done" {
				// the unperturbed history itself does not complete: judged as a case below (schedule empty)
				continue
			}
			for p, n := range res.Hits {
				for k := 1; k <= n && k <= 3; k++ {
					set[pa{Point: p, Hit: k}] = true
				}
			}
		}
		for p := range set {
			singles[hi] = append(singles[hi], p)
		}
		sort.Slice(singles[hi], func(i, j int) bool {
			a, b := singles[hi][i], singles[hi][j]
			if a.Point != b.Point {
				return a.Point < b.Point
			}
			return a.Hit < b.Hit
		})
	}
	// Case space: per history: 1 (no pause) + singles + npairs sampled pairs.
	npairs := int(c.N(250, 24000))
	type caseRef struct {
		h, kind, k int
		pf         int // 0/1: slow steps first / paused goroutines first; -1: random
	}
	var cases []caseRef
	for hi := range hist {
		if hist[hi].rendezvous {
			for k := 0; k < 24; k++ {
				cases = append(cases, caseRef{hi, 3, k, 0})
			}
			// and every reached statement paused singly, on rendezvous pipes in both directions
			for k := range singles[hi] {
				cases = append(cases, caseRef{hi, 4, k, k % 2})
			}
			continue
		}
		cases = append(cases, caseRef{hi, 0, 0, 0})
		for k := range singles[hi] {
			cases = append(cases, caseRef{hi, 1, k, 0}, caseRef{hi, 1, k, 1})
		}
		for k := 0; k < npairs; k++ {
			cases = append(cases, caseRef{hi, 2, k, -1})
		}
	}
	// Signal traffic from the step to the client: the SDK's own server never emits signals, so a scripted peer (the
	// fault-free transcripts of the C08 check that carry emitted signals) plays the plugin; no pause, and every
	// statement of the client these sessions reach paused singly.
	var peerTs []c08Transcript
	for _, t := range c08Transcripts() {
		if t.name == "v3-concurrent-signals-errors" || strings.HasPrefix(t.name, "v3-step-fatal-without-run-id") || t.lateRecv {
			peerTs = append(peerTs, t)
		}
	}
	peerSingles := make([][]pa, len(peerTs))
	for ti := range peerTs {
		c08Sched = []pa{}
		res := c08Replay(&peerTs[ti], c08Fault{kind: rig.FaultNone, failWrites: -1}, rig.ModeBuffered, 1)
		c08Sched = nil
		if res.monitor.Outcome != "done" {
			// the unperturbed session itself does not complete: it is judged as a case (no pause) below
			for m := 0; m < 3; m++ {
				cases = append(cases, caseRef{ti, 5, -1, m})
			}
			continue
		}
		for p, n := range res.hits {
			for k := 1; k <= n && k <= 4; k++ {
				peerSingles[ti] = append(peerSingles[ti], pa{Point: p, Hit: k})
			}
		}
		sort.Slice(peerSingles[ti], func(i, j int) bool {
			a, b := peerSingles[ti][i], peerSingles[ti][j]
			if a.Point != b.Point {
				return a.Point < b.Point
			}
			return a.Hit < b.Hit
		})
		for m := 0; m < 3; m++ {
			cases = append(cases, caseRef{ti, 5, -1, m})
		}
		for k := range peerSingles[ti] {
			cases = append(cases, caseRef{ti, 5, k, k % 3})
		}
	}
	c.Floor("sessions", 50)
	c.Floor("sessions_with_effective_pause", 20)
	replay := c.ReplayWitness()
	pointsHit := map[int]bool{}
	sigs := map[uint64]bool{}
	c.Cases(int64(len(cases)), func(idx int64, r *wk.Rand) {
		cr := cases[idx]
		if cr.kind == 5 {
			t := &peerTs[cr.h]
			sched := []pa{}
			if cr.k >= 0 {
				sched = append(sched, peerSingles[cr.h][cr.k])
			}
			mode := []rig.Mode{rig.ModeBuffered, rig.ModeChunked, rig.ModeSync}[cr.pf]
			seed := r.U64()
			c.Note(fmt.Sprintf("scripted-peer=%s sched=%v mode=%s", t.name, sched, mode))
			c08Sched, c08SchedLifo = sched, r.Bool()
			res := c08Replay(t, c08Fault{kind: rig.FaultNone, failWrites: -1}, mode, seed)
			c08Sched = nil
			c.Count("sessions")
			c.Count("scripted_peer_sessions")
			c.Count("scripted-peer:" + t.name)
			if res.pauses > 0 {
				c.Count("sessions_with_effective_pause")
				c.Count("scripted_peer_sessions_with_effective_pause")
			}
			c.Eval(wk.Hash64("peer", t.name, fmt.Sprint(sched), mode.String()), res.pauses > 0)
			wit := map[string]any{"scripted_peer_transcript": t.name, "schedule": sched, "schedule_text": describePause(points, sched), "transport": "c2s=buffered s2c=" + mode.String(), "chunk_seed": seed, "lifo": c08SchedLifo}
			switch res.monitor.Outcome {
			case "inconclusive":
				c.Inconclusive(fmt.Sprintf("scripted peer %s schedule=%v: watchdog fired; still running: %v", t.name, sched, res.monitor.Verdict.RunningDescr) + snapSummary(res.monitor.Snap))
				return
			case "deadlock":
				var blocked []string
				seen := map[string]bool{}
				for _, g := range res.monitor.Snap.BlockedIn("pluginsdk/atp.", res.baseGID) {
					f := g.State + "@" + shortFrame(g)
					if !seen[f] {
						seen[f] = true
						blocked = append(blocked, f)
					}
				}
				sort.Strings(blocked)
				wit["goroutines"] = res.monitor.Snap.Detail()
				c.Violation("C06:scripted-peer-hang:"+strings.Join(blocked, "|"), fmt.Sprintf("scripted peer %s: every goroutine is blocked, Close returned: %v", t.name, res.closeReturned), wit)
				return
			}
			if res.panicMsg != "" {
				wit["stack"] = clipStr(res.panicStack, 5000)
				c.Violation("C06:panic:"+panicSiteFromStack(res.panicStack), res.panicMsg, wit)
				return
			}
			for _, e := range res.execs {
				if n := atomic.LoadInt32(&e.Returned); n != 1 {
					c.Violation("C06:execute-return-count", fmt.Sprintf("scripted peer %s: Execute(%s) returned %d times", t.name, e.Spec.RunID, n), wit)
				} else if e.Result.Error != nil && t.expectID[e.Spec.RunID] != "" {
					c.Violation("C06:scripted-peer-execute-failed", fmt.Sprintf("scripted peer %s: Execute(%s) failed on a healthy connection: %v", t.name, e.Spec.RunID, e.Result.Error), wit)
				}
			}
			if !res.closeReturned {
				c.Violation("C06:close-did-not-return", "scripted peer "+t.name, wit)
			}
			return
		}
		h := hist[cr.h]
		var sched []pa
		switch cr.kind {
		case 1, 4:
			sched = []pa{singles[cr.h][cr.k]}
		case 2:
			if len(singles[cr.h]) >= 2 {
				a := singles[cr.h][r.Intn(len(singles[cr.h]))]
				b := singles[cr.h][r.Intn(len(singles[cr.h]))]
				sched = []pa{a, b}
			}
		}
		m := modes[r.Intn(len(modes))]
		if cr.kind == 3 {
			rv := []struct{ c2s, s2c rig.Mode }{{rig.ModeSync, rig.ModeSync}, {rig.ModeSync, rig.ModeBuffered}, {rig.ModeBuffered, rig.ModeSync}}
			m = rv[cr.k%len(rv)]
			c.Count("rendezvous_sessions")
		}
		if cr.kind == 4 {
			m.c2s, m.s2c = rig.ModeSync, rig.ModeSync
			c.Count("rendezvous_sessions_with_a_pause")
		}
		spec := rig.SessionSpec{C2S: m.c2s, S2C: m.s2c, ChunkSeed: r.U64(), Groups: h.groups(fmt.Sprintf("c%d", idx)), Sched: sched, Lifo: r.Bool(), CloseOverlap: h.closeOverlap, PausesFirst: r.Bool()}
		spec.LateClientWrites = strings.HasPrefix(h.name, "late-writes:")
		spec.ExecAtClose = c06ExecAtClose(h.name, fmt.Sprintf("c%d", idx))
		spec.PluginExits = spec.ExecAtClose != nil // (a call that loses the race against Close learns of it when the plugin has gone)
		if cr.kind == 3 && cr.k >= 12 {
			// the client's read loop as the slowest stage: the plugin's replies queue up
			spec.SlowClientReads = []int{1000, 4000, 16000}[(cr.k/3)%3]
			c.Count("rendezvous_sessions_with_a_slow_client_reader")
			if h.closeOverlap {
				spec.CloseAfterItems = 8 + 3*(cr.k%4)
			}
		}
		if cr.pf >= 0 {
			spec.PausesFirst = cr.pf == 1
		}
		if replay != nil {
			if b, err := json.Marshal(replay["schedule"]); err == nil {
				var s2 []pa
				if json.Unmarshal(b, &s2) == nil {
					spec.Sched = s2
				}
			}
			if l, ok := replay["lifo"].(bool); ok {
				spec.Lifo = l
			}
			if l, ok := replay["pauses_first"].(bool); ok {
				spec.PausesFirst = l
			}
		}
		c.Note(fmt.Sprintf("history=%s sched=%v", h.name, spec.Sched))
		res := rig.RunSession(spec)
		c.Count("sessions")
		c.Count("history:" + h.name)
		c.CountN("snapshots", int64(res.Monitor.Snapshots))
		c.CountN("yield_hits", res.NHits)
		if res.Pauses > 0 {
			c.Count("sessions_with_effective_pause")
		}
		if res.Pauses >= 2 {
			c.Count("sessions_with_two_effective_pauses")
		}
		for p := range res.Hits {
			if !pointsHit[p] {
				pointsHit[p] = true
				c.Count("yield_points_hit_by_this_shard")
			}
		}
		if !sigs[res.Sig] {
			sigs[res.Sig] = true
			c.Count("distinct_interleaving_signatures_in_shard")
		}
		c.Eval(wk.Hash64(h.name, fmt.Sprint(spec.Sched), fmt.Sprint(spec.Lifo), m.c2s.String()), res.Pauses > 0)
		bad := c06Judge(c, "C06", h.name, spec, res, points)
		if !bad && res.Pauses > 0 && idx%211 == 0 {
			c.Sample("session", map[string]any{"history": h.name, "schedule": describePause(points, spec.Sched), "outcome": res.Monitor.Outcome,
				"snapshots": res.Monitor.Snapshots, "yield_hits": res.NHits, "released": res.Monitor.Released})
		}
	})
}

func init() { register("C06", runC06) }
