package props

import (
	"fmt"
	"math"
	"reflect"

	"go.flow.arcalot.io/pluginsdk/schema"

	"verif/internal/cmpx"
	"verif/internal/gen"
	"verif/internal/ref"
	"verif/internal/wk"
)

// ---- the enumerated object space ------------------------------------------------

type c03Rule struct {
	kind   int // 0 none, 1 required_if, 2 required_if_not, 3 conflicts
	others []int
}

func c03Subsets(n int) [][]int {
	var out [][]int
	for m := 0; m < 1<<uint(n); m++ {
		var s []int
		for i := 0; i < n; i++ {
			if m&(1<<uint(i)) != 0 {
				s = append(s, i)
			}
		}
		out = append(out, s)
	}
	return out
}

type c03PropCfg struct {
	required bool
	hasDef   bool
	disabled bool
	reqIf    []int // indices into "others"
	reqIfNot []int
	confl    []int
}

var c03Names = []string{"a", "b", "c"}

// c03PropCfgs: k<=2: the full product of flags and rule sets; k==3: at most one rule kind per property
// (with any subset of the two other properties), required x default, disabled on at most one property.
func c03PropCfgs(k int) []c03PropCfg {
	var out []c03PropCfg
	nOthers := k - 1
	subs := c03Subsets(nOthers)
	if k <= 2 {
		for _, req := range []bool{false, true} {
			for _, def := range []bool{false, true} {
				for _, dis := range []bool{false, true} {
					for _, ri := range subs {
						for _, rn := range subs {
							for _, cf := range subs {
								out = append(out, c03PropCfg{req, def, dis, ri, rn, cf})
							}
						}
					}
				}
			}
		}
		return out
	}
	for _, req := range []bool{false, true} {
		for _, def := range []bool{false, true} {
			out = append(out, c03PropCfg{required: req, hasDef: def})
			for _, sub := range subs[1:] {
				out = append(out, c03PropCfg{required: req, hasDef: def, reqIf: sub})
				out = append(out, c03PropCfg{required: req, hasDef: def, reqIfNot: sub})
				out = append(out, c03PropCfg{required: req, hasDef: def, confl: sub})
			}
		}
	}
	return out
}

func c03Object(k int, cfgs []c03PropCfg, structName string) *gen.Shape {
	s := &gen.Shape{Kind: gen.KObject, ID: "Enum", Struct: structName}
	for i := 0; i < k; i++ {
		var others []string
		for j := 0; j < k; j++ {
			if j != i {
				others = append(others, c03Names[j])
			}
		}
		pick := func(idx []int) []string {
			var o []string
			for _, x := range idx {
				o = append(o, others[x])
			}
			return o
		}
		p := &gen.Prop{Name: c03Names[i], T: &gen.Shape{Kind: gen.KInt, Min: p64(0), Max: p64(100)}, Required: cfgs[i].required, Disabled: cfgs[i].disabled,
			ReqIf: pick(cfgs[i].reqIf), ReqIfNot: pick(cfgs[i].reqIfNot), Conflicts: pick(cfgs[i].confl)}
		if cfgs[i].hasDef {
			d := fmt.Sprint(40 + i)
			p.Default = &d
		}
		p.EmptyDef = structName == "P14"
		s.Props = append(s.Props, p)
	}
	return s
}

// c03Index decodes a case index of the enumerated space into (k, per-property configuration, supplied subset, variant).
type c03Space struct {
	k      int
	cfgs   []c03PropCfg
	nObj   int64
	nSub   int64
	offset int64
}

func c03Spaces() []c03Space {
	var out []c03Space
	off := int64(0)
	for k := 1; k <= 3; k++ {
		cf := c03PropCfgs(k)
		n := int64(1)
		for i := 0; i < k; i++ {
			n *= int64(len(cf))
		}
		sp := c03Space{k: k, cfgs: cf, nObj: n, nSub: int64(1) << uint(k), offset: off}
		out = append(out, sp)
		off += n * sp.nSub
	}
	return out
}

func (sp c03Space) decode(i int64) ([]c03PropCfg, []int) {
	sub := i % sp.nSub
	o := i / sp.nSub
	cfgs := make([]c03PropCfg, sp.k)
	for p := 0; p < sp.k; p++ {
		cfgs[p] = sp.cfgs[o%int64(len(sp.cfgs))]
		o /= int64(len(sp.cfgs))
	}
	var supplied []int
	for p := 0; p < sp.k; p++ {
		if sub&(1<<uint(p)) != 0 {
			supplied = append(supplied, p)
		}
	}
	return cfgs, supplied
}

func p10Native(vals map[string]int64, ptr bool) any {
	v := gen.P10{}
	if x, ok := vals["a"]; ok {
		v.A = &x
	}
	if x, ok := vals["b"]; ok {
		y := x
		v.B = &y
	}
	if x, ok := vals["c"]; ok {
		y := x
		v.C = &y
	}
	if ptr {
		return &v
	}
	return v
}

// c03OneOfs enumerates one-of shapes: {string,int} x {inlined, not} x member kinds.
func c03OneOfs() []*gen.Shape {
	var out []*gen.Shape
	intT := func() *gen.Shape { return &gen.Shape{Kind: gen.KInt, Min: p64(0), Max: p64(9)} }
	for _, kind := range []gen.Kind{gen.KOneOfStr, gen.KOneOfInt} {
		for _, inlined := range []bool{false, true} {
			for variant := 0; variant < 5; variant++ {
				var discT *gen.Shape
				if kind == gen.KOneOfStr {
					discT = &gen.Shape{Kind: gen.KString}
				} else {
					discT = &gen.Shape{Kind: gen.KInt}
				}
				mk := func(id string, req bool, extra string) *gen.Shape {
					o := &gen.Shape{Kind: gen.KObject, ID: id, Props: []*gen.Prop{{Name: "x", T: intT(), Required: req}}}
					if extra != "" {
						o.Props = append(o.Props, &gen.Prop{Name: extra, T: &gen.Shape{Kind: gen.KString}})
					}
					if inlined {
						o.Props = append(o.Props, &gen.Prop{Name: "d", T: discT, Required: variant%2 == 0})
					}
					return o
				}
				a, b := mk("A", true, ""), mk("B", false, "y")
				one := &gen.Shape{Kind: kind, Disc: "d", Inlined: inlined}
				switch variant {
				case 0, 1: // plain objects
					one.Members = []*gen.Member{{KeyS: "first", KeyI: 1, T: a}, {KeyS: "second", KeyI: 2, T: b}, {KeyS: "", KeyI: 0, T: mk("Z", false, "z")}}
					out = append(out, one)
				case 2: // references into an enclosing scope
					one.Members = []*gen.Member{{KeyS: "first", KeyI: 1, T: &gen.Shape{Kind: gen.KRef, RefID: "A"}}, {KeyS: "second", KeyI: -7, T: &gen.Shape{Kind: gen.KRef, RefID: "B"}}}
					root := &gen.Shape{Kind: gen.KObject, ID: "Root", Props: []*gen.Prop{{Name: "choice", T: one, Required: true}}}
					out = append(out, &gen.Shape{Kind: gen.KScope, Root: "Root", Objects: []*gen.Shape{root, a, b}})
				case 4: // struct-mapped members (told apart by their Go type when a native value is validated or serialized)
					if inlined {
						continue
					}
					a.Struct, b.Struct = "P15", "P16"
					z := mk("Z", false, "z")
					z.Struct = "P17"
					one.Members = []*gen.Member{{KeyS: "first", KeyI: 1, T: a}, {KeyS: "second", KeyI: 2, T: b}, {KeyS: "", KeyI: 0, T: z}}
					out = append(out, one)
				case 3: // a scope as member
					one.Members = []*gen.Member{{KeyS: "first", KeyI: math.MaxInt64, T: &gen.Shape{Kind: gen.KScope, Root: "A", Objects: []*gen.Shape{a}}}, {KeyS: "10", KeyI: 10, T: b}}
					out = append(out, one)
				}
			}
		}
	}
	return out
}

// c03OneOfInputs builds discriminator / payload / key-type variants for a one-of (possibly under Root.choice).
func c03OneOfInputs(s *gen.Shape) []any {
	one := s
	wrap := func(v any) any { return v }
	if s.Kind == gen.KScope {
		one = s.Objects[0].Props[0].T
		wrap = func(v any) any { return map[string]any{"choice": v} }
	}
	var discs []any
	for _, m := range one.Members {
		if one.Kind == gen.KOneOfStr {
			discs = append(discs, m.KeyS)
			if m.KeyS == "10" {
				discs = append(discs, int64(10), uint8(10), uint64(10), 10.0)
			}
		} else {
			for _, rp := range gen.IntReprs(m.KeyI) {
				discs = append(discs, rp)
			}
		}
	}
	discs = append(discs, "nope", int64(99), uint64(math.MaxUint64), 1.5, nil, []any{"first"}, true, map[string]any{}, gen.NamedStr("first"))
	var out []any
	payloads := []map[string]any{{"x": int64(3)}, {}, {"x": int64(3), "y": "s"}, {"x": int64(3), "z": "s"}, {"x": int64(77)}, {"x": int64(3), "undeclared": int64(1)}, {"x": "4"}}
	for _, d := range discs {
		for pi, pl := range payloads {
			m := map[string]any{"d": d}
			for k, v := range pl {
				m[k] = v
			}
			out = append(out, wrap(m))
			if pi < 2 {
				am := map[any]any{}
				for k, v := range m {
					am[k] = v
				}
				out = append(out, wrap(am))
				am2 := map[any]any{int64(5): "non-string key"}
				for k, v := range m {
					am2[k] = v
				}
				out = append(out, wrap(am2))
			}
		}
	}
	// discriminator absent, or the value is not a map at all
	out = append(out, wrap(map[string]any{"x": int64(3)}), wrap(map[any]any{}), wrap("first"), wrap(nil), wrap([]any{}), wrap(map[int64]any{1: "a"}), wrap(map[string]string{"d": "first"}))
	return out
}

// c03Directed: struct-mapped parents with by-value sub-objects and defaults at both levels.
func c03Directed() []struct {
	shape *gen.Shape
	raws  []any
} {
	intT := func() *gen.Shape { return &gen.Shape{Kind: gen.KInt} }
	d := func(s string) *string { return &s }
	p1 := func(aDefault *string, structName string) *gen.Shape {
		return &gen.Shape{Kind: gen.KObject, ID: "Inner", Struct: structName, Props: []*gen.Prop{
			{Name: "a", T: intT(), Default: aDefault}, {Name: "b", T: &gen.Shape{Kind: gen.KString}}, {Name: "c", T: &gen.Shape{Kind: gen.KFloat}}, {Name: "d", T: &gen.Shape{Kind: gen.KBool}}}}
	}
	var out []struct {
		shape *gen.Shape
		raws  []any
	}
	for _, innerStruct := range []string{"P1"} {
		for _, propDefault := range []*string{nil, d(`{"a": 9}`), d(`{"b": "from-property-default"}`), d(`{}`)} {
			for _, subDefault := range []*string{nil, d("5")} {
				parent := &gen.Shape{Kind: gen.KObject, ID: "Parent", Struct: "P3", Props: []*gen.Prop{
					{Name: "inner", T: p1(subDefault, innerStruct), Default: propDefault},
					{Name: "pinner", T: p1(subDefault, innerStruct)},
					{Name: "n", T: intT()}}}
				out = append(out, struct {
					shape *gen.Shape
					raws  []any
				}{parent, []any{
					map[string]any{}, map[string]any{"n": int64(1)}, map[string]any{"inner": map[string]any{"b": "x"}},
					map[string]any{"inner": map[string]any{"a": int64(7)}}, map[string]any{"pinner": map[string]any{"b": "y"}},
					map[string]any{"inner": map[string]any{}, "pinner": map[string]any{}},
				}})
			}
		}
	}
	// defaults that are containers (list, map, sub-object), on a map-based object and below a list
	{
		inner := func() *gen.Shape {
			return &gen.Shape{Kind: gen.KObject, ID: "Inner", Props: []*gen.Prop{{Name: "a", T: intT()}, {Name: "tags", T: &gen.Shape{Kind: gen.KList, Items: &gen.Shape{Kind: gen.KString}}, Default: d(`["x","y"]`)}}}
		}
		obj := &gen.Shape{Kind: gen.KObject, ID: "Defs", Props: []*gen.Prop{
			{Name: "l", T: &gen.Shape{Kind: gen.KList, Items: intT()}, Default: d(`[1,2,3]`)},
			{Name: "m", T: &gen.Shape{Kind: gen.KMap, Keys: &gen.Shape{Kind: gen.KString}, Vals: intT()}, Default: d(`{"k":1,"j":2}`)},
			{Name: "o", T: inner(), Default: d(`{"a": 9}`)},
			{Name: "n", T: intT()}}}
		out = append(out, struct {
			shape *gen.Shape
			raws  []any
		}{obj, []any{
			map[string]any{}, map[string]any{"n": int64(1)}, map[string]any{"l": []any{int64(7)}}, map[string]any{"o": map[string]any{}}, map[string]any{},
			map[string]any{"m": map[string]any{"z": int64(5)}}, map[string]any{"o": map[string]any{"a": int64(1)}}, map[string]any{},
		}})
	}
	// property IDs that are digits only, and input maps whose keys are the same digits as numbers: a key that is not a
	// string is not a property ID, whatever it would print as
	for _, req := range []bool{true, false} {
		obj := &gen.Shape{Kind: gen.KObject, ID: "Digits", Props: []*gen.Prop{
			{Name: "1", T: intT(), Required: req}, {Name: "42", T: &gen.Shape{Kind: gen.KString}}, {Name: "0", T: &gen.Shape{Kind: gen.KBool}}, {Name: "007", T: intT()}}}
		out = append(out, struct {
			shape *gen.Shape
			raws  []any
		}{obj, []any{
			map[string]any{"1": int64(5)}, map[string]any{"1": int64(5), "42": "x", "0": true, "007": int64(7)}, map[any]any{"1": int64(5), "42": "x"},
			map[any]any{int64(1): int64(5)}, map[any]any{int(1): int64(5)}, map[any]any{uint8(1): int64(5)}, map[any]any{uint64(1): int64(5), "42": "x"},
			map[any]any{"1": int64(5), int64(42): "x"}, map[any]any{"1": int64(5), int64(1): int64(6)}, map[any]any{"1": int64(5), int64(0): true},
			map[any]any{"1": int64(5), int64(7): int64(7)}, map[any]any{"1": int64(5), 1.0: int64(7)},
			map[int]any{1: int64(5)}, map[int64]any{1: int64(5)}, map[int]any{42: "x"}, map[uint8]string{42: "x"}, map[int]int64{1: 5, 7: 7}, map[uint64]any{0: true},
			map[any]any{}, map[int]any{},
		}})
	}
	return out
}

func runC03(c *wk.Ctx) {
	c.Meta("rule", "(a) ENUMERATED objects: for k=1,2 properties the FULL product of per-property flags (required, default, disabled) x all subsets of the other properties as required_if, required_if_not and conflicts; for k=3 required x default x at most one rule kind per property with every non-empty subset of the two others - each x all 2^k supplied subsets, on a map-based object and on a struct-mapped object with pointer fields; plus the single-property shorthand with non-map values. Quick runs a fixed 1/8 slice of the k=3 space (all of k<=2), thorough all of it. (b) ENUMERATED one-of: {string,int} keys x {inlined, not} x member kinds {object, reference in a scope, scope} x discriminator given as every integer width / float / string / unknown / wrong kind / nil / absent x payloads (valid, missing required, undeclared key, wrong type) x map[string]any / map[any]any / extra non-string key. (c) SAMPLED: generated objects and scopes (4-6 properties, nested, struct-mapped pool) with random supplied subsets. Oracle: reference interpreter (key check, per-property acceptance, defaults never overriding supplied values, presence rules after defaulting, disabled, shorthand, discriminator routing); Validate/Serialize judged on native maps and structs by the reference's constraint check. distinct = hash(schema, input); all enumerated cases are non-trivial Directed: struct values of inlined one-of members whose discriminator field is unset - the serialized value carries the discriminator and is routed back to the same member.")
	c.Meta("assumptions", []string{"disabled property present only through its default: unspecified", "struct-mapped parents with absent by-value sub-objects: unspecified (the SDK materialises them from the sub-object's defaults)",
		"k=3 enumeration restricts each property to one rule kind; combinations of rule kinds on one property are covered for k<=2 and by sampling"})
	spaces := c03Spaces()
	var nEnum int64
	for _, sp := range spaces {
		nEnum += sp.nObj * sp.nSub
	}
	oneofs := c03OneOfs()
	type ooCase struct {
		shape *gen.Shape
		raw   any
	}
	var ooCases []ooCase
	for _, s := range oneofs {
		for _, in := range c03OneOfInputs(s) {
			ooCases = append(ooCases, ooCase{s, in})
		}
	}
	c.Meta("cov.enumerated_object_cases", nEnum)
	c.Meta("cov.enumerated_oneof_cases", len(ooCases))
	c.Meta("exhaustive", !c.Quick())
	c.Floor("verdict:must-accept", 1000)
	c.Floor("verdict:must-reject", 1000)
	c.Floor("native_form_checks", 1000)
	nSampled := c.N(6000, 2000000)
	total := nEnum + int64(len(ooCases)) + nSampled
	builtOO := map[*gen.Shape]schema.Type{}
	if c.Mine(0) {
		c.Begin(0, "directed: struct values of inlined one-of members whose discriminator field is unset")
		c03UnsetDiscriminator(c)
	}
	c.Cases(total, func(idx int64, r *wk.Rand) {
		env := &gen.Env{}
		switch {
		case idx < nEnum:
			var sp c03Space
			for _, s := range spaces {
				if idx >= s.offset {
					sp = s
				}
			}
			local := idx - sp.offset
			if sp.k == 3 && c.Quick() && (local/sp.nSub)%8 != int64(c.Seed%8) {
				return
			}
			cfgs, supplied := sp.decode(local)
			nDisabled := 0
			for _, cf := range cfgs {
				if cf.disabled {
					nDisabled++
				}
			}
			anyDefault := false
			for _, cf := range cfgs {
				anyDefault = anyDefault || cf.hasDef
			}
			for _, structName := range []string{"", "P10", "P14"} {
				if structName == "P10" && idx%2 == 1 {
					structName = "*P10"
				}
				if structName == "P14" && anyDefault {
					continue // treat-empty-as-default next to a non-zero default has no consistent reading
				}
				shape := c03Object(sp.k, cfgs, structName)
				t, ok, _ := buildGuarded(shape)
				if !ok {
					c.Count("misbuilt_schemas")
					continue
				}
				descr := shape.Describe()
				raw := map[string]any{}
				vals := map[string]int64{}
				for _, p := range supplied {
					raw[c03Names[p]] = int64(10 + p)
					vals[c03Names[p]] = int64(10 + p)
				}
				c.Count(fmt.Sprintf("enumerated-objects:k=%d", sp.k))
				c.Eval(wk.Hash64(descr, cmpx.Canon(raw)), true)
				var in any = raw
				if idx%3 == 0 {
					am := map[any]any{}
					for k, v := range raw {
						am[k] = uint64(v.(int64)) // as a CBOR decoder delivers it
					}
					in = am
				}
				judgeUnserialize(c, "C03", t, shape, env, in, descr, "enumerated presence space")
				// native side: the same subset as a native value, without defaulting
				var native any = gen.CopyRaw(raw)
				if structName == "P14" {
					native = gen.P14{A: vals["a"], B: vals["b"], C: vals["c"]}
					c.Count("enumerated-objects:treat-empty-as-default struct")
				} else if structName != "" {
					native = p10Native(vals, structName == "*P10")
				}
				c03NativeForm(c, t, shape, env, native, descr)
				if structName != "" && structName != "P14" {
					// the same native value with one field out of its bounds (Validate gives up at that field, wherever
					// its walk over the properties has got to), then the intact one again: what an earlier, failed
					// validation has seen must not show in a later one
					for _, p := range supplied {
						badVals := map[string]int64{}
						for k, v := range vals {
							badVals[k] = v
						}
						badVals[c03Names[p]] = 101
						c03NativeForm(c, t, shape, env, p10Native(badVals, structName == "*P10"), descr)
						c03NativeForm(c, t, shape, env, p10Native(map[string]int64{}, structName == "*P10"), descr)
						c03NativeForm(c, t, shape, env, p10Native(vals, structName == "*P10"), descr)
					}
					c.Count("enumerated-objects:native struct with one bad field, then intact ones")
				}
				// one supplied value of the wrong type / out of bounds / an undeclared key
				if len(supplied) > 0 && idx%4 == 0 {
					bad := gen.CopyRaw(raw).(map[string]any)
					bad[c03Names[supplied[0]]] = wk.Pick(r, []any{int64(101), "x", nil, []any{}})
					judgeUnserialize(c, "C03", t, shape, env, bad, descr, "enumerated presence space, one bad value")
					extra := gen.CopyRaw(raw).(map[string]any)
					extra["zz"] = int64(1)
					judgeUnserialize(c, "C03", t, shape, env, extra, descr, "enumerated presence space, undeclared key")
				}
				if sp.k == 1 {
					for _, sh := range []any{int64(5), "7", uint64(200), nil, []any{int64(1)}, 3.0} {
						judgeUnserialize(c, "C03", t, shape, env, sh, descr, "single-property shorthand")
					}
				}
				if idx%50021 == 0 {
					c.Sample("enumerated-object", map[string]any{"schema": descr, "supplied": raw})
				}
			}
		case idx < nEnum+int64(len(ooCases)):
			oc := ooCases[idx-nEnum]
			t, ok := builtOO[oc.shape]
			if !ok {
				bt, bok, msg := buildGuarded(oc.shape)
				if !bok {
					c.Count("misbuilt_schemas")
					_ = msg
					return
				}
				t = bt
				builtOO[oc.shape] = t
			}
			descr := oc.shape.Describe()
			c.Count("enumerated-oneof")
			c.Eval(wk.Hash64(descr, cmpx.Canon(oc.raw), dynType(oc.raw)), true)
			if native, acc := judgeUnserialize(c, "C03", t, oc.shape, env, oc.raw, descr, "enumerated one-of space"); acc {
				c03NativeForm(c, t, oc.shape, env, native, descr)
			}
			// the raw map with a native discriminator is itself a native-form value for map-based members
			if m, ok := oc.raw.(map[string]any); ok {
				c03NativeForm(c, t, oc.shape, env, gen.CopyRaw(m), descr)
			}
			if (idx-nEnum)%977 == 0 {
				c.Sample("enumerated-oneof", map[string]any{"schema": descr, "raw": fmt.Sprintf("%#v", oc.raw)})
			}
		default:
			if dir := c03Directed(); idx-nEnum-int64(len(ooCases)) < int64(len(dir)) {
				dc := dir[idx-nEnum-int64(len(ooCases))]
				t, ok, _ := buildGuarded(dc.shape)
				if !ok {
					c.Count("misbuilt_schemas")
					return
				}
				descr := dc.shape.Describe()
				for rep := 0; rep < 3; rep++ { // repeated: the SDK keeps decoded defaults in the schema
					for _, raw := range dc.raws {
						c.Count("directed-struct-defaults")
						c.Eval(wk.Hash64(descr, cmpx.Canon(raw)), true)
						// what a call returned is the caller's: overwriting every container in it must not change what
						// the next call fills in for a property that is left out
						if native, acc := judgeUnserialize(c, "C03", t, dc.shape, env, gen.CopyRaw(raw), descr, "directed: defaults (results of earlier calls overwritten in place)"); acc && native != nil {
							if scramble(reflect.ValueOf(&native).Elem(), 0) > 0 {
								c.Count("results_overwritten_in_place")
							}
						}
					}
				}
				return
			}
			cfg := gen.Full()
			cfg.TypedVariants = true
			var shape *gen.Shape
			if r.Bool() {
				shape = gen.GenObjectStandalone(r, cfg)
			} else {
				shape = gen.GenScope(r, cfg)
			}
			t, ok, _ := buildGuarded(shape)
			if !ok {
				c.Count("misbuilt_schemas")
				return
			}
			descr := shape.Describe()
			c.Count("sampled:" + shape.Kind.String())
			for i := 0; i < 4; i++ {
				raw, ok := gen.ValidRaw(r, shape, env, 0)
				if !ok {
					return
				}
				in := gen.Represent(r, gen.CopyRaw(raw), shape, env, 0)
				c.Eval(wk.Hash64(descr, cmpx.Canon(in)), true)
				if native, acc := judgeUnserialize(c, "C03", t, shape, env, in, descr, "sampled, valid by construction"); acc {
					c03NativeForm(c, t, shape, env, native, descr)
				}
				// drop or add one top-level property: presence rules decide
				if m, isMap := gen.CopyRaw(raw).(map[string]any); isMap && len(m) > 0 {
					for k := range m {
						delete(m, k)
						break
					}
					c.Eval(wk.Hash64(descr, cmpx.Canon(m)), true)
					if native, acc := judgeUnserialize(c, "C03", t, shape, env, gen.CopyRaw(m), descr, "sampled, one property dropped"); acc && native != nil {
						// the defaults filled in belong to the caller now: overwrite them in place and ask again
						if scramble(reflect.ValueOf(&native).Elem(), 0) > 0 {
							c.Count("results_overwritten_in_place")
							judgeUnserialize(c, "C03", t, shape, env, gen.CopyRaw(m), descr, "sampled, one property dropped, after the previous result was overwritten in place")
						}
					}
				}
				pv, _ := gen.Perturb(r, gen.CopyRaw(raw))
				judgeUnserialize(c, "C03", t, shape, env, pv, descr, "sampled, perturbed leaf")
			}
		}
	})
}

// c03NativeForm: Validate and Serialize apply the same key, type, presence and dispatch rules to native values.
func c03NativeForm(c *wk.Ctx, t schema.Type, shape *gen.Shape, env *gen.Env, native any, descr string) {
	g := ref.Normalize(shape, native, env)
	why := ref.Check(shape, g, env)
	if _, bad := g.(ref.BadType); bad {
		return
	}
	// only shapes whose native form the generic check fully covers
	skip := false
	gen.WalkEnv(shape, env, func(s *gen.Shape, _ *gen.Env) {
		if s.Kind == gen.KObject && s.Struct != "" && !gen.AllAbsentable(s) {
			// a property that may be absent but is mapped to a field that cannot say so has no defined native form
			// (a required property on a value field has: it is always present)
			for _, p := range s.Props {
				if !p.Required && !p.EmptyDef && !gen.PointerField(s.Struct, p.Name) {
					skip = true
				}
			}
		}
		if s.Kind == gen.KAny {
			skip = true
		}
	})
	if skip {
		return
	}
	var verr, serr error
	c.Note("Validate/Serialize native root=" + shape.Kind.String())
	wit := map[string]any{"schema": clipStr(descr, 1200), "native": clipStr(cmpx.Canon(native), 600), "reference": why}
	if p, site, msg, _ := wk.Guard(func() { verr = t.Validate(native) }); p {
		c.Violation("C03:panic:Validate:"+site, "Validate panicked: "+msg, wit)
		return
	}
	if p, site, msg, _ := wk.Guard(func() { _, serr = t.Serialize(native) }); p {
		c.Violation("C03:panic:Serialize:"+site, "Serialize panicked: "+msg, wit)
		return
	}
	c.Count("native_form_checks")
	kind := shape.Kind.String()
	if shape.Kind == gen.KObject && shape.Struct != "" {
		kind = "struct-object"
	}
	for _, pr := range []struct {
		name string
		err  error
	}{{"validate", verr}, {"serialize", serr}} {
		if why == "" && pr.err != nil {
			wit["sdk_error"] = pr.err.Error()
			c.Violation("C03:"+pr.name+"-rejects-conforming-native:"+kind+":"+normMsg(pr.err), fmt.Sprintf("%s rejects a native value that satisfies every key, type and presence rule: %v", pr.name, pr.err), wit)
		}
		if why != "" && pr.err == nil {
			c.Violation("C03:"+pr.name+"-accepts-violating-native:"+kind+":"+whyClass(why), fmt.Sprintf("%s accepts a native value although: %s", pr.name, why), wit)
		}
	}
	_ = reflect.TypeOf
}

// c03UnsetDiscriminator: an inlined one-of whose members are struct-mapped. A native value is routed by its Go type;
// its discriminator field may be unset (a nil pointer, or the zero value of a treat-empty-as-default property). The
// discriminator is passed on all the same: what Serialize returns carries it, and the one-of accepts that mapping
// and routes it to the same member.
func c03UnsetDiscriminator(c *wk.Ctx) {
	opt := func(t schema.Type) *schema.PropertySchema {
		return schema.NewPropertySchema(t, nil, false, nil, nil, nil, nil, nil)
	}
	str, num := func() schema.Type { return schema.NewStringSchema(nil, nil, nil) }, func() schema.Type { return schema.NewIntSchema(nil, nil, nil) }
	sp := func(v string) *string { return &v }
	ip := func(v int64) *int64 { return &v }
	type tcase struct {
		descr   string
		t       schema.Type
		disc    string
		natives []any
		keys    []any
	}
	var cases []tcase
	if p, site, msg, _ := wk.Guard(func() {
		m16 := schema.NewStructMappedObjectSchema[gen.P16]("M16", map[string]*schema.PropertySchema{"x": opt(num()), "y": opt(str())})
		m17 := schema.NewStructMappedObjectSchema[gen.P17]("M17", map[string]*schema.PropertySchema{"x": opt(num()), "z": opt(str())})
		cases = append(cases, tcase{"one_of_int(x, inlined){1: M16(struct P16){x: int, y: string}, 2: M17(struct P17){x: int, z: string}}",
			schema.NewOneOfIntSchema[any](map[int64]schema.Object{1: m16, 2: m17}, "x", true), "x",
			[]any{gen.P16{Y: sp("a")}, gen.P17{Z: sp("b")}, gen.P16{X: ip(1), Y: sp("c")}, gen.P17{}, gen.P17{X: ip(2)}}, []any{int64(1), int64(2), int64(1), int64(2), int64(2)}})
		m4 := schema.NewStructMappedObjectSchema[gen.P4]("M4", map[string]*schema.PropertySchema{"kind": opt(str()).TreatEmptyAsDefaultValue(), "x": opt(num()).TreatEmptyAsDefaultValue()})
		m4b := schema.NewStructMappedObjectSchema[gen.P4b]("M4b", map[string]*schema.PropertySchema{"kind": opt(str()).TreatEmptyAsDefaultValue(), "z": opt(str())})
		cases = append(cases, tcase{"one_of_string(kind, inlined){a: M4(struct P4){kind: string (empty is default), x: int}, b: M4b(struct P4b){kind: string (empty is default), z: string}}",
			schema.NewOneOfStringSchema[any](map[string]schema.Object{"a": m4, "b": m4b}, "kind", true), "kind",
			[]any{gen.P4{X: 5}, gen.P4b{Z: sp("s")}, gen.P4{Kind: "a", X: 6}, gen.P4b{}, gen.P4{}}, []any{"a", "b", "a", "b", "a"}})
	}); p {
		c.Violation("C03:directed-shape-not-built:"+site, "the hand-written inlined one-of over struct-mapped members could not be built: "+msg, nil)
		return
	}
	for _, tc := range cases {
		for i, nat := range tc.natives {
			wit := map[string]any{"schema": tc.descr, "native": fmt.Sprintf("%#v", nat), "member_key": tc.keys[i]}
			var verr, serr, uerr, serr2 error
			var ser, back, ser2 any
			c.Note("unset discriminator: " + fmt.Sprintf("%T #%d", nat, i))
			if p, site, msg, _ := wk.Guard(func() {
				verr = tc.t.Validate(nat)
				ser, serr = tc.t.Serialize(nat)
			}); p {
				c.Violation("C03:panic:Serialize:"+site, "Validate / Serialize panicked on a member value with an unset discriminator field: "+msg, wit)
				continue
			}
			c.Count("native_form_checks")
			c.Eval(wk.Hash64("unset-discriminator", tc.descr, fmt.Sprint(i)), true)
			if (verr == nil) != (serr == nil) {
				c.Violation("C03:validate-serialize-disagree:one-of", fmt.Sprintf("Validate: %v; Serialize: %v", verr, serr), wit)
				continue
			}
			if serr != nil {
				c.Count("unset_discriminator:rejected")
				continue
			}
			m, isMap := ser.(map[string]any)
			if !isMap || fmt.Sprintf("%T:%v", m[tc.disc], m[tc.disc]) != fmt.Sprintf("%T:%v", tc.keys[i], tc.keys[i]) {
				wit["serialized"] = clipStr(cmpx.Canon(ser), 500)
				c.Violation("C03:discriminator-not-passed-on:Serialize", fmt.Sprintf("an inlined one-of passes the discriminator on, but the serialized value of a %T (member %v) has %q = %v", nat, tc.keys[i], tc.disc, m[tc.disc]), wit)
				continue
			}
			if p, site, msg, _ := wk.Guard(func() {
				back, uerr = tc.t.Unserialize(gen.CopyRaw(ser))
				if uerr == nil {
					ser2, serr2 = tc.t.Serialize(back)
				}
			}); p {
				c.Violation("C03:panic:Unserialize:"+site, "Unserialize panicked on the one-of's own serialized value: "+msg, wit)
				continue
			}
			if uerr != nil || serr2 != nil || reflect.TypeOf(back) != reflect.TypeOf(nat) || cmpx.Canon(ser2) != cmpx.Canon(ser) {
				wit["serialized"] = clipStr(cmpx.Canon(ser), 500)
				c.Violation("C03:serialized-not-routed-back", fmt.Sprintf("the one-of does not take back what it serialized (member %v): Unserialize: %v, result %T, serialized again: %v %s", tc.keys[i], uerr, back, serr2, clipStr(cmpx.Canon(ser2), 300)), wit)
			}
			c.Count("unset_discriminator:accepted")
		}
	}
}

func init() { register("C03", runC03) }
