package props

import (
	"bytes"
	"fmt"
	"runtime/debug"
	"sort"
	"strings"
	"sync"
	"sync/atomic"
	"time"

	"github.com/fxamacker/cbor/v2"
	"go.flow.arcalot.io/pluginsdk/atp"
	"go.flow.arcalot.io/pluginsdk/schema"

	"verif/internal/cmpx"
	"verif/internal/rig"
	"verif/internal/wk"
)

// A transcript is what a correct server sends in one session, as a list of
// messages each gated on a client request, plus the client calls that go with it.
type c08Msg struct {
	name  string
	bytes []byte
	// gate: the message is released once the client has sent its n-th top-level item (gateCount)
	// or the work-start for gateRun (v3) - whichever is set.
	gateCount int
	gateRun   string
	// terminalFor: this message is the work-done of that run (a success result)
	terminalFor string
	start, end  int64 // offsets in the server->client stream
	// held: the server keeps this message back until nothing else can happen (every goroutine blocked, nothing
	// paused) - a slow step, in logical time
	held bool
}

type c08Transcript struct {
	name          string
	version       int64
	msgs          []c08Msg
	groups        [][]rig.ExecSpec
	expectID      map[string]string // run -> output id of the work-done, "" if the run ends in an error
	expect        map[string]any    // run -> output data
	afterBadHello bool              // still issue the Execute calls when ReadSchema failed
	closeAfter    bool              // the server ends its output after the last message (it exits)
	// lateRecv: the receivers of emitted signals start receiving only some time after the client has read the first
	// signal message (a consumer is not obliged to be parked in its receive when the signal arrives)
	lateRecv bool
}

func rtMsg(id uint32, run string, data any) []byte {
	return mustCBOR(atp.RuntimeMessage{MessageID: id, RunID: run, MessageData: data})
}

func c08Transcripts() []c08Transcript {
	fx := rig.NewFixture()
	desc, err := fx.Schema.SelfSerialize()
	if err != nil {
		panic(err)
	}
	hello := func(v int64, sch any) c08Msg {
		return c08Msg{name: fmt.Sprintf("hello(v%d)", v), bytes: mustCBOR(atp.HelloMessage{Version: v, Schema: sch}), gateCount: 1}
	}
	ex := func(run, step string, extra map[string]any) rig.ExecSpec {
		return rig.ExecSpec{RunID: run, StepID: step, Input: echoIn(run, extra), NoSigCh: true}
	}
	done := func(run, step string, in any) (c08Msg, string, any) {
		id, data, err := rig.InProcess(run, step, in)
		if err != nil {
			panic(err)
		}
		return c08Msg{name: "work-done(" + run + ")", bytes: rtMsg(atp.MessageTypeWorkDone, run, atp.WorkDoneMessage{StepID: step, OutputID: id, OutputData: data}), gateRun: run, terminalFor: run}, id, data
	}
	errMsg := func(run, text string, stepFatal, serverFatal bool, gateRun string) c08Msg {
		return c08Msg{name: fmt.Sprintf("error(%q,step=%v,server=%v)", run, stepFatal, serverFatal), bytes: rtMsg(atp.MessageTypeError, run, atp.ErrorMessage{Error: text, StepFatal: stepFatal, ServerFatal: serverFatal}), gateRun: gateRun}
	}
	sigMsg := func(run string, v int64) c08Msg {
		return c08Msg{name: "signal(" + run + ")", bytes: rtMsg(atp.MessageTypeSignal, run, atp.SignalMessage{SignalID: "progress", Data: map[string]any{"v": v}}), gateRun: run}
	}
	var out []c08Transcript
	mk := func(name string, version int64) *c08Transcript {
		out = append(out, c08Transcript{name: name, version: version, expectID: map[string]string{}, expect: map[string]any{}})
		t := &out[len(out)-1]
		t.msgs = append(t.msgs, hello(version, desc))
		return t
	}
	addDone := func(t *c08Transcript, e rig.ExecSpec) {
		m, id, data := done(e.RunID, e.StepID, e.Input)
		t.msgs = append(t.msgs, m)
		t.expectID[e.RunID], t.expect[e.RunID] = id, data
	}
	{ // one run
		t := mk("v3-one-run", 3)
		a := ex("a", "echo", map[string]any{"payload": "some payload"})
		a.HoldSigCh = true
		a.Signals = []schema.Input{{RunID: "a", ID: "record", InputData: map[string]any{"v": int64(1)}}}
		t.groups = [][]rig.ExecSpec{{a}}
		addDone(t, a)
	}
	{ // three serial runs, the middle one fails
		t := mk("v3-serial-ok-fail-ok", 3)
		a, b, c := ex("a", "echo", nil), ex("b", "echo", map[string]any{"mode": "panic"}), ex("c", "echo2", map[string]any{"payload": []any{int64(1), int64(2)}})
		t.groups = [][]rig.ExecSpec{{a}, {b}, {c}}
		addDone(t, a)
		t.msgs = append(t.msgs, errMsg("b", "panic while running step", true, false, "b"))
		t.expectID["b"] = ""
		addDone(t, c)
	}
	{ // three concurrent runs, out-of-order answers, emitted signals, non-fatal errors in between
		t := mk("v3-concurrent-signals-errors", 3)
		a, b, c := ex("a", "sig", nil), ex("b", "echo", map[string]any{"payload": map[string]any{"k": "v"}}), ex("c", "echo", map[string]any{"mode": "err"})
		a.Emitted = true
		b.HoldSigCh = true
		t.groups = [][]rig.ExecSpec{{a, b, c}}
		t.msgs = append(t.msgs, sigMsg("a", 1))
		t.msgs = append(t.msgs, errMsg("", "unknown message ID received", false, false, "b"))
		addDone(t, c)
		t.msgs = append(t.msgs, sigMsg("a", 2))
		t.msgs = append(t.msgs, errMsg("a", "failed while running signal ID record", false, false, "a"))
		addDone(t, b)
		addDone(t, a)
	}
	{ // server-fatal error while the second run is pending
		t := mk("v3-server-fatal-midway", 3)
		a, b, c := ex("a", "echo", nil), ex("b", "echo", nil), ex("c", "echo", nil)
		t.groups = [][]rig.ExecSpec{{a, b}, {c}}
		addDone(t, a)
		t.msgs = append(t.msgs, errMsg("", "failed to read or decode runtime message", true, true, "b"))
		t.expectID["b"], t.expectID["c"] = "", ""
		t.closeAfter = true // a server that reported a server-fatal error exits
	}
	{ // trailing non-fatal error after the last result of a group (read-ahead), then another run
		t := mk("v3-trailing-error-then-run", 3)
		a, b := ex("a", "sig", nil), ex("b", "echo", map[string]any{"payload": strings.Repeat("x", 300)})
		t.groups = [][]rig.ExecSpec{{a}, {b}}
		addDone(t, a)
		t.msgs = append(t.msgs, errMsg("a", "failed while running signal ID record: late", false, false, "a"))
		addDone(t, b)
	}
	{ // step-fatal errors that name a run nobody is waiting for: one that never existed, one that already finished
		t := mk("v3-errors-for-absent-runs", 3)
		a, b := ex("a", "echo", nil), ex("b", "echo", map[string]any{"payload": "p"})
		t.groups = [][]rig.ExecSpec{{a, b}}
		t.msgs = append(t.msgs, errMsg("ghost", "step failed", true, false, "a"))
		addDone(t, a)
		t.msgs = append(t.msgs, errMsg("a", "step failed (late duplicate)", true, false, "b"))
		addDone(t, b)
	}
	{ // an emitted signal and the run's result back to back, the consumer of the signals not yet receiving
		t := mk("v3-signal-then-done-late-receiver", 3)
		a := ex("a", "sig", nil)
		a.Emitted = true
		t.lateRecv = true
		t.groups = [][]rig.ExecSpec{{a}}
		t.msgs = append(t.msgs, sigMsg("a", 1))
		addDone(t, a)
	}
	{ // two runs emitting signals, late consumers, results and signals interleaved
		t := mk("v3-two-runs-signals-late-receivers", 3)
		a, b := ex("a", "sig", nil), ex("b", "sig", nil)
		a.Emitted, b.Emitted = true, true
		t.lateRecv = true
		t.groups = [][]rig.ExecSpec{{a, b}}
		t.msgs = append(t.msgs, sigMsg("a", 1), sigMsg("b", 1), sigMsg("a", 2))
		addDone(t, a)
		t.msgs = append(t.msgs, sigMsg("b", 2))
		addDone(t, b)
	}
	{ // a step-fatal error that names no run fails every pending run; the plugin lives on and serves another run
		t := mk("v3-step-fatal-without-run-id-then-run", 3)
		a, b, c := ex("a", "echo", nil), ex("b", "sig", nil), ex("c", "echo", map[string]any{"payload": "after"})
		b.Emitted = true
		t.groups = [][]rig.ExecSpec{{a, b}, {c}}
		failAll := errMsg("", "missing run ID in a message of the client", true, false, "")
		failAll.gateCount = 3 // the start message and both work-starts: both runs are registered by then
		t.msgs = append(t.msgs, failAll)
		t.expectID["a"], t.expectID["b"] = "", ""
		addDone(t, c)
		t.msgs[len(t.msgs)-1].held = true // the later run is slow: it is still pending when the client has dealt with the error
	}
	{ // the same error as the last thing the plugin says before the client closes (the plugin lingers: it does not
		// end its output by itself)
		t := mk("v3-step-fatal-without-run-id-last", 3)
		a, b := ex("a", "echo", nil), ex("b", "echo", nil)
		t.groups = [][]rig.ExecSpec{{a, b}}
		failAll := errMsg("", "missing run ID in a message of the client", true, false, "")
		failAll.gateCount = 3
		t.msgs = append(t.msgs, failAll)
		t.expectID["a"], t.expectID["b"] = "", ""
	}
	{ // legacy v1: two serial runs, unwrapped messages
		t := mk("v1-two-serial", 1)
		a, b := ex("a", "echo", nil), ex("b", "echo2", map[string]any{"payload": 1.5})
		t.groups = [][]rig.ExecSpec{{a}, {b}}
		for i, e := range []rig.ExecSpec{a, b} {
			id, data, err := rig.InProcess(e.RunID, e.StepID, e.Input)
			if err != nil {
				panic(err)
			}
			t.msgs = append(t.msgs, c08Msg{name: "v1-work-done(" + e.RunID + ")", bytes: mustCBOR(atp.WorkDoneMessage{StepID: e.StepID, OutputID: id, OutputData: data}), gateCount: 2 + i, terminalFor: e.RunID})
			t.expectID[e.RunID], t.expect[e.RunID] = id, data
		}
	}
	// hellos that must be refused
	for _, v := range []int64{0, 2, 4, -1, 1 << 40} {
		t := mk(fmt.Sprintf("unsupported-version-%d", v), v)
		t.groups = [][]rig.ExecSpec{{ex("a", "echo", nil)}}
		t.expectID["a"] = ""
		t.afterBadHello = true
	}
	{ // a hello that must be refused, from a plugin that talks on regardless; three calls at once afterwards
		t := mk("unsupported-version-4-plugin-goes-on", 4)
		a, b, c := ex("a", "echo", nil), ex("b", "echo", nil), ex("c", "echo2", nil)
		t.groups = [][]rig.ExecSpec{{a, b, c}}
		for i, e := range []rig.ExecSpec{a, b, c} {
			m, _, _ := done(e.RunID, e.StepID, e.Input)
			m.gateRun, m.gateCount, m.terminalFor = "", 1+i, ""
			t.msgs = append(t.msgs, m)
			t.expectID[e.RunID] = ""
		}
		t.afterBadHello = true
	}
	scopeWith := func(root, key, id string) map[string]any {
		return map[string]any{"root": root, "objects": map[string]any{key: map[string]any{"id": id, "properties": map[string]any{}}}}
	}
	stepWith := func(input any) map[string]any {
		return map[string]any{"steps": map[string]any{"x": map[string]any{"id": "x", "input": input, "outputs": map[string]any{}}}}
	}
	for i, bad := range []any{nil, "not a schema", map[string]any{"steps": map[string]any{"x": map[string]any{"id": "x"}}}, map[string]any{"steps": 5}, []any{1},
		stepWith(scopeWith("Missing", "A", "A")), stepWith(scopeWith("A", "A", "B")), stepWith(scopeWith("A", "B", "A")), stepWith(scopeWith("", "", ""))} {
		out = append(out, c08Transcript{name: fmt.Sprintf("bad-schema-%d", i), version: 3, expectID: map[string]string{"a": ""}, expect: map[string]any{}, afterBadHello: true})
		t := &out[len(out)-1]
		t.msgs = append(t.msgs, hello(3, bad))
		t.groups = [][]rig.ExecSpec{{ex("a", "echo", nil)}}
	}
	// a hello of a supported version whose schema does not unserialize, from a plugin that talks on regardless: the
	// calls made after the failed ReadSchema fail, they do not pick results out of what follows
	for i, bad := range []any{"not a schema", stepWith(scopeWith("Missing", "A", "A")), map[string]any{"steps": 5}} {
		for _, version := range []int64{3, 1} {
			out = append(out, c08Transcript{name: fmt.Sprintf("bad-schema-%d-v%d-plugin-goes-on", i, version), version: version, expectID: map[string]string{}, expect: map[string]any{}, afterBadHello: true})
			t := &out[len(out)-1]
			t.msgs = append(t.msgs, hello(version, bad))
			a, b, c := ex("a", "echo", nil), ex("b", "echo", nil), ex("c", "echo2", nil)
			t.groups = [][]rig.ExecSpec{{a, b, c}}
			if version == 1 {
				t.groups = [][]rig.ExecSpec{{a}, {b}}
			}
			for gi, e := range []rig.ExecSpec{a, b, c} {
				if version == 1 {
					if gi == 2 {
						break
					}
					id, data, _ := rig.InProcess(e.RunID, e.StepID, e.Input)
					t.msgs = append(t.msgs, c08Msg{name: "v1-work-done(" + e.RunID + ")", bytes: mustCBOR(atp.WorkDoneMessage{StepID: e.StepID, OutputID: id, OutputData: data}), gateCount: 2 + gi})
				} else {
					m, _, _ := done(e.RunID, e.StepID, e.Input)
					m.gateRun, m.gateCount, m.terminalFor = "", 1+gi, ""
					t.msgs = append(t.msgs, m)
				}
				t.expectID[e.RunID] = ""
			}
		}
	}
	for i := range out {
		off := int64(0)
		for j := range out[i].msgs {
			out[i].msgs[j].start = off
			off += int64(len(out[i].msgs[j].bytes))
			out[i].msgs[j].end = off
		}
	}
	return out
}

func (t *c08Transcript) total() int64 { return t.msgs[len(t.msgs)-1].end }

type c08Fault struct {
	kind       rig.FaultKind
	at         int64
	failWrites int // -1: never
	garbage    []byte
	// lateFail: write #failWrites does reach the server, takes until the client has read the first emitted signal,
	// and then reports an error
	lateFail bool
}

type c08Outcome struct {
	monitor       rig.MonitorResult
	readSchemaErr error
	schemaOK      bool
	execs         []*rig.ExecOutcome
	closeReturned bool
	closeErr      error
	hits          map[int]int // overlay builds: yield points reached (c08Sched armed)
	pauses        int
	released      []rig.PauseAt
	panicMsg      string
	panicStack    string
	baseGID       int64
}

// c08Sched, if not nil, is the pause schedule armed for the next replay (overlay builds only: C06 replays fault-free
// transcripts of a scripted peer under single pauses).
var c08Sched []rig.PauseAt
var c08SchedLifo bool

// c08Replay runs the real client against a fake server that replays the
// transcript; the server->client stream is cut / corrupted at fault.at.
func c08Replay(t *c08Transcript, f c08Fault, s2cMode rig.Mode, chunkSeed uint64) *c08Outcome {
	res := &c08Outcome{}
	c2s := rig.NewPipe("c2s", rig.ModeBuffered, nil)
	s2c := rig.NewPipe("s2c", s2cMode, chunkFn(chunkSeed))
	if f.kind != rig.FaultNone {
		s2c.CutAt(f.at, f.kind, f.garbage)
	}
	sigEnd := int64(-1)
	for _, m := range t.msgs {
		if strings.HasPrefix(m.name, "signal(") {
			sigEnd = m.end
			break
		}
	}
	var writeFailed atomic.Bool
	if f.failWrites >= 0 && f.lateFail {
		c2s.FailWriteLate(f.failWrites, func() {
			s2c.WaitDelivered(sigEnd)
			time.Sleep(time.Millisecond)
			writeFailed.Store(true)
		})
	} else if f.failWrites >= 0 {
		c2s.FailWritesFrom(f.failWrites)
	}
	res.baseGID = rig.TakeSnapshot().MaxGID()
	armed := c08Sched != nil
	if armed {
		rig.Y.Arm(c08Sched, c08SchedLifo)
	}
	var done atomic.Int32
	var heldWaiting atomic.Int32
	heldRelease := make(chan struct{}, 8)
	var mu sync.Mutex
	setPanic := func(who string, p any) {
		mu.Lock()
		if res.panicMsg == "" {
			res.panicMsg = fmt.Sprintf("%s: %v", who, p)
			res.panicStack = string(debug.Stack())
		}
		mu.Unlock()
	}
	// fake server: releases each message when its gate is satisfied by what the client has written
	go func() {
		for _, m := range t.msgs {
			m := m
			ok := c2s.WaitWritten(func(tap []byte) bool {
				items, _, _ := rig.SplitStream(tap)
				if m.gateRun == "" {
					return len(items) >= m.gateCount
				}
				for _, it := range items {
					rm := rig.AsRuntime(it.Value)
					if rm.OK && rm.ID == uint64(atp.MessageTypeWorkStart) && rm.RunID == m.gateRun {
						return true
					}
				}
				return false
			})
			if !ok {
				// the client->server stream broke: a server sees end of input, finishes and closes its output
				_ = s2c.CloseWrite()
				return
			}
			if m.held {
				heldWaiting.Add(1)
				<-heldRelease
			}
			if _, err := s2c.Write(m.bytes); err != nil {
				return
			}
			if f.kind == rig.FaultFlip && f.at < m.end {
				// the corrupted message is the last thing this server says: what a flipped byte makes of the
				// framing of later messages (and of the requests they are gated on) is not modelled
				_ = s2c.CloseWrite()
				return
			}
		}
		if t.afterBadHello || t.closeAfter {
			_ = s2c.CloseWrite() // nothing follows a hello the client must refuse, or a server-fatal error
		}
	}()
	go func() {
		defer done.Add(1)
		defer func() {
			if p := recover(); p != nil {
				setPanic("client", p)
			}
		}()
		cli := atp.NewClient(rig.Duplex{In: s2c, Out: c2s})
		s, err := cli.ReadSchema()
		res.readSchemaErr, res.schemaOK = err, err == nil && s != nil
		if err == nil || t.afterBadHello {
			for _, g := range t.groups {
				var wg sync.WaitGroup
				for _, e := range g {
					o := &rig.ExecOutcome{Spec: e}
					mu.Lock()
					res.execs = append(res.execs, o)
					mu.Unlock()
					wg.Add(1)
					go func() {
						defer wg.Done()
						defer func() {
							if p := recover(); p != nil {
								setPanic("Execute("+o.Spec.RunID+")", p)
							}
						}()
						var from chan schema.Input
						var dr sync.WaitGroup
						if o.Spec.Emitted {
							from = make(chan schema.Input)
							dr.Add(1)
							go func() {
								defer dr.Done()
								if t.lateRecv && sigEnd >= 0 {
									s2c.WaitDelivered(sigEnd)
									for f.lateFail && !writeFailed.Load() {
										time.Sleep(100 * time.Microsecond)
									}
									time.Sleep(2 * time.Millisecond)
								}
								for s := range from {
									o.Emitted = append(o.Emitted, s)
								}
							}()
						}
						var toStep chan schema.Input
						if o.Spec.HoldSigCh {
							// stays open: the caller is not obliged to close it; signals the caller has queued go out
							// through it (their write may be the one that fails)
							toStep = make(chan schema.Input, len(o.Spec.Signals)+1)
							for _, sg := range o.Spec.Signals {
								toStep <- sg
							}
						}
						o.Result = cli.Execute(schema.Input{RunID: o.Spec.RunID, ID: o.Spec.StepID, InputData: o.Spec.Input}, toStep, from)
						// a consumer ranging over the emitted signals is a caller, too: the channel is closed when the run
						// is over, however it ended
						dr.Wait()
						atomic.AddInt32(&o.Returned, 1)
					}()
				}
				wg.Wait()
			}
		}
		res.closeErr = cli.Close()
		res.closeReturned = true
	}()
	// a call that spins on a sticky error never lets the process go quiet: the driver's CPU-time verdict for the
	// journalled case has to come before this watchdog
	watchdog := 20 * time.Second
	if f.kind == rig.FaultReadTimeout {
		watchdog = 150 * time.Second
	}
	res.monitor = rig.Monitor(func() bool { return done.Load() == 1 }, func(*rig.Snapshot, rig.Verdict) bool {
		// paused goroutines go on first; only then does the server let a held message go
		if at, ok := rig.Y.ReleaseOne(); ok {
			res.released = append(res.released, at)
			return true
		}
		if heldWaiting.Load() > 0 {
			heldWaiting.Add(-1)
			heldRelease <- struct{}{}
			return true
		}
		return false
	}, watchdog)
	if armed {
		res.hits, _, _, res.pauses = rig.Y.Stats()
		res.released = append(res.released, res.monitor.Released...)
		rig.Y.Disarm()
	}
	mu.Lock()
	res.execs = append([]*rig.ExecOutcome{}, res.execs...)
	mu.Unlock()
	_ = c2s.CloseRead()
	_ = c2s.CloseWrite()
	_ = s2c.CloseRead()
	_ = s2c.CloseWrite()
	rig.Settle(300 * time.Millisecond)
	return res
}

func c08Judge(c *wk.Ctx, t *c08Transcript, f c08Fault, res *c08Outcome, wit map[string]any) {
	switch res.monitor.Outcome {
	case "inconclusive":
		c.Inconclusive(fmt.Sprintf("%v: watchdog fired; running: %v", wit, res.monitor.Verdict.RunningDescr) + snapSummary(res.monitor.Snap))
		return
	case "deadlock":
		var blocked []string
		seen := map[string]bool{}
		for _, g := range res.monitor.Snap.BlockedIn("pluginsdk/atp.", res.baseGID) {
			fr := g.State + "@" + shortFrame(g)
			if !seen[fr] {
				seen[fr] = true
				blocked = append(blocked, fr)
			}
		}
		sort.Strings(blocked)
		var un []string
		for _, e := range res.execs {
			if atomic.LoadInt32(&e.Returned) == 0 {
				un = append(un, e.Spec.RunID)
			}
		}
		wit["blocked"] = res.monitor.Snap.Summary()
		wit["goroutines"] = clipStr(res.monitor.Snap.Raw, 9000)
		c.Violation("C08:hang:"+strings.Join(blocked, "|"), fmt.Sprintf("the faulty stream was delivered completely, yet Execute %v / Close(returned=%v) never return: every goroutine is blocked", un, res.closeReturned), wit)
		return
	}
	if res.panicMsg != "" {
		wit["stack"] = clipStr(res.panicStack, 5000)
		c.Violation("C08:panic:"+panicSiteFromStack(res.panicStack), res.panicMsg, wit)
		return
	}
	intact := func(end int64) bool { return f.kind == rig.FaultNone || end <= f.at }
	// A short arbitrary tail can complete a cut message into a different but valid one, which no client
	// can detect; only a tail of 0xff bytes (never a valid item head, never valid UTF-8) makes "not
	// intact => must fail" decidable. Other tails are judged for panics and hangs only.
	decidable := f.kind != rig.FaultGarbage || (len(f.garbage) >= 32 && f.garbage[0] == 0xff && f.garbage[len(f.garbage)-1] == 0xff)
	if f.kind == rig.FaultFlip {
		// a flipped byte may turn one valid message into another valid one (e.g. another run ID): which results are
		// delivered is not decidable - only panics, hangs and return counts are judged
		decidable = false
	}
	helloOK := intact(t.msgs[0].end) && t.version != 0 && strings.HasPrefix(t.name, "v")
	if res.schemaOK && !helloOK && (decidable || intact(t.msgs[0].end)) {
		c.Violation("C08:readschema-fabricated", fmt.Sprintf("ReadSchema succeeded although the hello message %s", map[bool]string{true: "did not arrive intact", false: "must be refused (" + t.name + ")"}[!intact(t.msgs[0].end)]), wit)
	}
	if !res.schemaOK && helloOK && f.failWrites != 0 {
		c.Violation("C08:readschema-spurious-failure", fmt.Sprintf("hello arrived intact but ReadSchema failed: %v", res.readSchemaErr), wit)
	}
	for _, e := range res.execs {
		if atomic.LoadInt32(&e.Returned) != 1 {
			c.Violation("C08:execute-return-count", fmt.Sprintf("Execute(%s) returned %d times", e.Spec.RunID, atomic.LoadInt32(&e.Returned)), wit)
			continue
		}
		c.Count("executes_judged")
		var end int64 = -1
		for _, m := range t.msgs {
			if m.terminalFor == e.Spec.RunID {
				end = m.end
			}
		}
		if e.Result.Error != nil {
			c.Count("executes_failed_as_they_should_or_may")
			continue
		}
		c.Count("executes_succeeded")
		w := map[string]any{"fault": wit, "run": e.Spec.RunID, "work_done_ends_at": end, "result": fmt.Sprintf("%v %v", e.Result.OutputID, cmpx.CanonLoose(e.Result.OutputData))}
		if f.kind == rig.FaultFlip {
			// decidable part of the flips: the byte that was hit is the header of this run's work-done message or
			// lies in the text of one of its envelope keys (id / run_id / data) - what arrives is then not that
			// message, whatever else it is
			for _, m := range t.msgs {
				if m.terminalFor != e.Spec.RunID || f.at < m.start || f.at >= m.end {
					continue
				}
				rel := int(f.at - m.start)
				hit := rel == 0
				if i := bytes.Index(m.bytes, []byte("\x64data")); t.version != 1 && i >= 0 && rel == i+5 {
					// the header of the payload map {step_id, output_id, output_data, debug_logs}: anything that is no longer
					// a map, or a map cut down to fewer than two entries, carries no output ID (a map cut to two or three
					// entries still delivers a result that no client can tell from an intact one)
					if nb := m.bytes[rel] ^ f.garbage[0]; nb>>5 != 5 || nb&0x1f < 2 {
						hit = true
					}
				}
				if hit && t.version == 1 {
					// a v1 work-done is a bare map {step_id, output_id, output_data, debug_logs}: a header that still says
					// "map" with at least the three entries that carry the result delivers that result unharmed (what
					// follows is never read), which no client can tell from an intact message
					if nb := m.bytes[0] ^ f.garbage[0]; nb>>5 == 5 && nb&0x1f >= 3 && nb&0x1f <= m.bytes[0]&0x1f {
						hit = false
					}
				}
				for _, key := range []string{"\x62id", "\x66run_id", "\x64data", "\x67step_id", "\x69output_id", "\x6boutput_data", "\x6adebug_logs"} {
					if i := bytes.Index(m.bytes, []byte(key)); i >= 0 && rel > i && rel <= i+len(key)-1 {
						// (the decoder matches field names without regard to case: a flipped case bit changes nothing)
						was, is := m.bytes[rel], m.bytes[rel]^f.garbage[0]
						if bytes.ToLower([]byte{was})[0] != bytes.ToLower([]byte{is})[0] {
							hit = true
						}
					}
				}
				// a byte in the TEXT of the output ID pushed out of ASCII: the text is no longer valid UTF-8, which CBOR
				// text strings must be, so what arrived is not a well-formed work-done message
				if i := bytes.Index(m.bytes, []byte("\x69output_id")); i >= 0 && !hit {
					vh := i + 10 // header of the value: text of length < 24
					if vh < len(m.bytes) && m.bytes[vh]>>5 == 3 && m.bytes[vh]&0x1f < 24 {
						n := int(m.bytes[vh] & 0x1f)
						if rel > vh && rel <= vh+n && m.bytes[rel] < 0x80 && (m.bytes[rel]^f.garbage[0]) >= 0x80 {
							hit = true
							c.Count("flips_that_break_the_utf8_of_an_output_id")
						}
					}
				}
				if hit {
					c.Count("flips_in_the_envelope_of_a_work_done")
					if rel > 0 {
						c.Count("flips_in_a_key_of_a_work_done")
					}
					c.Violation("C08:fabricated-success:work-done-envelope-corrupted", fmt.Sprintf("Execute(%s) reports success although the envelope of its work-done message was corrupted (byte %d of the message, mask %#x): the result cannot have come from that message", e.Spec.RunID, rel, f.garbage[0]), w)
				}
			}
			// the other decidable part: the message that was hit is not a work-done message at all (an error or a
			// signal message). Every other message is intact, so a success can only come from the run's own
			// work-done and must be exactly that; anything else was read out of the damaged message
			for _, m := range t.msgs {
				if f.at < m.start || f.at >= m.end || m.terminalFor != "" || m.start == 0 {
					continue
				}
				c.Count("flips_in_a_message_that_is_not_a_work_done")
				norm, _ := cmpx.CBORNorm(t.expect[e.Spec.RunID])
				if t.expectID[e.Spec.RunID] == "" || e.Result.OutputID != t.expectID[e.Spec.RunID] || cmpx.Canon(norm) != cmpx.Canon(e.Result.OutputData) {
					c.Violation("C08:fabricated-success:from-a-message-that-is-not-a-work-done", fmt.Sprintf("Execute(%s) reports a success that is not its work-done message's (expected output ID %q): the damaged message %s (byte %d, mask %#x) was taken for a result", e.Spec.RunID, t.expectID[e.Spec.RunID], m.name, f.at-m.start, f.garbage[0]), w)
				}
			}
			continue
		}
		if end < 0 || t.expectID[e.Spec.RunID] == "" {
			c.Violation("C08:fabricated-success:no-work-done-in-transcript", fmt.Sprintf("Execute(%s) reports success but the server never sent a work-done for it", e.Spec.RunID), w)
			continue
		}
		if !decidable {
			continue
		}
		if !intact(end) || !helloOK {
			c.Violation("C08:fabricated-success:work-done-not-intact", fmt.Sprintf("Execute(%s) reports success although its work-done message (ends at offset %d) was not delivered intact (fault %s at %d)", e.Spec.RunID, end, f.kind, f.at), w)
			continue
		}
		norm, _ := cmpx.CBORNorm(t.expect[e.Spec.RunID])
		if e.Result.OutputID != t.expectID[e.Spec.RunID] || cmpx.Canon(norm) != cmpx.Canon(e.Result.OutputData) {
			c.Violation("C08:wrong-result", fmt.Sprintf("Execute(%s) returned a result that differs from what the server sent", e.Spec.RunID), w)
		}
	}
}

func runC08(c *wk.Ctx) {
	c.Meta("rule", "server transcripts (v3: one run; serial ok/fail/ok; 3 concurrent with emitted signals, non-fatal errors and out-of-order results; server-fatal error midway; trailing error then another run. v1: two serial runs. hellos with unsupported versions and with schemas that do not unserialize) are replayed by a fake server whose messages are released when the client's matching request has arrived. Faults: the server->client stream is cut at byte offset k with {EOF, read error, garbage tail then EOF} for EVERY k of the runtime part and every k (thorough) / every 5th k plus message boundaries +-1 (quick) of the hello; the client->server write side fails independently from write #j on; a single byte of one runtime message is flipped (5 masks), the rest of that message is delivered and the stream then ends - only panics, hangs and return counts are judged for these. Transports buffered and chunked. Oracle: recovered/fatal panics; quiescence monitor (a call that never returns after the faulty stream was delivered); an Execute may only report success if its work-done ended at or before k, and then with exactly the transcript's result; ReadSchema likewise. non-trivial = cut strictly inside the stream or a write fault; distinct = hash(transcript, fault, transport) Fault kind read-timeout: from offset k on every read fails with an error whose Timeout() is true (an expired deadline stays expired); transcripts bad-schema-*-plugin-goes-on: a hello whose schema does not load, from a plugin that talks on - later calls must fail. A call that computes forever is the driver's CPU-time verdict (60 s on one journalled session).")
	c.Meta("assumptions", []string{"in-payload bit corruption is undetectable without a checksum and is not demanded; the garbage fault replaces the rest of the stream",
		"garbage tails start with bytes that are not a complete valid runtime message"})
	c.Floor("replays", 500)
	c.Floor("executes_succeeded", 20)
	c.Floor("executes_failed_as_they_should_or_may", 100)
	ts := c08Transcripts()
	type job struct {
		t     int
		f     c08Fault
		label string
	}
	var jobs []job
	ff := make([]byte, 64)
	for i := range ff {
		ff[i] = 0xff
	}
	garb := [][]byte{ff, ff, {0xff, 0xff, 0x00}, {0x01, 0x02, 0x03}, {0xa1, 0x62, 'i', 'd', 0x61, 'x'}, {0xbf}, {0x5b, 0xff, 0xff, 0xff, 0xff, 0xff, 0xff, 0xff, 0xff}, {0x82, 0x01}}
	for ti := range ts {
		t := &ts[ti]
		total := t.total()
		helloEnd := t.msgs[0].end
		bound := map[int64]bool{}
		for _, m := range t.msgs {
			for _, d := range []int64{-1, 0, 1} {
				if m.end+d >= 0 && m.end+d <= total {
					bound[m.end+d] = true
				}
			}
		}
		jobs = append(jobs, job{ti, c08Fault{kind: rig.FaultNone, failWrites: -1}, "no-fault"})
		for k := int64(0); k <= total; k++ {
			inHello := k < helloEnd-1
			helloTimeouts := t.name == "v3-one-run" || t.name == "v1-two-serial" // the handshake is the same in every transcript
			if (k >= helloEnd && (bound[k] || k%7 == 3)) || (helloTimeouts && (bound[k] || k == 0 || k == helloEnd/4 || k == helloEnd/2)) {
				// an expired read deadline: the error says Timeout() == true and comes back on every later read
				jobs = append(jobs, job{ti, c08Fault{kind: rig.FaultReadTimeout, at: k, failWrites: -1}, "cut"})
			}
			if inHello && c.Quick() && k%5 != 0 && !bound[k] && k > 40 {
				continue
			}
			if !strings.HasPrefix(t.name, "v") && k%9 != 0 && !bound[k] {
				continue // refused hellos: sparse cuts are enough
			}
			for _, kind := range []rig.FaultKind{rig.FaultEOF, rig.FaultReadError, rig.FaultGarbage} {
				f := c08Fault{kind: kind, at: k, failWrites: -1}
				if kind == rig.FaultGarbage {
					f.garbage = garb[int(k)%len(garb)]
				}
				jobs = append(jobs, job{ti, f, "cut"})
			}
		}
		// one flipped byte inside the hello message (the schema description travels there): ReadSchema may fail or
		// succeed, but nothing may panic or hang
		if t.name == "v3-one-run" || t.name == "v1-two-serial" {
			step := int64(1)
			if c.Quick() {
				step = 5
			}
			for k := int64(0); k < helloEnd; k += step {
				for mi, mask := range []byte{0x01, 0x02, 0x04, 0x20} {
					if c.Quick() && (int(k/step)+mi)%2 != 0 {
						continue
					}
					jobs = append(jobs, job{ti, c08Fault{kind: rig.FaultFlip, at: k, failWrites: -1, garbage: []byte{mask}}, "byte-flip-in-hello"})
				}
			}
		}
		// one flipped byte in the runtime part (the stream then continues to its end)
		if strings.HasPrefix(t.name, "v") {
			for k := helloEnd; k < total; k++ {
				for mi, mask := range []byte{0x01, 0x02, 0x20, 0x80, 0xff, 0x07, 0x04} {
					if c.Quick() && (int(k)+mi)%3 != 0 && mask != 0x07 && mask != 0x04 {
						continue
					}
					jobs = append(jobs, job{ti, c08Fault{kind: rig.FaultFlip, at: k, failWrites: -1, garbage: []byte{mask}}, "byte-flip"})
				}
			}
		}
		// the write of the work-start message reaches the server, takes its time and then reports an error - while
		// the read loop is handing the run's first emitted signal to a consumer that is late
		if t.name == "v3-signal-then-done-late-receiver" {
			for rep := 0; rep < 6; rep++ {
				jobs = append(jobs, job{ti, c08Fault{kind: rig.FaultNone, failWrites: 1, lateFail: true}, "late-write-fault"})
			}
		}
		// write side failing from write #j (with and without a simultaneous read fault at a boundary)
		for j := 0; j <= 6; j++ {
			jobs = append(jobs, job{ti, c08Fault{kind: rig.FaultNone, failWrites: j}, "write-fault"})
			for b := range bound {
				if b%3 == int64(j)%3 {
					jobs = append(jobs, job{ti, c08Fault{kind: rig.FaultEOF, at: b, failWrites: j}, "write+read-fault"})
				}
			}
		}
	}
	c.Meta("cov.transcripts", len(ts))
	c.Meta("cov.fault_jobs", len(jobs))
	c.Meta("exhaustive", !c.Quick())
	c.Cases(int64(len(jobs)), func(idx int64, r *wk.Rand) {
		j := jobs[idx]
		t := &ts[j.t]
		mode := rig.ModeBuffered
		if idx%2 == 1 {
			mode = rig.ModeChunked
		}
		seed := r.U64()
		wit := map[string]any{"transcript": t.name, "stream_bytes": t.total(), "fault": j.f.kind.String(), "cut_at": j.f.at, "client_writes_fail_from": j.f.failWrites, "failing_write_delivers_first": j.f.lateFail, "transport": mode.String(), "chunk_seed": seed}
		var names []string
		for _, m := range t.msgs {
			names = append(names, fmt.Sprintf("%s[%d..%d)", m.name, m.start, m.end))
		}
		wit["messages"] = names
		c.Note(fmt.Sprintf("%s fault=%s at=%d failWrites=%d mode=%s", t.name, j.f.kind, j.f.at, j.f.failWrites, mode))
		res := c08Replay(t, j.f, mode, seed)
		c.Count("replays")
		c.Count("transcript:" + t.name)
		c.Count("fault:" + j.label + ":" + j.f.kind.String())
		c.Eval(wk.Hash64(t.name, fmt.Sprint(j.f.kind, j.f.at, j.f.failWrites, j.f.lateFail), mode.String()), (j.f.kind != rig.FaultNone && j.f.at > 0 && j.f.at < t.total()) || j.f.failWrites >= 0)
		c08Judge(c, t, j.f, res, wit)
		if idx%997 == 0 {
			c.Sample("replay", wit)
		}
	})
	_ = cbor.Marshal
}

func init() { register("C08", runC08) }
