package props

import (
	"bytes"
	"fmt"
	"go/ast"
	"go/parser"
	"go/token"
	"os"
	"os/exec"
	"path/filepath"
	"sort"
	"strings"

	"verif/internal/wk"
)

var c19TypeIDs = []string{"string", "integer", "float", "bool", "pattern", "enum_string", "enum_integer", "list", "map", "object", "scope", "one_of_string", "one_of_int", "any", "ref"}

type c19Prop struct {
	name, typeID, refID string
	extraID             string // an id field on a non-reference type (e.g. an inline object's id)
}
type c19Obj struct {
	name    string
	innerID string // "" = no id field
	props   []c19Prop
}

func c19Ident(r *wk.Rand, used map[string]bool) string {
	const first = "abcdefghijklmnopqrstuvwxyzABCDEFGHIJKLMNOPQRSTUVWXYZ"
	const rest = first + "0123456789"
	for {
		n := 1 + r.Intn(10)
		b := make([]byte, n)
		b[0] = first[r.Intn(len(first))]
		for i := 1; i < n; i++ {
			b[i] = rest[r.Intn(len(rest))]
		}
		s := string(b)
		if r.Chance(8) {
			s = wk.Pick(r, []string{"Type", "Func", "Map", "string", "error", "int64", "ObjectMeta", "v1", "metav1", "any", "nil", "true",
				// names that merely begin like a type ID
				"interval", "internalEndpoint", "intOrString", "floatingIP", "stringer", "boolish", "listing", "mapper", "objective", "refund", "patterns", "anyone", "integers"})
		} else if r.Chance(6) {
			// valid identifiers that do not start with an ASCII letter
			s = wk.Pick(r, []string{"élan", "Überwachung", "имя", "名前", "ñandu", "çevre", "über9", "Ärger", "naïve", "Ωmega"})
		}
		if used[strings.ToLower(s)] || goKeywords[s] {
			continue // (a Go keyword such as "go" or "if" is not a valid identifier: outside the statement)
		}
		used[strings.ToLower(s)] = true
		return s
	}
}

var goKeywords = map[string]bool{"break": true, "case": true, "chan": true, "const": true, "continue": true, "default": true, "defer": true,
	"else": true, "fallthrough": true, "for": true, "func": true, "go": true, "goto": true, "if": true, "import": true, "interface": true,
	"map": true, "package": true, "range": true, "return": true, "select": true, "struct": true, "switch": true, "type": true, "var": true}

func c19Gen(r *wk.Rand) []c19Obj {
	nobj := r.Intn(7)
	large := r.Chance(8) // now and then a schema whose generated source runs to tens of kilobytes
	if large {
		nobj = 8 + r.Intn(30)
	}
	usedObj := map[string]bool{}
	objs := make([]c19Obj, nobj)
	for i := range objs {
		objs[i].name = c19Ident(r, usedObj)
		objs[i].innerID = objs[i].name
	}
	for i := range objs {
		switch r.Intn(10) {
		case 0:
			objs[i].innerID = ""
		case 1:
			objs[i].innerID = objs[r.Intn(len(objs))].name // the id of another object (or its own)
		case 2:
			objs[i].innerID = "SomethingElse"
		}
	}
	allowMap := r.Chance(12)
	for i := range objs {
		np := r.Intn(7)
		if large {
			np = 5 + r.Intn(40)
		}
		used := map[string]bool{}
		for j := 0; j < np; j++ {
			p := c19Prop{name: c19Ident(r, used)}
			if j > 0 && r.Chance(12) && objs[i].props[0].name[0] < 0x80 && func() bool {
				for _, q := range objs[i].props {
					if q.name[0] >= 0x80 {
						return false
					}
				}
				return true
			}() {
				// a property that differs from an earlier one only in the case of its first letter
				prev := objs[i].props[r.Intn(len(objs[i].props))].name
				alt := strings.ToUpper(prev[:1]) + prev[1:]
				if alt == prev {
					alt = strings.ToLower(prev[:1]) + prev[1:]
				}
				dup := false
				for _, q := range objs[i].props {
					if q.name == alt {
						dup = true
					}
				}
				if !dup && alt != prev {
					p.name = alt
				}
			}
			p.typeID = wk.Pick(r, c19TypeIDs)
			if p.typeID == "map" && !allowMap {
				p.typeID = "list"
			}
			if p.typeID != "ref" && r.Chance(15) {
				p.extraID = wk.Pick(r, []string{"InlineThing", "Burst", objs[r.Intn(len(objs))].name})
			}
			if p.typeID == "ref" {
				if r.Chance(80) {
					p.refID = objs[r.Intn(len(objs))].name
				} else if r.Bool() {
					p.refID = c19Ident(r, map[string]bool{})
				} else {
					// a referenced object whose name merely begins like a type ID
					p.refID = wk.Pick(r, []string{"interval", "internalEndpoint", "intOrString", "integers", "floatingIP", "floats", "stringer", "boolish", "listing", "mapper", "objective", "refund", "anyone",
						// ... or that IS a type ID: the field is still typed by the referenced object's name
						"integer", "float", "string", "bool", "list", "any"})
				}
			}
			objs[i].props = append(objs[i].props, p)
		}
	}
	return objs
}

func c19YAML(r *wk.Rand, objs []c19Obj) string {
	var sb strings.Builder
	sb.WriteString("steps:\n    create:\n        id: create\n        input:\n")
	if len(objs) == 0 {
		if r.Bool() {
			sb.WriteString("            objects: {}\n")
		} else {
			sb.WriteString("            root: nothing\n")
		}
		return sb.String()
	}
	sb.WriteString("            objects:\n")
	for _, o := range objs {
		fmt.Fprintf(&sb, "                %s:\n", o.name)
		if o.innerID == "" && len(o.props) == 0 && r.Bool() {
			// an object without a body: the value of its key is null
			s := sb.String()
			sb.Reset()
			sb.WriteString(strings.TrimSuffix(s, ":\n") + wk.Pick(r, []string{":\n", ": ~\n", ": null\n", ": {}\n"}))
			continue
		}
		if o.innerID != "" {
			fmt.Fprintf(&sb, "                    id: %s\n", o.innerID)
		} else if len(o.props) == 0 {
			sb.WriteString("                    properties: {}\n")
			continue
		}
		if len(o.props) == 0 {
			if r.Bool() {
				sb.WriteString("                    properties: {}\n")
			}
			continue
		}
		sb.WriteString("                    properties:\n")
		for _, p := range o.props {
			fmt.Fprintf(&sb, "                        %s:\n                            type:\n                                type_id: %s\n", p.name, p.typeID)
			if p.typeID == "ref" {
				fmt.Fprintf(&sb, "                                id: %s\n", p.refID)
			} else if p.extraID != "" {
				fmt.Fprintf(&sb, "                                id: %s\n", p.extraID)
			}
			if r.Bool() {
				// descriptions are free text: one line, several lines (literal block, folded paragraphs, escapes), with
				// characters that mean something in Go source
				desc := "some text"
				switch r.Intn(6) {
				case 0:
					desc = "|\n                                    first line\n                                    second\n                                    third line */ } // `"
				case 1:
					desc = ">\n                                    one paragraph\n\n                                    another paragraph"
				case 2:
					desc = "\"first\\nsecond\\n\\tthird \\\" quoted\""
				case 3:
					desc = "\"ends with a backslash \\\\\""
				}
				fmt.Fprintf(&sb, "                            display:\n                                name: \"N %s\"\n                                description: %s\n", p.name, desc)
			}
			if r.Bool() {
				sb.WriteString("                            required: true\n")
			}
		}
	}
	return sb.String()
}

type c19Field struct{ name, typ, tag string }

// parseStructs extracts struct -> fields (in source order) from generated Go.
func c19Parse(src []byte) (order []string, structs map[string][]c19Field, err error) {
	fset := token.NewFileSet()
	f, err := parser.ParseFile(fset, "typedef_output.go", src, parser.AllErrors)
	if err != nil {
		return nil, nil, err
	}
	structs = map[string][]c19Field{}
	for _, d := range f.Decls {
		gd, ok := d.(*ast.GenDecl)
		if !ok || gd.Tok != token.TYPE {
			continue
		}
		for _, sp := range gd.Specs {
			ts := sp.(*ast.TypeSpec)
			st, ok := ts.Type.(*ast.StructType)
			if !ok {
				return nil, nil, fmt.Errorf("type %s is not a struct", ts.Name.Name)
			}
			order = append(order, ts.Name.Name)
			var fs []c19Field
			for _, fl := range st.Fields.List {

				typ := string(src[fset.Position(fl.Type.Pos()).Offset:fset.Position(fl.Type.End()).Offset])
				tag := ""
				if fl.Tag != nil {
					tag = fl.Tag.Value
				}
				if len(fl.Names) == 0 {
					fs = append(fs, c19Field{"", typ, tag})
				}
				for _, n := range fl.Names {
					fs = append(fs, c19Field{n.Name, typ, tag})
				}
			}
			structs[ts.Name.Name] = append(structs[ts.Name.Name], fs...)
		}
	}
	return order, structs, nil
}

func c19GoType(p c19Prop) string {
	switch p.typeID {
	case "integer":
		return "int64"
	case "float":
		return "float64"
	case "ref":
		return p.refID
	}
	return p.typeID
}

func runC19(c *wk.Ctx) {
	c.Meta("rule", "generated schema YAML (0..6 objects x 0..6 properties, identifiers incl. Go keywords and mixed case, every type ID, refs to declared and undeclared objects) x {no ignore argument, ignore an existing object, ignore a non-existing name}; the generator binary built from the working tree is run 6 times per (input, argument form) in a private directory - runs 0/2/4 into an empty directory, runs 1/3/5 over an existing typedef_output.go that is longer than the new output (regenerating in place): exit status, stderr, output re-parsed with go/parser and compared as struct/field multisets with the expected mapping, and byte-compared across runs. non-trivial = at least 2 objects or an object with at least 2 properties (map iteration order can show); distinct by hash of (YAML, arguments)")
	c.Meta("assumptions", []string{"names are a letter (ASCII, or a non-ASCII letter such as é, Ü, и, 名) followed by letters/digits (no underscores), no two names equal ignoring case; struct/field names are compared case-insensitively because title-casing is delegated to golang.org/x/text"})
	c.Floor("generator_runs", 200)
	c.Floor("outputs_parsed", 20)
	work := os.Getenv("VERIF_WORK")
	repo := os.Getenv("VERIF_REPO")
	if work == "" || repo == "" {
		panic("VERIF_WORK/VERIF_REPO not set")
	}
	bin := filepath.Join(work, fmt.Sprintf("codegen-%d", c.Shard))
	build := exec.Command("go", "build", "-o", bin, ".")
	build.Dir = filepath.Join(repo, "cmd", "arcaflow-codegen")
	if out, err := build.CombinedOutput(); err != nil {
		fmt.Fprintf(os.Stderr, "cannot build the code generator: %v\n%s\n", err, out)
		os.Exit(4)
	}
	n := c.N(320, 36000)
	const runs = 6
	c.Cases(n, func(idx int64, r *wk.Rand) {
		objs := c19Gen(r)
		yamlText := c19YAML(r, objs)
		// schema files without a single object, down to a file that holds no YAML document at all
		if empties := []string{"", "   \n\n", "# nothing but a comment\n", "---\n", "steps: {}\n", "steps:\n", "steps:\n    create:\n        id: create\n        input:\n            objects:\n"}; idx < int64(len(empties)) {
			objs, yamlText = nil, empties[idx]
			c.Count("inputs_without_any_object")
		}
		dir := filepath.Join(work, fmt.Sprintf("c19-%d-%d", c.Shard, idx))
		_ = os.MkdirAll(dir, 0o755)
		defer os.RemoveAll(dir)
		if err := os.WriteFile(filepath.Join(dir, "schema_input.yaml"), []byte(yamlText), 0o644); err != nil {
			panic(err)
		}
		nontrivial := len(objs) >= 2
		for _, o := range objs {
			if len(o.props) >= 2 {
				nontrivial = true
			}
		}
		hasMap := false
		for _, o := range objs {
			for _, p := range o.props {
				if p.typeID == "map" {
					hasMap = true
				}
			}
		}
		forms := []struct {
			name   string
			ignore *string
		}{{"no-ignore-argument", nil}}
		if len(objs) > 0 {
			ig := objs[r.Intn(len(objs))].name
			forms = append(forms, struct {
				name   string
				ignore *string
			}{"ignore-existing", &ig})
		}
		none := "NoSuchObjectZ"
		forms = append(forms, struct {
			name   string
			ignore *string
		}{"ignore-absent", &none})
		for _, form := range forms {
			args := []string{"schema_input.yaml"}
			if form.ignore != nil {
				args = append(args, *form.ignore)
			}
			c.Eval(wk.Hash64(yamlText, strings.Join(args, " ")), nontrivial)
			var first []byte
			w := map[string]any{"yaml": yamlText, "args": args}
			ok := true
			for run := 0; run < runs && ok; run++ {
				if run%2 == 0 {
					_ = os.Remove(filepath.Join(dir, "typedef_output.go"))
				} else {
					// regenerating in place: the directory holds an earlier, longer output
					stale := append(append([]byte{}, first...), []byte(strings.Repeat("\n}}}} tail of an earlier, longer output {{{{\n", 8))...)
					_ = os.WriteFile(filepath.Join(dir, "typedef_output.go"), stale, 0o644)
					c.Count("runs_over_an_existing_longer_output")
				}
				cmd := exec.Command(bin, args...)
				if run >= 2 {
					// the same program started under another name (installed elsewhere, run through a link)
					cmd.Args[0] = fmt.Sprintf("/opt/tools-%d/bin/arcaflow-codegen", run)
					c.Count("runs_under_another_program_name")
				}
				cmd.Dir = dir
				cmd.Env = []string{"PATH=" + os.Getenv("PATH"), "HOME=" + dir}
				var stderr, stdout bytes.Buffer
				cmd.Stderr, cmd.Stdout = &stderr, &stdout
				err := cmd.Run()
				c.Count("generator_runs")
				c.Count("form:" + form.name)
				if err != nil {
					ok = false
					es := stderr.String()
					class := "other"
					switch {
					case strings.Contains(es, "index out of range"):
						class = "index-out-of-range:" + form.name
					case strings.Contains(es, "expected") && hasMap:
						class = "gofmt-fail:type_id=map"
					case strings.Contains(es, "expected"):
						class = "gofmt-fail"
					}
					w["stderr"] = clipStr(es, 1500)
					c.Violation("C19:generator-failed:"+class, fmt.Sprintf("generator exited with %v (%s): %s", err, form.name, firstLine(es)), w)
					break
				}
				out, rerr := os.ReadFile(filepath.Join(dir, "typedef_output.go"))
				if rerr != nil {
					ok = false
					c.Violation("C19:no-output", fmt.Sprintf("generator exited 0 but wrote no typedef_output.go (%s)", form.name), w)
					break
				}
				if run == 0 {
					first = out
					c19CheckOutput(c, objs, form.ignore, out, w)
					continue
				}
				if !bytes.Equal(out, first) {
					ok = false
					w["run0"] = clipStr(string(first), 3000)
					w["run_n"] = clipStr(string(out), 3000)
					c.Violation("C19:nondeterministic-output", fmt.Sprintf("run %d on the same input and arguments (odd runs regenerate over an existing, longer typedef_output.go) produced different bytes than run 0 (%s)", run, form.name), w)
				}
			}
		}
		if idx < 3 {
			c.Sample("input", map[string]any{"yaml": yamlText})
		}
	})
}

func c19CheckOutput(c *wk.Ctx, objs []c19Obj, ignore *string, out []byte, w map[string]any) {
	order, structs, err := c19Parse(out)
	if err != nil {
		w["output"] = clipStr(string(out), 3000)
		c.Violation("C19:output-not-parseable", fmt.Sprintf("output is not valid Go: %v", err), w)
		return
	}
	c.Count("outputs_parsed")
	type exp struct {
		name   string
		fields []string
	}
	var want []string
	expFields := map[string][]string{}
	for _, o := range objs {
		if ignore != nil && o.name == *ignore {
			continue
		}
		key := strings.ToLower(o.name)
		want = append(want, key)
		var fs []string
		for _, p := range o.props {
			fs = append(fs, fmt.Sprintf("%s %s `json:\"%s\"`", strings.ToLower(p.name), c19GoType(p), p.name))
		}
		sort.Strings(fs)
		expFields[key] = fs
	}
	var got []string
	gotFields := map[string][]string{}
	for _, name := range order {
		got = append(got, strings.ToLower(name))
	}
	for name, fs := range structs {
		var l []string
		for _, f := range fs {
			l = append(l, fmt.Sprintf("%s %s %s", strings.ToLower(f.name), f.typ, f.tag))
		}
		sort.Strings(l)
		gotFields[strings.ToLower(name)] = l
	}
	sort.Strings(want)
	sort.Strings(got)
	if strings.Join(want, ",") != strings.Join(got, ",") {
		w["output"] = clipStr(string(out), 3000)
		c.Violation("C19:struct-set-mismatch", fmt.Sprintf("structs in output %v; expected one per non-ignored object %v", got, want), w)
		return
	}
	for _, k := range want {
		if strings.Join(expFields[k], "\n") != strings.Join(gotFields[k], "\n") {
			w["output"] = clipStr(string(out), 3000)
			c.Violation("C19:field-mismatch", fmt.Sprintf("struct %s has fields %q; expected %q", k, gotFields[k], expFields[k]), w)
			return
		}
		c.CountN("fields_checked", int64(len(expFields[k])))
	}
	c.CountN("structs_checked", int64(len(want)))
}

func clipStr(s string, n int) string {
	if len(s) > n {
		return s[:n] + "...[clipped]"
	}
	return s
}

func firstLine(s string) string {
	for _, l := range strings.Split(s, "\n") {
		if strings.TrimSpace(l) != "" {
			return strings.TrimSpace(l)
		}
	}
	return ""
}

func init() { register("C19", runC19) }
