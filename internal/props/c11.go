package props

import (
	"context"
	"errors"
	"fmt"
	"runtime"
	"sort"
	"strings"
	"sync"
	"sync/atomic"
	"time"

	"go.flow.arcalot.io/pluginsdk/schema"

	"verif/internal/cmpx"
	"verif/internal/gen"
	"verif/internal/ref"
	"verif/internal/rig"
	"verif/internal/wk"
)

type c11StepData struct {
	token int64
	ch    chan int64 // rendezvous step: the signal handler hands a value to the running step
}

type c11Rec struct {
	mu        sync.Mutex
	stepCalls []c11Call
	sigCalls  []c11Call
	inits     atomic.Int64
}

type c11Call struct {
	step  string
	arg   any
	token int64
	run   string // from the context the caller passed, "" if the SDK passed another context on
}

type c11RunKey struct{}

func c11Run(ctx context.Context) string {
	s, _ := ctx.Value(c11RunKey{}).(string)
	return s
}

type c11Plugin struct {
	schema   *schema.CallableSchema
	rec      *c11Rec
	inShape  map[string]*gen.Shape
	outShape map[string]map[string]*gen.Shape
	sigShape map[string]map[string]*gen.Shape
	// what the next handler invocation of a step returns
	behaviour map[string]*c11Behaviour
}

type c11Behaviour struct {
	mu       sync.Mutex
	outputID string
	data     any
}

func (b *c11Behaviour) set(id string, data any) {
	b.mu.Lock()
	b.outputID, b.data = id, data
	b.mu.Unlock()
}

func c11BuildPlugin(r *wk.Rand) *c11Plugin {
	cfg := gen.Full()
	cfg.Structs, cfg.TypedEnum, cfg.GoodDefaults, cfg.NilDisplay = false, false, true, false
	p := &c11Plugin{rec: &c11Rec{}, inShape: map[string]*gen.Shape{}, outShape: map[string]map[string]*gen.Shape{}, sigShape: map[string]map[string]*gen.Shape{}, behaviour: map[string]*c11Behaviour{}}
	mk := func(structs ...bool) (*gen.Shape, *schema.ScopeSchema) {
		for {
			cfg := cfg
			cfg.Structs = len(structs) > 0 && structs[0]
			sh := gen.GenScope(r, cfg)
			if t, ok, _ := buildGuarded(sh); ok {
				return sh, t.(*schema.ScopeSchema)
			}
		}
	}
	var steps []schema.CallableStep
	for si := 0; si <= r.Intn(2); si++ {
		id := fmt.Sprintf("step%d", si)
		inS, inT := mk()
		p.inShape[id] = inS
		p.outShape[id] = map[string]*gen.Shape{}
		p.sigShape[id] = map[string]*gen.Shape{}
		outs := map[string]*schema.StepOutputSchema{}
		for oi := 0; oi <= r.Intn(3); oi++ {
			oid := fmt.Sprintf("out%d", oi)
			oS, oT := mk(oi%2 == 1) // every second output may contain struct-mapped objects
			p.outShape[id][oid] = oS
			outs[oid] = schema.NewStepOutputSchema(oT, nil, oi > 0)
		}
		handlers := map[string]schema.CallableSignal{}
		nHandlers := r.Intn(4) // 0: a step that has an initialiser but no signal handlers (only sometimes a nil map)
		if nHandlers == 0 && r.Bool() {
			handlers = nil
		}
		for hi := 0; hi < nHandlers && hi < 3; hi++ {
			hid := fmt.Sprintf("sig%d", hi)
			sS, sT := mk()
			p.sigShape[id][hid] = sS
			stepID := id
			ownID := hid
			if hi == 1 {
				ownID = "own-id-of-" + hid // the key under which the step advertises a handler is what callers use
			}
			handlers[hid] = schema.NewCallableSignal[*c11StepData, any](ownID, sT, nil, func(hctx context.Context, d *c11StepData, in any) {
				p.rec.mu.Lock()
				p.rec.sigCalls = append(p.rec.sigCalls, c11Call{stepID + "/" + hid, in, d.token, c11Run(hctx)})
				p.rec.mu.Unlock()
			})
		}
		b := &c11Behaviour{}
		p.behaviour[id] = b
		stepID := id
		steps = append(steps, schema.NewCallableStepWithSignals[*c11StepData, any](id, inT, outs, handlers, nil, nil,
			func() *c11StepData { return &c11StepData{token: p.rec.inits.Add(1)} },
			func(hctx context.Context, d *c11StepData, in any) (string, any) {
				token := int64(-1) // no step data at all
				if d != nil {
					token = d.token
				}
				p.rec.mu.Lock()
				p.rec.stepCalls = append(p.rec.stepCalls, c11Call{stepID, in, token, c11Run(hctx)})
				p.rec.mu.Unlock()
				b.mu.Lock()
				defer b.mu.Unlock()
				return b.outputID, b.data
			}))
	}
	// a step whose signal handler hands a value to the running step handler over an unbuffered channel in the
	// per-run step data (the usual way a signal reaches its step): neither can finish without the other
	empty := func() *schema.ScopeSchema {
		return gen.Build(&gen.Shape{Kind: gen.KScope, Root: "E", Objects: []*gen.Shape{{Kind: gen.KObject, ID: "E"}}}).(*schema.ScopeSchema)
	}
	steps = append(steps, schema.NewCallableStepWithSignals[*c11StepData, any]("rdv", empty(),
		map[string]*schema.StepOutputSchema{"done": schema.NewStepOutputSchema(empty(), nil, false)},
		map[string]schema.CallableSignal{"poke": schema.NewCallableSignal[*c11StepData, any]("poke", empty(), nil, func(hctx context.Context, d *c11StepData, _ any) {
			if entered, ok := hctx.Value(c11EnteredKey{}).(chan struct{}); ok {
				close(entered)
			}
			d.ch <- d.token
		})}, nil, nil,
		func() *c11StepData { return &c11StepData{token: p.rec.inits.Add(1), ch: make(chan int64)} },
		func(_ context.Context, d *c11StepData, _ any) (string, any) {
			if v := <-d.ch; v != d.token {
				return "wrong-step-data", nil
			}
			return "done", map[string]any{}
		}))
	// a step whose step data is of an interface type and that has no initialiser (the step data is nil): its signal
	// handler is still a declared handler of a valid signal
	steps = append(steps, schema.NewCallableStepWithSignals[any, any]("anydata", empty(),
		map[string]*schema.StepOutputSchema{"done": schema.NewStepOutputSchema(empty(), nil, false)},
		map[string]schema.CallableSignal{"ping": schema.NewCallableSignal[any, any]("ping", empty(), nil, func(hctx context.Context, d any, _ any) {
			p.rec.mu.Lock()
			p.rec.sigCalls = append(p.rec.sigCalls, c11Call{"anydata/ping", d, 0, c11Run(hctx)})
			p.rec.mu.Unlock()
		})}, nil, nil, nil,
		func(_ context.Context, d any, _ any) (string, any) { return "done", map[string]any{} }))
	p.schema = schema.NewCallableSchema(steps...)
	return p
}

type c11EnteredKey struct{}

// c11Rendezvous: for one run ID the step call and its signal arrive in the given order (the later one only once
// the earlier one is inside its handler, when that is observable) and must both return: the signal handler
// blocks until the step handler takes its value. Decided by the quiescence monitor, not by a timeout.
func c11Rendezvous(c *wk.Ctx, prop string, pl *c11Plugin, ctx context.Context, run string, signalFirst bool, sched []rig.PauseAt) bool {
	var done atomic.Int32
	var outID atomic.Value
	var sigErr, stepErr atomic.Value
	entered := make(chan struct{})
	callSignal := func() {
		defer done.Add(1)
		if err := pl.schema.CallSignal(context.WithValue(ctx, c11EnteredKey{}, entered), run, "rdv", "poke", map[string]any{}); err != nil {
			sigErr.Store(err.Error())
		}
	}
	callStep := func() {
		defer done.Add(1)
		id, _, err := pl.schema.CallStep(ctx, run, "rdv", map[string]any{})
		outID.Store(id)
		if err != nil {
			stepErr.Store(err.Error())
		}
	}
	rig.Y.Arm(sched, false)
	if signalFirst {
		go callSignal()
		go func() { <-entered; callStep() }() // the step arrives while the signal handler is waiting for it
	} else {
		go callStep()
		go callSignal()
	}
	res := rig.Monitor(func() bool { return done.Load() == 2 }, nil, 20*time.Second)
	rig.Y.Disarm()
	c.Count("rendezvous_rounds")
	wit := map[string]any{"run": run, "signal_arrives_first": signalFirst, "schedule": fmt.Sprint(sched)}
	switch res.Outcome {
	case "done":
	case "deadlock":
		wit["blocked"] = res.Snap.Summary()
		c.Violation(prop+":step-and-signal-deadlock", "a signal handler that hands a value to its running step and that step's call never return: every goroutine is blocked", wit)
		rig.Settle(200 * time.Millisecond)
		return false
	default:
		c.Inconclusive("rendezvous round: " + res.Outcome)
		return false
	}
	if e, _ := sigErr.Load().(string); e != "" {
		c.Violation(prop+":rendezvous:signal-error", "CallSignal with valid data failed: "+e, wit)
		return false
	}
	if id, _ := outID.Load().(string); id != "done" {
		e, _ := stepErr.Load().(string)
		c.Violation(prop+":rendezvous:wrong-step-data", fmt.Sprintf("the step handler did not get its own run's value from the signal handler (output %q, %s)", id, e), wit)
		return false
	}
	return true
}

func (p *c11Plugin) stepIDs() []string {
	var ids []string
	for id := range p.inShape {
		ids = append(ids, id)
	}
	sort.Strings(ids)
	return ids
}

func sortedKeys[V any](m map[string]V) []string {
	var ks []string
	for k := range m {
		ks = append(ks, k)
	}
	sort.Strings(ks)
	return ks
}

func runC11(c *wk.Ctx) {
	c.Meta("rule", "generated plugins (1..3 steps with generated input scopes, 1..4 outputs with generated scopes, 1..3 signal handlers with generated data scopes, a per-run initialiser that hands out a unique token) with recording handlers. SEQUENTIAL: CallStep with valid / perturbed / property-dropped / hostile raw inputs, for existing and unknown step IDs, with the handler returning a declared ID with conforming data, a declared ID with non-conforming data, or an undeclared ID; CallSignal with known / unknown step and signal IDs and valid / invalid data. Oracle: the handler ran exactly once iff the step exists and the reference interpreter accepts the input, and then with exactly the denoted value; errors.As class (BadArgumentError for unknown step, InvalidInputError for rejected input, InvalidOutputError for an undeclared output ID, an error for non-conforming output data); no panic. CONCURRENT: 2..16 goroutines released together issue the step call and the signal calls of the same and of different run IDs in random order - in the plain build, with every reached yield point of schema/step.go + schema/schema.go paused singly (overlay build, quiescence-driven release), and under the race detector. Oracle: exactly one initialiser call per run ID, and every signal handler saw the token the step handler of its run saw. distinct = hash(plugin, input / arrival order); non-trivial = all")
	c.Meta("assumptions", []string{"handlers receive `any`, so argument identity is judged on the unserialized value"})
	c.Floor("callstep", 1000)
	c.Floor("callsignal", 300)
	c.Floor("concurrent_rounds", 50)
	ctx := context.Background()
	n := c.N(400, 36000)
	if c.Variant != "plain" {
		n = c.N(120, 9000)
	}
	if c.Variant == "plain" {
		for k, others := range []int{1, 100, 1030, 2100, 5000} {
			if c.Mine(int64(k)) {
				c.Begin(int64(k), "step data across many other runs")
				c11ManyRuns(c, others)
			}
		}
	}
	if c.Variant == "plain" && c.Mine(6) {
		c.Begin(6, "refused calls between a run's signals and its step")
		c11RefusedBetween(c)
	}
	if c.Mine(5) {
		c.Begin(5, "the step-data initialiser panics for one run")
		c11InitializerPanics(c)
	}
	c.Cases(n, func(idx int64, r *wk.Rand) {
		r0 := *r
		p := c11BuildPlugin(r)
		// an identical plugin nothing has been called on yet (same PRNG state, so the same shapes)
		fresh := func() *c11Plugin { rc := r0; return c11BuildPlugin(&rc) }
		env := &gen.Env{}
		if c.Variant == "plain" {
			c11Sequential(c, ctx, r, p, env, idx)
		}
		c11Concurrent(c, ctx, r, p, fresh, env, idx)
		if idx < 4 {
			step := p.stepIDs()[0]
			c.Sample("plugin", map[string]any{"steps": p.stepIDs(), "first_step_input": clipStr(p.inShape[step].Describe(), 500),
				"outputs": sortedKeys(p.outShape[step]), "signal_handlers": sortedKeys(p.sigShape[step]), "variant": c.Variant})
		}
	})
}

func c11Sequential(c *wk.Ctx, ctx context.Context, r *wk.Rand, p *c11Plugin, env *gen.Env, idx int64) {
	runN := 0
	// nil step data of an interface type: signal first, then the step, then the signal again
	for k, call := range []string{"signal", "step", "signal"} {
		p.rec.mu.Lock()
		before := len(p.rec.sigCalls)
		p.rec.mu.Unlock()
		var err error
		var outID string
		wit := map[string]any{"step": "anydata (StepData=any, no initialiser)", "call": call, "order": k}
		c.Note("anydata " + call)
		if pn, site, msg, _ := wk.Guard(func() {
			if call == "signal" {
				err = p.schema.CallSignal(ctx, fmt.Sprintf("any-%d", idx), "anydata", "ping", map[string]any{})
			} else {
				outID, _, err = p.schema.CallStep(ctx, fmt.Sprintf("any-%d", idx), "anydata", map[string]any{})
			}
		}); pn {
			c.Violation("C11:panic:nil-step-data:"+site, fmt.Sprintf("a valid %s call on a step whose step data is a nil interface value panicked: %s", call, msg), wit)
			break
		}
		c.Count("nil_step_data_calls")
		if err != nil {
			c.Violation("C11:nil-step-data:error", fmt.Sprintf("a valid %s call on a step without initialiser failed: %v", call, err), wit)
			break
		}
		p.rec.mu.Lock()
		ran := len(p.rec.sigCalls) - before
		p.rec.mu.Unlock()
		if call == "signal" && ran != 1 {
			c.Violation("C11:nil-step-data:signal-handler-invocations", fmt.Sprintf("the signal handler ran %d times for one valid signal", ran), wit)
		}
		if call == "step" && outID != "done" {
			c.Violation("C11:wrong-output-id", fmt.Sprintf("CallStep returned output ID %q, the handler returned \"done\"", outID), wit)
		}
	}
	// unknown step IDs on schemas with exactly one step and with none (where a "the only step" fallback would hide)
	for _, stepID := range p.stepIDs() {
		single := schema.NewCallableSchema(p.schema.StepsValue[stepID])
		none := schema.NewCallableSchema()
		raw, _ := gen.ValidRaw(r, p.inShape[stepID], env, 0)
		for _, cs := range []struct {
			name string
			s    *schema.CallableSchema
		}{{"one-step schema", single}, {"schema without steps", none}} {
			for _, sid := range []string{"", " ", "no-such-step", strings.ToUpper(stepID), stepID + "x"} {
				p.rec.mu.Lock()
				before := len(p.rec.stepCalls)
				p.rec.mu.Unlock()
				var err error
				wit := map[string]any{"schema": cs.name, "declared_step": stepID, "called_step": sid}
				c.Note("CallStep unknown ID on " + cs.name)
				if pn, site, msg, _ := wk.Guard(func() { _, _, err = cs.s.CallStep(ctx, fmt.Sprintf("u-%d-%s", idx, sid), sid, cmpx.DeepCopy(raw)) }); pn {
					c.Violation("C11:panic:CallStep:"+site, "CallStep with an unknown step ID panicked: "+msg, wit)
					continue
				}
				c.Count("callstep")
				c.Count("unknown_step_id_probes")
				var bae schema.BadArgumentError
				if err == nil || !errors.As(err, &bae) {
					c.Violation("C11:unknown-step:wrong-error", fmt.Sprintf("CallStep(%q) on a %s whose only step is %q returned %T %v, expected a BadArgumentError", sid, cs.name, stepID, err, err), wit)
				}
				p.rec.mu.Lock()
				ran := len(p.rec.stepCalls) - before
				p.rec.mu.Unlock()
				if ran != 0 {
					c.Violation("C11:unknown-step:handler-ran", fmt.Sprintf("a handler ran for the unknown step ID %q (%s)", sid, cs.name), wit)
				}
			}
		}
	}
	for _, stepID := range p.stepIDs() {
		shape := p.inShape[stepID]
		descr := stepID + " input " + shape.Describe()
		var inputs []any
		for i := 0; i < 4; i++ {
			if raw, ok := gen.ValidRaw(r, shape, env, 0); ok {
				inputs = append(inputs, gen.Represent(r, gen.CopyRaw(raw), shape, env, 0))
				pv, _ := gen.Perturb(r, gen.CopyRaw(raw))
				inputs = append(inputs, pv)
				if dv, ok := gen.DropKey(r, gen.CopyRaw(raw)); ok {
					inputs = append(inputs, dv)
				}
			}
		}
		_, h := gen.HostileValue(r)
		inputs = append(inputs, h, nil, map[string]any{})
		outIDs := sortedKeys(p.outShape[stepID])
		for _, in := range inputs {
			for _, sid := range []string{stepID, stepID, wk.Pick(r, []string{"no-such-step", "", " ", stepID + " ", strings.ToUpper(stepID), stepID[:len(stepID)-1]})} {
				// choose the handler's behaviour
				mode := wk.Pick(r, []string{"declared-ok", "declared-ok", "undeclared", "nonconforming"})
				oid := wk.Pick(r, outIDs)
				var outData any
				switch mode {
				case "declared-ok":
					raw, ok := gen.ValidRaw(r, p.outShape[stepID][oid], env, 0)
					if !ok || ref.Denote(p.outShape[stepID][oid], raw, env).V != ref.Accept {
						mode = "undeclared"
						break
					}
					// what a handler legitimately returns: the in-memory form of a valid value
					v, uerr := p.schema.StepsValue[stepID].Outputs()[oid].Schema().Unserialize(gen.CopyRaw(raw))
					if uerr != nil {
						mode = "undeclared"
						break
					}
					outData = v
				case "nonconforming":
					outData = wk.Pick(r, []any{"scalar where an object is expected", int64(5), []any{}, map[string]any{"zz_undeclared": int64(1)}})
				}
				if mode == "undeclared" {
					oid, outData = "no-such-output", map[string]any{}
				}
				p.behaviour[stepID].set(oid, outData)
				p.rec.mu.Lock()
				before := len(p.rec.stepCalls)
				p.rec.mu.Unlock()
				runN++
				runID := fmt.Sprintf("run-%d-%d", idx, runN)
				var gotID string
				var gotData any
				var err error
				c.Note("CallStep " + sid + " mode=" + mode)
				wit := map[string]any{"step": sid, "schema": clipStr(descr, 1200), "input": clipStr(cmpx.Canon(in), 600), "handler_behaviour": mode}
				if pn, site, msg, _ := wk.Guard(func() { gotID, gotData, err = p.schema.CallStep(ctx, runID, sid, cmpx.DeepCopy(in)) }); pn {
					c.Violation("C11:panic:CallStep:"+site, "CallStep panicked: "+msg, wit)
					continue
				}
				c.Count("callstep")
				c.Count("handler-behaviour:" + mode)
				c.Eval(wk.Hash64(descr, sid, mode, cmpx.Canon(in)), true)
				p.rec.mu.Lock()
				calls := append([]c11Call{}, p.rec.stepCalls[before:]...)
				p.rec.mu.Unlock()
				if sid != stepID {
					var bae schema.BadArgumentError
					if err == nil || !errors.As(err, &bae) {
						c.Violation("C11:unknown-step:wrong-error", fmt.Sprintf("CallStep for an unknown step ID returned %T %v, expected a BadArgumentError", err, err), wit)
					}
					if len(calls) != 0 {
						c.Violation("C11:unknown-step:handler-ran", "a handler ran for an unknown step ID", wit)
					}
					continue
				}
				res := ref.Denote(shape, in, env)
				c.Count("input-verdict:" + res.V.String())
				switch res.V {
				case ref.Reject:
					if len(calls) != 0 {
						c.Violation("C11:handler-ran-on-rejected-input", fmt.Sprintf("the step handler ran although the input must be rejected (%s)", res.Why), wit)
					}
					var iie schema.InvalidInputError
					if err == nil || !errors.As(err, &iie) {
						c.Violation("C11:rejected-input:wrong-error", fmt.Sprintf("CallStep with an input the step schema rejects returned %T %v, expected an InvalidInputError", err, err), wit)
					}
					continue
				case ref.Unspec:
					if len(calls) > 1 {
						c.Violation("C11:handler-ran-twice", "the step handler ran more than once for one CallStep", wit)
					}
					continue
				}
				if len(calls) != 1 {
					wit["error"] = fmt.Sprint(err)
					c.Violation(fmt.Sprintf("C11:handler-invocations-%d", len(calls)), fmt.Sprintf("the input is valid but the step handler ran %d times: %v", len(calls), err), wit)
					continue
				}
				if calls[0].token <= 0 {
					c.Violation("C11:step-data-missing", "the step handler ran without the per-run step data that the step's initialiser creates", wit)
				}
				if d := ref.Compare(shape, res.Val, ref.Normalize(shape, calls[0].arg, env), env); d != "" {
					wit["difference"] = d
					c.Violation("C11:handler-argument-differs", "the handler did not receive the unserialized value of the input: "+d, wit)
				}
				switch mode {
				case "declared-ok":
					if err != nil {
						wit["error"] = err.Error()
						c.Violation("C11:valid-output-rejected:"+normMsg(err), fmt.Sprintf("the handler returned a declared output ID with conforming data, but CallStep fails: %v", err), wit)
					} else if gotID != oid {
						c.Violation("C11:wrong-output-id", fmt.Sprintf("CallStep returned output ID %q, the handler returned %q", gotID, oid), wit)
					} else if gotData == nil {
						c.Violation("C11:output-data-missing", "CallStep returned no data for a valid output", wit)
					} else {
						// "the serialized output": what the output schema's own Serialize makes of the handler's value
						var want any
						var serr error
						if pn, _, _, _ := wk.Guard(func() {
							want, serr = p.schema.StepsValue[stepID].Outputs()[oid].Schema().Serialize(cmpx.DeepCopy(outData))
						}); !pn && serr == nil {
							c.Count("outputs_compared_with_serialized_form")
							if cmpx.Canon(want) != cmpx.Canon(gotData) {
								wit["expected"] = clipStr(cmpx.Canon(want), 600)
								wit["returned"] = clipStr(cmpx.Canon(gotData), 600)
								c.Violation("C11:output-not-serialized:"+diffOf(want, gotData), "CallStep did not return the serialized form of the handler's output: "+diffOf(want, gotData), wit)
							}
						}
					}
				case "undeclared":
					var ioe schema.InvalidOutputError
					if err == nil || !errors.As(err, &ioe) {
						c.Violation("C11:undeclared-output:wrong-error", fmt.Sprintf("the handler returned an undeclared output ID, CallStep returned (%q, %T %v), expected an InvalidOutputError", gotID, err, err), wit)
					}
					if gotData != nil {
						c.Violation("C11:undeclared-output:data-returned", "CallStep returned data for an undeclared output ID", wit)
					}
				case "nonconforming":
					if err == nil {
						c.Violation("C11:nonconforming-output-accepted", fmt.Sprintf("the handler returned data that does not satisfy the declared output schema, but CallStep returned (%q, data) without error", gotID), wit)
					} else if gotData != nil {
						c.Violation("C11:nonconforming-output:data-returned", "CallStep returned the non-conforming data together with the error", wit)
					}
				}
			}
		}
		// signals
		for _, sigID := range append(sortedKeys(p.sigShape[stepID]), "no-such-signal", "") {
			sshape := p.sigShape[stepID][sigID]
			var sins []any
			if sshape != nil {
				for i := 0; i < 3; i++ {
					if raw, ok := gen.ValidRaw(r, sshape, env, 0); ok {
						sins = append(sins, raw)
						pv, _ := gen.Perturb(r, gen.CopyRaw(raw))
						sins = append(sins, pv)
					}
				}
			}
			sins = append(sins, nil, "scalar")
			for _, in := range sins {
				for _, sid := range []string{stepID, wk.Pick(r, []string{"no-such-step", "", strings.ToUpper(stepID)})} {
					p.rec.mu.Lock()
					before := len(p.rec.sigCalls)
					p.rec.mu.Unlock()
					runN++
					var err error
					c.Note("CallSignal " + sid + "/" + sigID)
					wit := map[string]any{"step": sid, "signal": sigID, "input": clipStr(cmpx.Canon(in), 400)}
					if pn, site, msg, _ := wk.Guard(func() {
						err = p.schema.CallSignal(ctx, fmt.Sprintf("run-%d-%d", idx, runN), sid, sigID, cmpx.DeepCopy(in))
					}); pn {
						c.Violation("C11:panic:CallSignal:"+site, fmt.Sprintf("CallSignal(step %q, signal %q) panicked: %s", sid, sigID, msg), wit)
						continue
					}
					c.Count("callsignal")
					p.rec.mu.Lock()
					calls := append([]c11Call{}, p.rec.sigCalls[before:]...)
					p.rec.mu.Unlock()
					if sid != stepID || sshape == nil {
						if err == nil {
							c.Violation("C11:unknown-signal-or-step:no-error", "CallSignal for an unknown step or signal ID returned no error", wit)
						}
						if stepObj, isStep := p.schema.StepsValue[sid]; isStep && sshape == nil {
							// the step object is public API as well: the same unknown signal ID handed to it directly
							var derr error
							runN++
							if pn, site, msg, _ := wk.Guard(func() {
								derr = stepObj.CallSignal(ctx, fmt.Sprintf("run-%d-%d", idx, runN), sigID, cmpx.DeepCopy(in))
							}); pn {
								c.Violation("C11:panic:step.CallSignal:"+site, fmt.Sprintf("CallSignal(signal %q) on the step object %q panicked: %s", sigID, sid, msg), wit)
							} else if derr == nil {
								c.Violation("C11:unknown-signal-or-step:no-error:step-object", "CallSignal on the step object for an unknown signal ID returned no error", wit)
							}
							c.Count("callsignal_on_step_object_unknown_id")
							p.rec.mu.Lock()
							calls = append([]c11Call{}, p.rec.sigCalls[before:]...)
							p.rec.mu.Unlock()
						}
						if len(calls) != 0 {
							c.Violation("C11:unknown-signal-or-step:handler-ran", "a signal handler ran for an unknown step or signal ID", wit)
						}
						continue
					}
					res := ref.Denote(sshape, in, env)
					switch res.V {
					case ref.Reject:
						var iie schema.InvalidInputError
						if len(calls) != 0 {
							c.Violation("C11:signal-handler-ran-on-rejected-data", "the signal handler ran although its data must be rejected: "+res.Why, wit)
						}
						if err == nil || !errors.As(err, &iie) {
							c.Violation("C11:rejected-signal-data:wrong-error", fmt.Sprintf("CallSignal with rejected data returned %T %v, expected an InvalidInputError", err, err), wit)
						}
					case ref.Accept:
						if len(calls) != 1 || err != nil {
							c.Violation(fmt.Sprintf("C11:signal-handler-invocations-%d", len(calls)), fmt.Sprintf("valid signal data, but the handler ran %d times (err=%v)", len(calls), err), wit)
						} else if d := ref.Compare(sshape, res.Val, ref.Normalize(sshape, calls[0].arg, env), env); d != "" {
							c.Violation("C11:signal-argument-differs", "the signal handler did not receive the unserialized data: "+d, wit)
						}
					}
				}
			}
		}
	}
}

// c11Concurrent: the step call and signal calls of several run IDs arrive from many goroutines at once.
func c11Concurrent(c *wk.Ctx, ctx context.Context, r *wk.Rand, p *c11Plugin, fresh func() *c11Plugin, env *gen.Env, idx int64) {
	stepID := p.stepIDs()[0]
	sigIDs := sortedKeys(p.sigShape[stepID])
	// only inputs that are accepted in isolation are raced (the sequential part judges acceptance)
	acceptable := func(sh *gen.Shape, sc schema.Scope, raw any) bool {
		if ref.Denote(sh, raw, env).V != ref.Accept {
			return false
		}
		_, err := sc.Unserialize(cmpx.DeepCopy(raw))
		return err == nil
	}
	inRaw, ok := gen.ValidRaw(r, p.inShape[stepID], env, 0)
	if !ok || !acceptable(p.inShape[stepID], p.schema.StepsValue[stepID].Input(), inRaw) {
		return
	}
	p.behaviour[stepID].set("no-such-output", nil) // the output does not matter here
	sigRaw := map[string]any{}
	for _, s := range sigIDs {
		if raw, ok := gen.ValidRaw(r, p.sigShape[stepID][s], env, 0); ok && acceptable(p.sigShape[stepID][s], p.schema.StepsValue[stepID].SignalHandlers()[s].DataSchema(), raw) {
			sigRaw[s] = raw
		}
	}
	if len(sigRaw) == 0 {
		return
	}
	type op struct {
		run    string
		signal string // "" = the step call
	}
	round := func(pl *c11Plugin, nruns int, sched []rig.PauseAt, serial bool) (hits map[int]int, ok bool) {
		var ops []op
		for k := 0; k < nruns; k++ {
			run := fmt.Sprintf("c-%d-%d-%d", idx, r.Intn(1<<30), k)
			ops = append(ops, op{run, ""})
			for s := range sigRaw {
				for j := 0; j <= r.Intn(2); j++ {
					ops = append(ops, op{run, s})
				}
			}
		}
		for i := len(ops) - 1; i > 0; i-- { // arrival order
			j := r.Intn(i + 1)
			ops[i], ops[j] = ops[j], ops[i]
		}
		if len(ops) > 16 {
			ops = ops[:16]
		}
		pl.rec.mu.Lock()
		b1, b2 := len(pl.rec.stepCalls), len(pl.rec.sigCalls)
		pl.rec.mu.Unlock()
		initsBefore := pl.rec.inits.Load()
		var wg sync.WaitGroup
		var done atomic.Int32
		start := make(chan struct{})
		var panicMsg atomic.Value
		rig.Y.Arm(sched, r.Bool())
		var turn atomic.Int32
		for i, o := range ops {
			i, o := i, o
			wg.Add(1)
			go func() {
				defer wg.Done()
				defer func() {
					if pn := recover(); pn != nil {
						panicMsg.Store(fmt.Sprint(pn))
					}
				}()
				if serial {
					for int(turn.Load()) != i {
						runtime.Gosched()
					}
					defer turn.Add(1)
				} else {
					<-start
				}
				if o.signal == "" {
					// the step's input carries the run ID, so the recorder can attribute the token
					_, _, _ = pl.schema.CallStep(context.WithValue(ctx, c11RunKey{}, o.run), o.run, stepID, cmpx.DeepCopy(inRaw))
				} else {
					_ = pl.schema.CallSignal(context.WithValue(ctx, c11RunKey{}, o.run), o.run, stepID, o.signal, cmpx.DeepCopy(sigRaw[o.signal]))
				}
			}()
		}
		go func() { wg.Wait(); done.Store(1) }()
		close(start)
		res := rig.Monitor(func() bool { return done.Load() == 1 }, nil, 20*time.Second)
		hits, _, _, _ = rig.Y.Stats()
		rig.Y.Disarm()
		c.Count("concurrent_rounds")
		wit := map[string]any{"operations": fmt.Sprint(ops), "schedule": fmt.Sprint(sched), "variant": c.Variant, "one_after_the_other": serial}
		if serial {
			c.Count("serial_order_rounds")
		}
		if res.Outcome != "done" {
			if res.Outcome == "deadlock" {
				wit["blocked"] = res.Snap.Summary()
				c.Violation("C11:concurrent-calls-deadlock", "concurrent CallStep/CallSignal calls never return: every goroutine is blocked", wit)
			} else {
				c.Inconclusive("concurrent round: " + res.Outcome)
			}
			rig.Settle(300 * time.Millisecond)
			return hits, false
		}
		if m := panicMsg.Load(); m != nil {
			c.Violation("C11:panic:concurrent", "a concurrent CallStep/CallSignal panicked: "+m.(string), wit)
			return hits, false
		}
		runs := map[string]bool{}
		for _, o := range ops {
			runs[o.run] = true
		}
		if got := pl.rec.inits.Load() - initsBefore; got != int64(len(runs)) {
			c.Violation("C11:initializer-count", fmt.Sprintf("%d run IDs were used but the per-run initialiser ran %d times", len(runs), got), wit)
			return hits, false
		}
		// every handler invocation of one run saw one and the same step data, no two runs share one
		pl.rec.mu.Lock()
		calls := append(append([]c11Call{}, pl.rec.stepCalls[b1:]...), pl.rec.sigCalls[b2:]...)
		pl.rec.mu.Unlock()
		if len(calls) != len(ops) {
			c.Violation("C11:concurrent-handler-invocations", fmt.Sprintf("%d valid calls were issued, %d handler invocations were recorded", len(ops), len(calls)), wit)
			return hits, false
		}
		tokenOf, runOf := map[string]int64{}, map[int64]string{}
		for _, cl := range calls {
			if cl.run == "" {
				c.Count("unattributed_handler_calls")
				continue
			}
			if t, seen := tokenOf[cl.run]; seen && t != cl.token {
				c.Violation("C11:step-data-not-shared", fmt.Sprintf("two handlers of run %s saw different step data objects (%d and %d)", cl.run, t, cl.token), wit)
				return hits, false
			}
			tokenOf[cl.run] = cl.token
			if ru, seen := runOf[cl.token]; seen && ru != cl.run {
				c.Violation("C11:step-data-crosses-runs", fmt.Sprintf("runs %s and %s saw the same step data object", ru, cl.run), wit)
				return hits, false
			}
			runOf[cl.token] = cl.run
			if cl.token <= initsBefore {
				c.Violation("C11:stale-step-data", "a handler saw step data that was created before its run ID existed", wit)
				return hits, false
			}
		}
		c.Eval(wk.Hash64(fmt.Sprint(ops), fmt.Sprint(sched), fmt.Sprint(serial)), true)
		return hits, true
	}
	newPlugin := func() *c11Plugin {
		q := fresh()
		q.behaviour[stepID].set("no-such-output", nil)
		return q
	}
	// first use: the very first calls a plugin schema ever sees arrive together (3 fresh plugins)
	for k := 0; k < 3; k++ {
		c.Count("first_use_rounds")
		if _, ok := round(newPlugin(), 1+r.Intn(3), nil, false); !ok {
			return
		}
	}
	// a signal handler that hands a value to its running step: both arrival orders
	for k := 0; k < 4; k++ {
		pl := p
		if k >= 2 {
			pl = newPlugin()
		}
		if !c11Rendezvous(c, "C11", pl, ctx, fmt.Sprintf("rdv-%d-%d", idx, k), k%2 == 0, nil) {
			return
		}
	}
	// every call completes before the next arrives, in shuffled arrival orders
	for k := 0; k < 3; k++ {
		if _, ok := round(p, 1+r.Intn(2), nil, true); !ok {
			return
		}
	}
	// baseline round(s), then every reached yield point of the schema package paused singly
	hits, okBase := round(p, 1+r.Intn(3), nil, false)
	if !okBase {
		return
	}
	if rig.OverlayBuild {
		var sites []rig.PauseAt
		for pnt, n := range hits {
			for k := 1; k <= n && k <= 2; k++ {
				sites = append(sites, rig.PauseAt{Point: pnt, Hit: k})
			}
		}
		sort.Slice(sites, func(i, j int) bool {
			if sites[i].Point != sites[j].Point {
				return sites[i].Point < sites[j].Point
			}
			return sites[i].Hit < sites[j].Hit
		})
		for si, s := range sites {
			pl := p
			if si%3 == 0 {
				pl = newPlugin() // the paused statement may belong to a first-use path
				c.Count("paused_rounds_on_a_fresh_plugin")
			}
			if _, ok := round(pl, 1+r.Intn(2), []rig.PauseAt{s}, false); !ok {
				return
			}
			c.Count("paused_rounds")
		}
	} else {
		for k := 0; k < 6; k++ {
			if _, ok := round(p, 1+r.Intn(4), nil, false); !ok {
				return
			}
		}
	}
}

func init() { register("C11", runC11) }

// c11ManyRuns: the step data of a run is kept however many other runs of the same step come in between its creation
// and its next use (a signal long before the step, a step long before a late signal).
func c11ManyRuns(c *wk.Ctx, others int) {
	var inits atomic.Int64
	var mu sync.Mutex
	stepSaw, sigSaw := map[string][]int64{}, map[string][]int64{}
	empty := func() *schema.ScopeSchema {
		return gen.Build(&gen.Shape{Kind: gen.KScope, Root: "E", Objects: []*gen.Shape{{Kind: gen.KObject, ID: "E"}}}).(*schema.ScopeSchema)
	}
	step := schema.NewCallableStepWithSignals[*c11StepData, any]("many", empty(),
		map[string]*schema.StepOutputSchema{"done": schema.NewStepOutputSchema(empty(), nil, false)},
		map[string]schema.CallableSignal{"note": schema.NewCallableSignal[*c11StepData, any]("note", empty(), nil, func(hctx context.Context, d *c11StepData, _ any) {
			mu.Lock()
			sigSaw[c11Run(hctx)] = append(sigSaw[c11Run(hctx)], d.token)
			mu.Unlock()
		})}, nil, nil,
		func() *c11StepData { return &c11StepData{token: inits.Add(1)} },
		func(hctx context.Context, d *c11StepData, _ any) (string, any) {
			mu.Lock()
			stepSaw[c11Run(hctx)] = append(stepSaw[c11Run(hctx)], d.token)
			mu.Unlock()
			return "done", map[string]any{}
		})
	pl := schema.NewCallableSchema(step)
	ctxOf := func(run string) context.Context { return context.WithValue(context.Background(), c11RunKey{}, run) }
	sig := func(run string) error { return pl.CallSignal(ctxOf(run), run, "many", "note", map[string]any{}) }
	call := func(run string) error {
		_, _, err := pl.CallStep(ctxOf(run), run, "many", map[string]any{})
		return err
	}
	c.Note(fmt.Sprintf("step data across %d other runs", others))
	var firstErr error
	note := func(err error) {
		if err != nil && firstErr == nil {
			firstErr = err
		}
	}
	if p, site, msg, _ := wk.Guard(func() {
		note(sig("signal-long-before-step"))
		note(call("step-long-before-signal"))
		for i := 0; i < others; i++ {
			run := fmt.Sprintf("other-%d", i)
			if i%2 == 0 {
				note(sig(run))
			}
			note(call(run))
		}
		note(call("signal-long-before-step"))
		note(sig("signal-long-before-step"))
		note(sig("step-long-before-signal"))
	}); p {
		c.Violation("C11:panic:many-runs:"+site, "a call panicked in the many-runs round: "+msg, nil)
		return
	}
	c.Count("many_runs_rounds")
	c.CountN("calls", int64(2*others+5))
	c.Eval(wk.Hash64("many-runs", fmt.Sprint(others)), true)
	wit := map[string]any{"other_runs_in_between": others}
	if firstErr != nil {
		c.Violation("C11:many-runs:call-failed", fmt.Sprintf("a valid call failed in the many-runs round: %v", firstErr), wit)
		return
	}
	mu.Lock()
	defer mu.Unlock()
	for _, run := range []string{"signal-long-before-step", "step-long-before-signal"} {
		tokens := map[int64]bool{}
		for _, t := range append(append([]int64{}, stepSaw[run]...), sigSaw[run]...) {
			tokens[t] = true
		}
		wit[run] = map[string]any{"step_saw": stepSaw[run], "signals_saw": sigSaw[run]}
		if len(tokens) != 1 {
			c.Violation("C11:step-data-created-more-than-once-per-run:many-runs", fmt.Sprintf("run %q: the step handler saw step data %v, its signal handlers %v - after %d other runs of the step in between they are no longer the same", run, stepSaw[run], sigSaw[run], others), wit)
		}
	}
	if want := int64(others + 2); inits.Load() != want {
		c.Violation("C11:initializer-count:many-runs", fmt.Sprintf("%d run IDs were used, the initialiser ran %d times", want, inits.Load()), wit)
	}
}

// c11RefusedBetween: a run whose first signal has created its step data is then addressed by calls that are REFUSED -
// a step call whose input the schema rejects (through the plugin schema with wire input, and on the step itself with a
// native value), a signal with invalid data, an unknown signal, an unknown step under the same run ID - in every
// order of 1..3 of them, before more signals and the valid step call. A refused call is an error for its caller and
// nothing else: the run keeps the step data it has, the initialiser runs once per run ID.
func c11RefusedBetween(c *wk.Ctx) {
	in := func() *schema.ScopeSchema {
		return gen.Build(&gen.Shape{Kind: gen.KScope, Root: "In", Objects: []*gen.Shape{{Kind: gen.KObject, ID: "In", Props: []*gen.Prop{{Name: "n", T: &gen.Shape{Kind: gen.KInt}, Required: true}}}}}).(*schema.ScopeSchema)
	}
	refusals := []string{"step: wire input rejected", "step.Call: native input rejected", "step.Call: nil input", "signal: data rejected", "signal: unknown id", "step: unknown id", "step: valid input, undeclared output"}
	var seqs [][]int
	for a := range refusals {
		seqs = append(seqs, []int{a})
		for b := range refusals {
			if b != a {
				seqs = append(seqs, []int{a, b})
			}
		}
	}
	seqs = append(seqs, []int{0, 1, 3}, []int{3, 1, 0}, []int{1, 1, 1}, []int{6, 1, 3})
	for si, seq := range seqs {
		var inits atomic.Int64
		var mu sync.Mutex
		saw := map[string][]int64{}
		badOutput := false
		step := schema.NewCallableStepWithSignals[*c11StepData, any]("work", in(),
			map[string]*schema.StepOutputSchema{"done": schema.NewStepOutputSchema(in(), nil, false)},
			map[string]schema.CallableSignal{"note": schema.NewCallableSignal[*c11StepData, any]("note", in(), nil, func(hctx context.Context, d *c11StepData, _ any) {
				mu.Lock()
				saw[c11Run(hctx)] = append(saw[c11Run(hctx)], d.token)
				mu.Unlock()
			})}, nil, nil,
			func() *c11StepData { return &c11StepData{token: inits.Add(1)} },
			func(hctx context.Context, d *c11StepData, _ any) (string, any) {
				mu.Lock()
				saw[c11Run(hctx)] = append(saw[c11Run(hctx)], d.token)
				bad := badOutput
				mu.Unlock()
				if bad {
					return "undeclared", map[string]any{"n": int64(1)}
				}
				return "done", map[string]any{"n": int64(1)}
			})
		pl := schema.NewCallableSchema(step)
		ctxOf := func(run string) context.Context { return context.WithValue(context.Background(), c11RunKey{}, run) }
		good := map[string]any{"n": int64(1)}
		run := "r"
		var unexpected []string
		must := func(what string, err error, wantErr bool) {
			if (err != nil) != wantErr {
				unexpected = append(unexpected, fmt.Sprintf("%s: error=%v", what, err))
			}
		}
		c.Note(fmt.Sprintf("refused calls between signals and step: sequence %d %v", si, seq))
		if p, site, msg, _ := wk.Guard(func() {
			must("first signal", pl.CallSignal(ctxOf(run), run, "work", "note", cmpx.DeepCopy(good)), false)
			for _, k := range seq {
				switch refusals[k] {
				case "step: wire input rejected":
					_, _, err := pl.CallStep(ctxOf(run), run, "work", map[string]any{"n": "not a number"})
					must(refusals[k], err, true)
				case "step.Call: native input rejected":
					_, _, err := step.Call(ctxOf(run), run, map[string]any{"n": "not a number"})
					must(refusals[k], err, true)
				case "step.Call: nil input":
					_, _, err := step.Call(ctxOf(run), run, nil)
					must(refusals[k], err, true)
				case "signal: data rejected":
					must(refusals[k], pl.CallSignal(ctxOf(run), run, "work", "note", map[string]any{}), true)
				case "signal: unknown id":
					must(refusals[k], pl.CallSignal(ctxOf(run), run, "work", "nope", cmpx.DeepCopy(good)), true)
				case "step: unknown id":
					_, _, err := pl.CallStep(ctxOf(run), run, "nope", cmpx.DeepCopy(good))
					must(refusals[k], err, true)
				default:
					mu.Lock()
					badOutput = true
					mu.Unlock()
					_, _, err := pl.CallStep(ctxOf(run), run, "work", cmpx.DeepCopy(good))
					mu.Lock()
					badOutput = false
					mu.Unlock()
					must(refusals[k], err, true)
				}
				must("signal after "+refusals[k], pl.CallSignal(ctxOf(run), run, "work", "note", cmpx.DeepCopy(good)), false)
			}
			_, _, err := pl.CallStep(ctxOf(run), run, "work", cmpx.DeepCopy(good))
			must("the valid step call", err, false)
			must("last signal", pl.CallSignal(ctxOf(run), run, "work", "note", cmpx.DeepCopy(good)), false)
		}); p {
			c.Violation("C11:panic:refused-between:"+site, "a call panicked in a sequence of refused calls: "+msg, map[string]any{"sequence": seq})
			continue
		}
		c.Count("refused_between_sequences")
		c.CountN("calls", int64(3+2*len(seq)))
		c.Eval(wk.Hash64("refused-between", fmt.Sprint(seq)), true)
		names := []string{}
		for _, k := range seq {
			names = append(names, refusals[k])
		}
		mu.Lock()
		wit := map[string]any{"refused_calls": names, "step_data_seen_by_the_run": saw[run], "initialiser_ran": inits.Load()}
		tokens := map[int64]bool{}
		for _, t := range saw[run] {
			tokens[t] = true
		}
		mu.Unlock()
		if len(unexpected) > 0 {
			wit["unexpected"] = unexpected
			c.Violation("C11:refused-between:wrong-verdict", fmt.Sprintf("in a sequence of refused calls a call that must fail succeeded or one that must succeed failed: %v", unexpected), wit)
			continue
		}
		if len(tokens) != 1 || inits.Load() != 1 {
			c.Violation("C11:step-data-created-more-than-once-per-run:after-refused-calls", fmt.Sprintf("one run ID, refused calls %v between its signals and its step: the handlers saw step data %v, the initialiser ran %d times", names, saw[run], inits.Load()), wit)
		}
	}
}

// c11InitializerPanics: the plugin's step-data initialiser panics for one run (its caller recovers, as the ATP server
// does). Every later call - another run, the same run again, a signal - must still return: decided by the quiescence
// monitor, not by a timeout.
func c11InitializerPanics(c *wk.Ctx) {
	var fail atomic.Bool
	var inits atomic.Int64
	empty := func() *schema.ScopeSchema {
		return gen.Build(&gen.Shape{Kind: gen.KScope, Root: "E", Objects: []*gen.Shape{{Kind: gen.KObject, ID: "E"}}}).(*schema.ScopeSchema)
	}
	step := schema.NewCallableStepWithSignals[*c11StepData, any]("ip", empty(),
		map[string]*schema.StepOutputSchema{"done": schema.NewStepOutputSchema(empty(), nil, false)},
		map[string]schema.CallableSignal{"note": schema.NewCallableSignal[*c11StepData, any]("note", empty(), nil, func(context.Context, *c11StepData, any) {})}, nil, nil,
		func() *c11StepData {
			if fail.Load() {
				panic("the plugin's initialiser panics for this run")
			}
			return &c11StepData{token: inits.Add(1)}
		},
		func(context.Context, *c11StepData, any) (string, any) { return "done", map[string]any{} })
	pl := schema.NewCallableSchema(step)
	ctx := context.Background()
	c.Note("step-data initialiser panics for one run, later calls")
	for _, viaSignal := range []bool{false, true} {
		fail.Store(true)
		run := fmt.Sprintf("run-with-failing-initialiser-%v", viaSignal)
		_, _, _, _ = wk.Guard(func() {
			if viaSignal {
				_ = pl.CallSignal(ctx, run, "ip", "note", map[string]any{})
			} else {
				_, _, _ = pl.CallStep(ctx, run, "ip", map[string]any{})
			}
		})
		fail.Store(false)
		var done atomic.Int32
		var errs atomic.Value
		go func() {
			defer done.Add(1)
			defer func() {
				if p := recover(); p != nil {
					errs.Store(fmt.Sprintf("panic: %v", p))
				}
			}()
			if _, _, err := pl.CallStep(ctx, "another-run-"+run, "ip", map[string]any{}); err != nil {
				errs.Store(err.Error())
			}
			if err := pl.CallSignal(ctx, run, "ip", "note", map[string]any{}); err != nil {
				errs.Store(err.Error())
			}
			if _, _, err := pl.CallStep(ctx, run, "ip", map[string]any{}); err != nil {
				errs.Store(err.Error())
			}
		}()
		mon := rig.Monitor(func() bool { return done.Load() == 1 }, nil, 20*time.Second)
		c.Count("initializer_panic_rounds")
		c.CountN("calls", 4)
		c.Eval(wk.Hash64("initializer-panics", fmt.Sprint(viaSignal)), true)
		wit := map[string]any{"first_failing_call_was_a_signal": viaSignal}
		switch mon.Outcome {
		case "deadlock":
			wit["goroutines"] = mon.Snap.Detail()
			c.Violation("C11:calls-block-after-a-panicking-initializer", "after the step-data initialiser panicked for one run (and the caller recovered), later calls on the step never return: every goroutine is blocked", wit)
			return
		case "inconclusive":
			c.Inconclusive("initialiser-panic round: watchdog fired")
			return
		}
		if e := errs.Load(); e != nil {
			c.Violation("C11:calls-fail-after-a-panicking-initializer", fmt.Sprintf("valid calls after a recovered initialiser panic failed: %v", e), wit)
		}
	}
}
