package props

import (
	"fmt"
	"math"
	"math/big"
	"strings"
	"sync"
	"sync/atomic"
	"unicode"
	"unicode/utf8"

	"go.flow.arcalot.io/pluginsdk/schema"

	"verif/internal/wk"
)

// ---- reference statement of the unit grammar (independent of the SDK) ----

type refUnit struct {
	mult  int64
	names [4]string // short sing, short plural, long sing, long plural
}

type refUnits struct {
	label string
	base  refUnit
	mults []refUnit // descending by multiplier
}

type parseClass int

const (
	pcIll parseClass = iota
	pcWell
	pcUnspec
)

// refParse classifies data and, when well-formed, returns the exact value
// (rational: integer part of every component times multiplier, plus an optional
// decimal fraction on the base component, as num/den with den a power of 10).
//
// well-formed: optional spaces; one or more components "<digits> <name>" in
// strictly descending multiplier order; only the base component may carry a
// fraction. unspecified (the statement does not say): base name omitted, a unit
// repeated, fraction on a non-base component, counts with a sign.
func (u *refUnits) refParse(data string) (parseClass, *big.Rat) {
	s := strings.TrimSpace(data)
	if s == "" {
		return pcIll, nil
	}
	total := new(big.Rat)
	lastMult := int64(math.MaxInt64)
	unspec := false
	i := 0
	n := len(s)
	comps := 0
	for i < n {
		// digits
		j := i
		for j < n && s[j] >= '0' && s[j] <= '9' {
			j++
		}
		if j == i {
			return pcIll, nil
		}
		intPart := s[i:j]
		frac := ""
		if j+1 < n && s[j] == '.' && s[j+1] >= '0' && s[j+1] <= '9' {
			k := j + 1
			for k < n && s[k] >= '0' && s[k] <= '9' {
				k++
			}
			frac = s[j+1 : k]
			j = k
		}
		// (leading zeros: a count is a decimal numeral, "007" is seven)
		// name: up to next digit
		k := j
		for k < n && !(s[k] >= '0' && s[k] <= '9') {
			k++
		}
		name := strings.TrimSpace(s[j:k])
		i = k
		var unit *refUnit
		isBase := false
		if name == "" {
			unit, isBase = &u.base, true
			unspec = true // base name omitted: the statement speaks of counts followed by names
		} else {
			cands := 0
			all := append([]refUnit{u.base}, u.mults...)
			for idx := range all {
				for _, nm := range all[idx].names {
					if nm == name {
						unit, isBase = &all[idx], idx == 0
						cands++
						break
					}
				}
			}
			if cands == 0 {
				return pcIll, nil
			}
			if cands > 1 {
				unspec = true
			}
		}
		if unit.mult > lastMult {
			return pcIll, nil // not largest unit first
		}
		if unit.mult == lastMult {
			unspec = true // repeated unit
		}
		lastMult = unit.mult
		if frac != "" && !isBase {
			unspec = true // only the base unit is said to take a fractional count
		}
		cnt, _ := new(big.Int).SetString(intPart, 10)
		v := new(big.Rat).SetInt(new(big.Int).Mul(cnt, big.NewInt(unit.mult)))
		if frac != "" {
			fn, _ := new(big.Int).SetString(frac, 10)
			den := new(big.Int).Exp(big.NewInt(10), big.NewInt(int64(len(frac))), nil)
			fr := new(big.Rat).SetFrac(fn, den)
			fr.Mul(fr, new(big.Rat).SetInt64(unit.mult))
			v.Add(v, fr)
		}
		total.Add(total, v)
		comps++
	}
	if comps == 0 {
		return pcIll, nil
	}
	if unspec {
		return pcUnspec, total
	}
	return pcWell, total
}

func builtinUnits() []struct {
	ref *refUnits
	sdk *schema.UnitsDefinition
} {
	mk := func(label string, sdk *schema.UnitsDefinition, base [4]string, m ...refUnit) struct {
		ref *refUnits
		sdk *schema.UnitsDefinition
	} {
		return struct {
			ref *refUnits
			sdk *schema.UnitsDefinition
		}{&refUnits{label: label, base: refUnit{1, base}, mults: m}, sdk}
	}
	// Transcribed from the documented unit tables, not read from the SDK values.
	return []struct {
		ref *refUnits
		sdk *schema.UnitsDefinition
	}{
		mk("bytes", schema.UnitBytes, [4]string{"B", "B", "byte", "bytes"},
			refUnit{1125899906842624, [4]string{"PB", "PB", "petabyte", "petabytes"}},
			refUnit{1099511627776, [4]string{"TB", "TB", "terabyte", "terabytes"}},
			refUnit{1073741824, [4]string{"GB", "GB", "gigabyte", "gigabytes"}},
			refUnit{1048576, [4]string{"MB", "MB", "megabyte", "megabytes"}},
			refUnit{1024, [4]string{"kB", "kB", "kilobyte", "kilobytes"}}),
		mk("ns", schema.UnitDurationNanoseconds, [4]string{"ns", "ns", "nanosecond", "nanoseconds"},
			refUnit{86400000000000, [4]string{"d", "d", "day", "days"}},
			refUnit{3600000000000, [4]string{"H", "H", "hour", "hours"}},
			refUnit{60000000000, [4]string{"m", "m", "minute", "minutes"}},
			refUnit{1000000000, [4]string{"s", "s", "second", "seconds"}},
			refUnit{1000000, [4]string{"ms", "ms", "milliseconds", "milliseconds"}},
			refUnit{1000, [4]string{"μs", "μs", "microsecond", "microseconds"}}),
		mk("s", schema.UnitDurationSeconds, [4]string{"s", "s", "second", "seconds"},
			refUnit{86400, [4]string{"d", "d", "day", "days"}},
			refUnit{3600, [4]string{"H", "H", "hour", "hours"}},
			refUnit{60, [4]string{"m", "m", "minute", "minutes"}}),
		mk("chars", schema.UnitCharacters, [4]string{"char", "chars", "character", "characters"}),
		mk("pct", schema.UnitPercentage, [4]string{"%", "%", "percent", "percent"}),
	}
}

var nameAlphabet = []rune("abcdefgHKMxyzQ%$^*+()[]{}|\\?#@_μé-")

// swapCase changes the case of the k-th letter of s that has another case (of every such letter for k >= 4).
func swapCase(s string, k int) string {
	rs := []rune(s)
	n := 0
	for i, c := range rs {
		o := c
		if unicode.IsUpper(c) {
			o = unicode.ToLower(c)
		} else if unicode.IsLower(c) {
			o = unicode.ToUpper(c)
		}
		if o == c || utf8.RuneLen(o) < 0 {
			continue
		}
		if k >= 4 || n == k {
			rs[i] = o
		}
		n++
	}
	return string(rs)
}

func genUnitName(r *wk.Rand, used map[string]bool, prefixOf []string) string {
	for {
		var sb strings.Builder
		if len(prefixOf) > 0 && r.Chance(35) {
			// a name that is a prefix or an extension of an existing one
			p := wk.Pick(r, prefixOf)
			if flipped := swapCase(p, r.Intn(8)); r.Chance(30) && flipped != p {
				// the same name in another case is a different name ("b" and "B", "m" and "M")
				sb.WriteString(flipped)
			} else if r.Bool() && len([]rune(p)) > 1 {
				rs := []rune(p)
				sb.WriteString(string(rs[:1+r.Intn(len(rs)-1)]))
			} else {
				sb.WriteString(p)
				sb.WriteRune(wk.Pick(r, nameAlphabet))
			}
		} else {
			n := 1 + r.Intn(4)
			for i := 0; i < n; i++ {
				sb.WriteRune(wk.Pick(r, nameAlphabet))
			}
		}
		s := sb.String()
		if s == "" || used[s] || strings.HasPrefix(s, ".") {
			continue
		}
		bad := false
		for _, c := range s {
			if unicode.IsDigit(c) || unicode.IsSpace(c) {
				bad = true
			}
		}
		if bad {
			continue
		}
		used[s] = true
		return s
	}
}

// genUnits builds a generated definition: distinct multipliers >= 2 (and now and then a multiplier of 1), all names
// distinct across units (so the grammar is unambiguous), names may contain
// regexp metacharacters and be prefixes of each other.
func genUnits(r *wk.Rand, label string) (*refUnits, *schema.UnitsDefinition) {
	used := map[string]bool{}
	var all []string
	mkUnit := func(mult int64) refUnit {
		var nm [4]string
		nm[0] = genUnitName(r, used, all)
		if r.Chance(50) {
			nm[1] = nm[0]
		} else {
			nm[1] = genUnitName(r, used, all)
		}
		nm[2] = genUnitName(r, used, all)
		if r.Chance(30) {
			nm[3] = nm[2]
		} else {
			nm[3] = genUnitName(r, used, all)
		}
		all = append(all, nm[:]...)
		return refUnit{mult, nm}
	}
	ref := &refUnits{label: label, base: mkUnit(1)}
	nm := r.Intn(6)
	seen := map[int64]bool{1: true}
	for i := 0; i < nm; i++ {
		var m int64
		switch r.Intn(4) {
		case 0:
			m = 2 + r.I64n(20)
		case 1:
			m = int64(math.Pow(10, float64(1+r.Intn(15))))
		case 2:
			m = int64(1) << uint(1+r.Intn(50))
		default:
			m = 2 + r.I64n(1<<40)
		}
		if i == 0 && r.Chance(12) {
			m = 1 // a second name for the base quantity (the description format allows a multiplier of 1)
			seen[1] = false
		}
		if seen[m] {
			continue
		}
		seen[m] = true
		ref.mults = append(ref.mults, mkUnit(m))
	}
	// sort descending
	for i := 0; i < len(ref.mults); i++ {
		for j := i + 1; j < len(ref.mults); j++ {
			if ref.mults[j].mult > ref.mults[i].mult {
				ref.mults[i], ref.mults[j] = ref.mults[j], ref.mults[i]
			}
		}
	}
	var mm map[int64]*schema.UnitDefinition
	if len(ref.mults) > 0 || r.Bool() {
		mm = map[int64]*schema.UnitDefinition{}
		for _, m := range ref.mults {
			mm[m.mult] = schema.NewUnit(m.names[0], m.names[1], m.names[2], m.names[3])
		}
	}
	b := ref.base.names
	return ref, schema.NewUnits(schema.NewUnit(b[0], b[1], b[2], b[3]), mm)
}

// siblingUnits: a second definition with exactly the names of u and different multipliers (m -> 2m+1, which keeps
// them distinct and in the same order). Two definitions that differ in nothing but their numbers live side by side in
// one process whenever a plugin and the engine disagree on decimal vs binary prefixes; what one of them has been asked
// must not change what the other answers.
func siblingUnits(u *refUnits) (*refUnits, *schema.UnitsDefinition) {
	sib := &refUnits{label: u.label + "-sibling", base: u.base}
	mm := map[int64]*schema.UnitDefinition{}
	for _, m := range u.mults {
		if m.mult > (1 << 61) {
			return nil, nil
		}
		m2 := refUnit{2*m.mult + 1, m.names}
		sib.mults = append(sib.mults, m2)
		mm[m2.mult] = schema.NewUnit(m2.names[0], m2.names[1], m2.names[2], m2.names[3])
	}
	b := sib.base.names
	return sib, schema.NewUnits(schema.NewUnit(b[0], b[1], b[2], b[3]), mm)
}

func (u *refUnits) describe() map[string]any {
	ms := []any{}
	for _, m := range u.mults {
		ms = append(ms, map[string]any{"mult": m.mult, "names": m.names})
	}
	return map[string]any{"label": u.label, "base": u.base.names, "multipliers": ms}
}

func ratIsInt64(v *big.Rat) (int64, bool) {
	if !v.IsInt() {
		return 0, false
	}
	if !v.Num().IsInt64() {
		return 0, false
	}
	return v.Num().Int64(), true
}

func floatClose(a, b float64) bool {
	if a == b {
		return true
	}
	d := math.Abs(a - b)
	return d <= 1e-9*math.Max(math.Abs(a), math.Abs(b))+1e-12
}

type c16 struct{ c *wk.Ctx }

func (t *c16) viol(kind string, u *refUnits, what string, w map[string]any) {
	class := "builtin"
	if strings.HasPrefix(u.label, "gen") {
		class = "generated"
	}
	w["units"] = u.describe()
	t.c.Violation("C16:"+kind+":"+class, what, w)
}

// checkInt: Parse(FormatShortInt(x)) == x and Parse(FormatLongInt(x)) == x.
func (t *c16) checkInt(u *refUnits, sdk *schema.UnitsDefinition, x int64) {
	for _, form := range []string{"FormatShortInt", "FormatLongInt"} {
		var s string
		var got int64
		var err error
		p, site, msg, _ := wk.Guard(func() {
			if form == "FormatShortInt" {
				s = sdk.FormatShortInt(x)
			} else {
				s = sdk.FormatLongInt(x)
			}
			got, err = sdk.ParseInt(s)
		})
		t.c.Count("int_roundtrips")
		if p {
			t.viol("panic:"+form+":"+site, u, fmt.Sprintf("%s/ParseInt(%d) panicked: %s", form, x, msg), map[string]any{"x": x})
			continue
		}
		if err != nil {
			t.viol("roundtrip-rejected:"+form, u, fmt.Sprintf("%s(%d)=%q is rejected by ParseInt: %v", form, x, s, err), map[string]any{"x": x, "formatted": s})
		} else if got != x {
			t.viol("roundtrip-wrong:"+form, u, fmt.Sprintf("ParseInt(%s(%d)=%q)=%d", form, x, s, got), map[string]any{"x": x, "formatted": s, "parsed": got})
		}
	}
}

// checkFloatLoose: a float with more than six decimals cannot come back exactly (the formatter prints six);
// the round trip must still yield a number, and one that is off by no more than what six decimals lose.
func (t *c16) checkFloatLoose(u *refUnits, sdk *schema.UnitsDefinition, x float64) {
	for _, form := range []string{"FormatShortFloat", "FormatLongFloat"} {
		var s string
		var got float64
		var err error
		p, site, msg, _ := wk.Guard(func() {
			if form == "FormatShortFloat" {
				s = sdk.FormatShortFloat(x)
			} else {
				s = sdk.FormatLongFloat(x)
			}
			got, err = sdk.ParseFloat(s)
		})
		t.c.Count("float_roundtrips_beyond_six_decimals")
		if p {
			t.viol("panic:"+form+":"+site, u, fmt.Sprintf("%s/ParseFloat(%v) panicked: %s", form, x, msg), map[string]any{"x": x})
			continue
		}
		if err != nil {
			t.viol("roundtrip-rejected:"+form, u, fmt.Sprintf("%s(%v)=%q is rejected by ParseFloat: %v", form, x, s, err), map[string]any{"x": x, "formatted": s})
		} else if math.Abs(got-x) > 1e-6+1e-9*math.Abs(x) {
			t.viol("roundtrip-wrong:"+form, u, fmt.Sprintf("ParseFloat(%s(%v)=%q)=%v", form, x, s, got), map[string]any{"x": x, "formatted": s, "parsed": got})
		}
	}
}

// looseFloats: quantities with more decimals than the formatter prints, down to values that print as zero.
func looseFloats(r *wk.Rand, u *refUnits) []float64 {
	xs := []float64{1e-7, 3e-7, 5e-7, 6e-7, 1e-9, 4.9e-324, 0.9999996, 59.9999999, 300.0000001, 1.0000004, 0.1234567, 2.5e-7}
	for _, m := range u.mults {
		f := float64(m.mult)
		if f < 1e9 {
			xs = append(xs, f-1e-7, f+1e-7, f+3e-7)
		}
	}
	for i := 0; i < 20; i++ {
		xs = append(xs, r.F64()*math.Pow(10, float64(r.Intn(12)-8)))
	}
	return xs
}

func (t *c16) checkFloat(u *refUnits, sdk *schema.UnitsDefinition, x float64) {
	for _, form := range []string{"FormatShortFloat", "FormatLongFloat"} {
		var s string
		var got float64
		var err error
		p, site, msg, _ := wk.Guard(func() {
			if form == "FormatShortFloat" {
				s = sdk.FormatShortFloat(x)
			} else {
				s = sdk.FormatLongFloat(x)
			}
			got, err = sdk.ParseFloat(s)
		})
		t.c.Count("float_roundtrips")
		if p {
			t.viol("panic:"+form+":"+site, u, fmt.Sprintf("%s/ParseFloat(%v) panicked: %s", form, x, msg), map[string]any{"x": x})
			continue
		}
		if err != nil {
			t.viol("roundtrip-rejected:"+form, u, fmt.Sprintf("%s(%v)=%q is rejected by ParseFloat: %v", form, x, s, err), map[string]any{"x": x, "formatted": s})
		} else if !floatClose(got, x) {
			t.viol("roundtrip-wrong:"+form, u, fmt.Sprintf("ParseFloat(%s(%v)=%q)=%v", form, x, s, got), map[string]any{"x": x, "formatted": s, "parsed": got})
		}
	}
}

// checkString compares ParseInt/ParseFloat (and the schema entry points) with
// the reference classification of s.
func (t *c16) checkString(u *refUnits, sdk *schema.UnitsDefinition, s string, origin string) {
	cls, val := u.refParse(s)
	t.c.Count("strings_" + []string{"ill", "well", "unspec"}[cls])
	var gi int64
	var gf float64
	var ei, ef error
	p, site, msg, _ := wk.Guard(func() {
		gi, ei = sdk.ParseInt(s)
		gf, ef = sdk.ParseFloat(s)
	})
	w := map[string]any{"string": s, "origin": origin}
	if p {
		t.viol("panic:Parse:"+site, u, fmt.Sprintf("Parse(%q) panicked: %s", s, msg), w)
		return
	}
	switch cls {
	case pcIll:
		if ei == nil {
			t.viol("illformed-accepted:ParseInt", u, fmt.Sprintf("ParseInt(%q)=%d although the string is not counts followed by declared unit names, largest first (%s)", s, gi, origin), w)
		}
		if ef == nil {
			t.viol("illformed-accepted:ParseFloat", u, fmt.Sprintf("ParseFloat(%q)=%v although the string is not counts followed by declared unit names, largest first (%s)", s, gf, origin), w)
		}
	case pcWell, pcUnspec:
		// An accepted result must never be a wrong number, specified or not.
		w["expected"] = val.RatString()
		if iv, ok := ratIsInt64(val); ok {
			if ei != nil {
				// a count written with a decimal point is a float literal: whether ParseInt takes "2.00s" is unspecified
				if cls == pcWell && !strings.Contains(s, ".") {
					t.viol("wellformed-rejected:ParseInt", u, fmt.Sprintf("ParseInt(%q) fails (%v); expected %d", s, ei, iv), w)
				}
			} else if gi != iv {
				t.viol("wrong-number:ParseInt", u, fmt.Sprintf("ParseInt(%q)=%d; expected %d", s, gi, iv), w)
			}
		} else if ei == nil {
			// fractional or out of int64 range: must not yield an integer
			kind := "wrong-number:ParseInt"
			if val.IsInt() {
				kind = "overflow-accepted:ParseInt"
			}
			t.viol(kind, u, fmt.Sprintf("ParseInt(%q)=%d; exact value is %s", s, gi, val.RatString()), w)
		}
		fv, _ := val.Float64()
		within64 := val.Cmp(new(big.Rat).SetInt64(math.MaxInt64)) <= 0
		if ef != nil {
			if cls == pcWell && within64 {
				t.viol("wellformed-rejected:ParseFloat", u, fmt.Sprintf("ParseFloat(%q) fails (%v); expected %v", s, ef, fv), w)
			}
		} else if !floatClose(gf, fv) {
			kind := "wrong-number:ParseFloat"
			if val.IsInt() && !val.Num().IsInt64() {
				kind = "overflow-accepted:ParseFloat"
			}
			t.viol(kind, u, fmt.Sprintf("ParseFloat(%q)=%v; exact value is %s", s, gf, val.RatString()), w)
		}
		// The schema entry points must agree with the unit parser.
		if cls == pcWell {
			is := schema.NewIntSchema(nil, nil, sdk)
			fs := schema.NewFloatSchema(nil, nil, sdk)
			var ui, uf any
			var uie, ufe error
			p, site, msg, _ := wk.Guard(func() {
				ui, uie = is.Unserialize(s)
				uf, ufe = fs.Unserialize(s)
			})
			t.c.Count("schema_unit_strings")
			if p {
				t.viol("panic:Unserialize:"+site, u, fmt.Sprintf("Unserialize(%q) panicked: %s", s, msg), w)
			} else {
				if (uie == nil) != (ei == nil) || (uie == nil && ui != gi) {
					t.viol("schema-disagrees:IntSchema", u, fmt.Sprintf("IntSchema.Unserialize(%q)=(%v,%v) but ParseInt=(%v,%v)", s, ui, uie, gi, ei), w)
				}
				if (ufe == nil) != (ef == nil) || (ufe == nil && uf != gf) {
					t.viol("schema-disagrees:FloatSchema", u, fmt.Sprintf("FloatSchema.Unserialize(%q)=(%v,%v) but ParseFloat=(%v,%v)", s, uf, ufe, gf, ef), w)
				}
			}
		}
	}
}

func spaces(r *wk.Rand) string {
	switch r.Intn(5) {
	case 0:
		return " "
	case 1:
		return "  "
	case 2:
		return "\t"
	}
	return ""
}

// genWellFormed produces a well-formed unit string: a non-empty descending
// subset of units, decimal counts, optional spaces, any of the four names.
func genWellFormed(r *wk.Rand, u *refUnits, allowFrac, big bool) string {
	all := append(append([]refUnit{}, u.mults...), u.base)
	var sb strings.Builder
	sb.WriteString(spaces(r))
	n := 0
	for i, unit := range all {
		last := i == len(all)-1
		if !(r.Chance(45) || (last && n == 0)) {
			continue
		}
		n++
		var cnt string
		switch {
		case big && r.Chance(40):
			cnt = fmt.Sprintf("%d", 1+r.U64()%uint64(math.MaxInt64))
		case r.Chance(10):
			cnt = "0"
		default:
			cnt = fmt.Sprintf("%d", 1+r.I64n([]int64{9, 99, 9999, 1000000000}[r.Intn(4)]))
		}
		if r.Chance(6) {
			// leading zeros do not change a count, however many there are
			cnt = strings.Repeat("0", 1+r.Intn([]int{3, 20, 40, 70}[r.Intn(4)])) + cnt
		}
		sb.WriteString(cnt)
		if last && allowFrac && r.Chance(40) {
			sb.WriteString(fmt.Sprintf(".%d", 1+r.Intn(999999)))
		}
		sb.WriteString(spaces(r))
		sb.WriteString(unit.names[r.Intn(4)])
		sb.WriteString(spaces(r))
	}
	return sb.String()
}

// genNearMiss mutates a well-formed string into something that usually is not.
func genNearMiss(r *wk.Rand, u *refUnits) (string, string) {
	s := genWellFormed(r, u, r.Bool(), false)
	rs := []rune(s)
	switch r.Intn(10) {
	case 9: // unit names in another case: "5S", "3Kb", "2 MINUTES" - whatever the reference makes of the result
		if f := swapCase(s, r.Intn(8)); f != s {
			return f, "letter case changed"
		}
	case 8: // a bare count with a sign, which the grammar does not have
		n := 1 + r.Intn(100000)
		return fmt.Sprintf(wk.Pick(r, []string{"-%d", "+%d", " -%d ", "-%d ", "- %d", "+0%d", "-%d.5"}), n), "signed bare count"
	case 0: // garbage suffix
		return s + wk.Pick(r, []string{"x", "!", "q q", "-", "1..2", ".", "e5"}), "garbage suffix"
	case 1: // garbage prefix
		return wk.Pick(r, []string{"x", "-", "+", ".", "abc "}) + s, "garbage prefix"
	case 2: // reversed component order: two components ascending
		all := append(append([]refUnit{}, u.mults...), u.base)
		if len(all) >= 2 {
			i := r.Intn(len(all) - 1)
			j := i + 1 + r.Intn(len(all)-i-1)
			return fmt.Sprintf("%d%s%s%d%s", 1+r.Intn(50), all[j].names[r.Intn(4)], spaces(r), 1+r.Intn(50), all[i].names[r.Intn(4)]), "ascending unit order"
		}
		return "5 undeclaredunit", "undeclared unit"
	case 3: // undeclared name
		return fmt.Sprintf("%d%s", 1+r.Intn(1000), wk.Pick(r, []string{"zz9", "parsec", "Ω", "kBB", "sss", "min."})[:]), "undeclared unit"
	case 4: // delete one rune
		if len(rs) > 1 {
			i := r.Intn(len(rs))
			return string(append(append([]rune{}, rs[:i]...), rs[i+1:]...)), "one character deleted"
		}
	case 5: // replace one rune
		if len(rs) > 0 {
			i := r.Intn(len(rs))
			rs2 := append([]rune{}, rs...)
			rs2[i] = wk.Pick(r, []rune("x.-, 0e"))
			return string(rs2), "one character replaced"
		}
	case 6: // name only, or empty, or spaces
		return wk.Pick(r, []string{"", " ", u.base.names[0], ".", "..", "1.", ".5" + u.base.names[0]}), "degenerate"
	case 7: // overflow: huge count
		all := append(append([]refUnit{}, u.mults...), u.base)
		unit := all[r.Intn(len(all))]
		digits := 19 + r.Intn(6)
		var sb strings.Builder
		sb.WriteByte(byte('1' + r.Intn(9)))
		for i := 1; i < digits; i++ {
			sb.WriteByte(byte('0' + r.Intn(10)))
		}
		return sb.String() + unit.names[r.Intn(4)], "count beyond 64 bits"
	}
	return s + "~", "garbage suffix"
}

func specialInts(r *wk.Rand, u *refUnits) []int64 {
	xs := []int64{0, 1, 9, 10, 11, 99, 100, 101, 1000, 1001, 100000, 1000000, 10000000, math.MaxInt64, math.MaxInt64 - 1, 1 << 53, 1<<53 + 1, 1<<62 + 1}
	p := int64(1)
	for i := 0; i < 18; i++ {
		p *= 10
		xs = append(xs, p, p-1, p+1)
	}
	for _, m := range u.mults {
		for _, k := range []int64{1, 2, 10, 100, 1000} {
			if m.mult <= math.MaxInt64/k {
				v := m.mult * k
				xs = append(xs, v-1, v, v+1)
			}
		}
	}
	for i := 0; i < 40; i++ {
		xs = append(xs, int64(r.U64()>>1), int64(r.U64()>>uint(1+r.Intn(60))))
	}
	return xs
}

func specialFloats(r *wk.Rand, u *refUnits) []float64 {
	xs := []float64{0, 1, 0.5, 0.000001, 1.5, 10, 100, 10.5, 100.25, 1000, 59.999999, 60, 61.5, 3600, 3661.5, 86400, 1e6, 1e9, 123456.654321, 1e12}
	for _, m := range u.mults {
		f := float64(m.mult)
		if f < 1e14 {
			xs = append(xs, f, f+0.5, f*10, f*2+1.25)
		}
	}
	for i := 0; i < 40; i++ {
		// at most six decimals, so that the formatter's %f loses nothing by design
		whole := float64(r.I64n([]int64{10, 1000, 100000, 10000000, 1000000000}[r.Intn(5)]))
		dec := float64(r.Intn(1000000)) / 1e6
		if r.Chance(30) {
			dec = float64(r.Intn(100)) / 100
		}
		xs = append(xs, whole+dec)
	}
	return xs
}

// c16RebuildUnits passes a units definition through SelfSerialize / UnserializeScope of a scope that uses it.
func c16RebuildUnits(u *schema.UnitsDefinition) (out *schema.UnitsDefinition) {
	defer func() {
		if recover() != nil {
			out = nil
		}
	}()
	s := schema.NewScopeSchema(schema.NewObjectSchema("R", map[string]*schema.PropertySchema{
		"q": schema.NewPropertySchema(schema.NewIntSchema(nil, nil, u), nil, false, nil, nil, nil, nil, nil)}))
	d, err := s.SelfSerialize()
	if err != nil {
		return nil
	}
	r, err := schema.UnserializeScope(d)
	if err != nil {
		return nil
	}
	if i, ok := r.Objects()["R"].Properties()["q"].Type().(interface {
		Units() *schema.UnitsDefinition
	}); ok {
		return i.Units()
	}
	return nil
}

func runC16(c *wk.Ctx) {
	t := &c16{c}
	c.Meta("rule", "cases: (a) every integer in [0,200000] x 5 built-in + 3 generated unit sets x {short,long} format->ParseInt; (b) per generated definition (names with regexp metacharacters / prefixes of each other, arbitrary multipliers; every third one rebuilt from the description of a schema that uses it, as a client receives it) and per built-in set: powers of ten +-1, multiplier boundaries +-1, random 63-bit ints, floats with <=6 decimals, generated well-formed strings and near-miss mutants compared with a big-rational reference parser, also through IntSchema/FloatSchema.Unserialize. distinct = hash(units definition, operation, input); every case is non-trivial (a formatted/parsed quantity); evaluations counts individual format/parse checks Generated definitions contain names that differ in case only; a near-miss class changes the case of letters. Every built-in set and about a third of the generated definitions are followed, in the same process, by a sibling definition with the same names and other multipliers (m -> 2m+1), and then used again themselves.")
	c.Meta("assumptions", []string{"floats with at most six decimals must come back within 1e-9 relative (the formatter prints %f); floats with more decimals, down to values that print as zero, must come back as a number within 1e-6 absolute",
		"bare numbers without a unit name, repeated units, fractions on non-base units and leading zeros are unspecified: only 'never a wrong number' is checked for them"})
	c.Floor("int_roundtrips", 1000)
	c.Floor("float_roundtrips", 100)
	c.Floor("strings_well", 100)
	c.Floor("strings_ill", 100)
	c.Floor("sibling_definitions", 5)
	bi := builtinUnits()
	type pair struct {
		ref *refUnits
		sdk *schema.UnitsDefinition
	}
	fixed := []pair{}
	for _, b := range bi {
		fixed = append(fixed, pair{b.ref, b.sdk})
	}
	for g := 0; g < 3; g++ {
		ref, sdk := genUnits(wk.NewRand(c.Seed, "C16-fixed-gen", int64(g)), fmt.Sprintf("gen-fixed-%d", g))
		fixed = append(fixed, pair{ref, sdk})
	}
	const sweep = 200001
	nGen := c.N(2000, 320000)
	total := int64(sweep) + int64(len(fixed)) + nGen
	c.Meta("exhaustive", false)
	c.Meta("cov.int_sweep", "every integer in [0,200000] for each of 8 unit sets, both formats (enumerated completely in both tiers)")
	// first use of fresh definitions by several goroutines at once (each worker takes its share of the rounds)
	perShard := int(c.N(500, 20000))
	for k := int64(0); k < 16; k++ {
		if c.Mine(k) {
			c.Begin(k, "first use of fresh unit definitions by 8 goroutines")
			unitsFirstUse(c, "C16", int(k)*perShard, int(k+1)*perShard, false)
		}
	}
	c.Cases(total, func(idx int64, r *wk.Rand) {
		switch {
		case idx < sweep:
			for _, p := range fixed {
				t.checkInt(p.ref, p.sdk, idx)
				c.Eval(wk.Hash64(p.ref.label, "int", fmt.Sprint(idx)), true)
			}
		default:
			var ref *refUnits
			var sdk *schema.UnitsDefinition
			k := idx - sweep
			if k < int64(len(fixed)) {
				ref, sdk = fixed[k].ref, fixed[k].sdk
			} else {
				ref, sdk = genUnits(r, fmt.Sprintf("gen-%d", idx))
				// a fresh built-in-shaped definition is also parsed first, before any format call
			}
			if k%3 == 1 {
				// the same definition as a client receives it: rebuilt from the description of a schema that uses it
				if rb := c16RebuildUnits(sdk); rb != nil {
					sdk = rb
					c.Count("definitions_rebuilt_from_a_description")
				}
			}
			c.Count("definitions")
			if len(ref.mults) > 0 {
				c.Count("definitions_with_multipliers")
			}
			order := r.Intn(3)
			doStrings := func() {
				for i := 0; i < 60; i++ {
					s := genWellFormed(r, ref, r.Chance(40), r.Chance(15))
					t.checkString(ref, sdk, s, "generated well-formed")
					c.Eval(wk.Hash64(ref.label, "str", s), true)
					if i < 2 {
						c.Sample("well-formed-string", map[string]any{"units": ref.label, "string": s})
					}
				}
				for i := 0; i < 60; i++ {
					s, why := genNearMiss(r, ref)
					t.checkString(ref, sdk, s, "near-miss: "+why)
					c.Eval(wk.Hash64(ref.label, "str", s), true)
					if i < 2 {
						c.Sample("near-miss-string", map[string]any{"units": ref.label, "string": s, "mutation": why})
					}
				}
			}
			doInts := func() {
				for _, x := range specialInts(r, ref) {
					t.checkInt(ref, sdk, x)
					c.Eval(wk.Hash64(ref.label, "int", fmt.Sprint(x)), true)
				}
			}
			doFloats := func() {
				for _, x := range looseFloats(r, ref) {
					t.checkFloatLoose(ref, sdk, x)
					c.Eval(wk.Hash64(ref.label, "float-loose", fmt.Sprint(x)), true)
				}
				for _, x := range specialFloats(r, ref) {
					t.checkFloat(ref, sdk, x)
					c.Eval(wk.Hash64(ref.label, "float", fmt.Sprint(x)), true)
				}
			}
			// first use of a definition is sometimes a parse, sometimes a format
			switch order {
			case 0:
				doStrings()
				doInts()
				doFloats()
			case 1:
				doInts()
				doStrings()
				doFloats()
			default:
				doFloats()
				doInts()
				doStrings()
			}
			// a sibling definition (same names, other multipliers) used in the same process, then the first one again:
			// each must go on answering by its own numbers
			if len(ref.mults) > 0 && (k < int64(len(fixed)) || r.Chance(35)) {
				if sref, ssdk := siblingUnits(ref); sref != nil {
					ref0, sdk0 := ref, sdk
					ref, sdk = sref, ssdk
					c.Count("sibling_definitions")
					if r.Bool() {
						doStrings()
						doInts()
					} else {
						doInts()
						doStrings()
					}
					ref, sdk = ref0, sdk0
					doStrings()
					doInts()
				}
			}
			if k >= int64(len(fixed)) && k < int64(len(fixed))+3 {
				c.Sample("generated-definition", ref.describe())
			}
		}
	})
}

func init() { register("C16", runC16) }

// unitsFirstUse: a definition that nobody has used yet is used by 8 goroutines at once, parsers and formatters mixed
// (their lazily built tables are filled on first use); every result must be what a twin definition, used by one
// goroutine only, gives. With viaSchema the parsers go through IntSchema.Unserialize. A fatal runtime error (concurrent
// map access) ends the worker and is attributed to the journalled case by the driver.
func unitsFirstUse(c *wk.Ctx, prop string, from, to int, viaSchema bool) {
	type op struct {
		name string
		run  func(d *schema.UnitsDefinition, t schema.Type) string
	}
	for i := from; i < to; i++ {
		mk := func() (*refUnits, *schema.UnitsDefinition) {
			return genUnits(wk.NewRand(c.Seed, prop+"-first-use", int64(i)), "fu")
		}
		ref, twin := mk()
		if len(ref.mults) == 0 {
			continue
		}
		_, fresh := mk()
		vr := wk.NewRand(c.Seed, prop+"-first-use-values", int64(i))
		var ops []op
		for k := 0; k < 6; k++ {
			v := vr.I64n(1 << 40)
			if k == 0 {
				v = 59
			}
			s1, s2 := twin.FormatShortInt(v), twin.FormatLongInt(v)
			ops = append(ops,
				op{fmt.Sprintf("FormatShortInt(%d)", v), func(d *schema.UnitsDefinition, _ schema.Type) string { return d.FormatShortInt(v) }},
				op{fmt.Sprintf("FormatLongInt(%d)", v), func(d *schema.UnitsDefinition, _ schema.Type) string { return d.FormatLongInt(v) }})
			for _, str := range []string{s1, s2, fmt.Sprint(v)} {
				str := str
				if viaSchema {
					ops = append(ops, op{fmt.Sprintf("IntSchema.Unserialize(%q)", str), func(_ *schema.UnitsDefinition, t schema.Type) string {
						r, err := t.Unserialize(str)
						return fmt.Sprint(r, " ", err == nil)
					}})
				} else {
					ops = append(ops, op{fmt.Sprintf("ParseInt(%q)", str), func(d *schema.UnitsDefinition, _ schema.Type) string {
						r, err := d.ParseInt(str)
						return fmt.Sprint(r, " ", err == nil)
					}})
				}
			}
		}
		twinT := schema.NewIntSchema(nil, nil, twin)
		freshT := schema.NewIntSchema(nil, nil, fresh)
		want := make([]string, len(ops))
		for k, o := range ops {
			want[k] = o.run(twin, twinT)
		}
		c.Note(fmt.Sprintf("first use of a fresh units definition by 8 goroutines (round %d)", i))
		const G = 8
		var ready, wrong atomic.Int32
		var firstWrong atomic.Value
		var wg sync.WaitGroup
		for g := 0; g < G; g++ {
			wg.Add(1)
			go func(g int) {
				defer wg.Done()
				defer func() {
					if p := recover(); p != nil {
						wrong.Add(1)
						firstWrong.CompareAndSwap(nil, fmt.Sprintf("panic: %v", p))
					}
				}()
				ready.Add(1)
				for ready.Load() < G {
				}
				for k := range ops {
					kk := (k + g*3) % len(ops)
					if i%2 == 0 {
						kk = (k + 2 + g%3) % len(ops) // every goroutine's first operation is a parse
					}
					if got := ops[kk].run(fresh, freshT); got != want[kk] {
						wrong.Add(1)
						firstWrong.CompareAndSwap(nil, fmt.Sprintf("%s = %s, a definition used by one goroutine gives %s", ops[kk].name, got, want[kk]))
					}
				}
			}(g)
		}
		wg.Wait()
		c.Count("first_use_rounds")
		c.CountN("first_use_operations", int64(G*len(ops)))
		c.Eval(wk.Hash64(prop, "first-use", fmt.Sprint(i)), true)
		if wrong.Load() > 0 {
			c.Violation(prop+":first-use-by-several-goroutines", fmt.Sprintf("%d of %d operations on a fresh units definition used by 8 goroutines at once differ from the same definition used by one; first: %v", wrong.Load(), G*len(ops), firstWrong.Load()),
				map[string]any{"definition": ref.describe(), "round": i})
		}
	}
}
