package props

import (
	"fmt"
	"math"
	"reflect"
	"strings"

	"go.flow.arcalot.io/pluginsdk/schema"

	"verif/internal/cmpx"
	"verif/internal/gen"
	"verif/internal/ref"
	"verif/internal/wk"
)

func p64(v int64) *int64      { return &v }
func pf64(v float64) *float64 { return &v }

type namedI int64
type namedS string
type namedF float64
type namedB bool

var breakReasons = []string{"below min", "above max", "NaN with bounds", "too long", "too short", "pattern miss", "not an enum value", "too many items", "too few items", "too few entries"}

func breakClass(what string) string {
	for _, r := range breakReasons {
		if strings.HasSuffix(what, r) {
			if strings.HasPrefix(what, "key ") || strings.Contains(what, " key ") {
				return "key " + r
			}
			return r
		}
	}
	return what
}

func whyClass(w string) string {
	w = reQuoted.ReplaceAllString(w, "Q")
	w = reDigits.ReplaceAllString(w, "N")
	if i := strings.LastIndex(w, ": "); i >= 0 {
		w = w[i+2:] // the reason, without the path that leads to it
	}
	if len(w) > 60 {
		w = w[:60]
	}
	return w
}

// judgeUnserialize compares one Unserialize call with the reference verdict.
// Returns the native value when the SDK accepted.
func judgeUnserialize(c *wk.Ctx, prop string, t schema.Type, shape *gen.Shape, env *gen.Env, raw any, descr, origin string) (native any, accepted bool) {
	res := ref.Denote(shape, raw, env)
	c.Count("verdict:" + res.V.String())
	var v any
	var err error
	c.Note(fmt.Sprintf("Unserialize root=%s dyn=%s", shape.Kind, dynType(raw)))
	p, site, msg, _ := wk.Guard(func() { v, err = t.Unserialize(raw) })
	wit := map[string]any{"schema": clipStr(descr, 1200), "raw": clipStr(fmt.Sprintf("%#v", raw), 600), "raw_type": dynType(raw), "origin": origin,
		"reference": res.V.String(), "reference_reason": res.Why}
	root := shape.Kind.String()
	if p {
		c.Violation(prop+":panic:Unserialize:"+site, fmt.Sprintf("Unserialize panicked: %s [%s]", msg, root), wit)
		return nil, false
	}
	if err != nil {
		wit["sdk_error"] = err.Error()
	} else {
		wit["sdk_result"] = clipStr(cmpx.Canon(v), 600)
	}
	switch res.V {
	case ref.Reject:
		if err == nil {
			c.Violation(prop+":accepted-must-reject:"+root+":"+whyClass(res.Why), fmt.Sprintf("Unserialize accepted %s %s although it violates a declared constraint / is not a representation of the type: %s", dynType(raw), clipStr(fmt.Sprintf("%#v", raw), 120), res.Why), wit)
		}
	case ref.Accept:
		if err != nil {
			c.Violation(prop+":rejected-must-accept:"+root+":"+dynType(raw), fmt.Sprintf("Unserialize rejected %s %s, which denotes a value meeting every constraint: %v", dynType(raw), clipStr(fmt.Sprintf("%#v", raw), 120), err), wit)
			return nil, false
		}
		if d := ref.Compare(shape, res.Val, ref.Normalize(shape, v, env), env); d != "" {
			wit["difference"] = d
			c.Violation(prop+":wrong-value:"+root+":"+whyClass(d), "Unserialize accepted the input but the result is not the denoted value: "+d, wit)
		}
	case ref.Unspec:
		if err == nil {
			if w := ref.Check(shape, ref.Normalize(shape, v, env), env); w != "" {
				wit["violated"] = w
				c.Violation(prop+":accepted-result-violates-constraint:"+root+":"+whyClass(w), "the conversion is unspecified, but the accepted result violates a declared constraint: "+w, wit)
			}
		}
	}
	return v, err == nil
}

// breakNative returns a copy of a native value with exactly one declared constraint violated, or ok=false.
func breakNative(r *wk.Rand, s *gen.Shape, v reflect.Value, env *gen.Env, depth int) (out reflect.Value, what string, ok bool) {
	for v.Kind() == reflect.Interface && !v.IsNil() {
		v = v.Elem()
	}
	set := func(x any) reflect.Value { return reflect.ValueOf(x).Convert(v.Type()) }
	switch s.Kind {
	case gen.KInt:
		if s.Min != nil && *s.Min > math.MinInt64 && (s.Max == nil || r.Bool()) {
			return set(*s.Min - 1), "below min", true
		}
		if s.Max != nil && *s.Max < math.MaxInt64 {
			return set(*s.Max + 1), "above max", true
		}
	case gen.KFloat:
		if s.FMin != nil && !math.IsInf(*s.FMin, -1) && (s.FMax == nil || r.Chance(40)) {
			return set(math.Nextafter(*s.FMin, math.Inf(-1))), "below min", true
		}
		if s.FMax != nil && !math.IsInf(*s.FMax, 1) && r.Chance(70) {
			return set(math.Nextafter(*s.FMax, math.Inf(1))), "above max", true
		}
		if s.FMin != nil || s.FMax != nil {
			return set(math.NaN()), "NaN with bounds", true
		}
	case gen.KString:
		if s.Max != nil && *s.Max < 64 && *s.Max >= 0 {
			return set(strings.Repeat("a", int(*s.Max)+1)), "too long", true
		}
		if s.Min != nil && *s.Min >= 1 && *s.Min < 64 {
			return set(strings.Repeat("a", int(*s.Min)-1)), "too short", true
		}
		if s.Pattern != "" {
			for _, cand := range []string{"", "A", "zz9zz", "\n"} {
				if ref.Check(s, cand, env) != "" {
					return set(cand), "pattern miss", true
				}
			}
		}
	case gen.KIntEnum:
		return set(int64(987654)), "not an enum value", true
	case gen.KStrEnum, gen.KTypedStrEnum:
		return set("not-a-member"), "not an enum value", true
	case gen.KList:
		if v.Kind() != reflect.Slice {
			return v, "", false
		}
		n := v.Len()
		choice := r.Intn(3)
		if choice == 0 && s.Max != nil && *s.Max < 40 && n > 0 {
			nv := reflect.MakeSlice(v.Type(), 0, int(*s.Max)+1)
			for nv.Len() <= int(*s.Max) {
				nv = reflect.Append(nv, v.Index(nv.Len()%n))
			}
			return nv, "too many items", true
		}
		if choice == 1 && s.Min != nil && *s.Min >= 1 && int64(n) >= *s.Min {
			return v.Slice(0, int(*s.Min)-1), "too few items", true
		}
		if n > 0 {
			i := r.Intn(n)
			if be, what, ok := breakNative(r, s.Items, v.Index(i), env, depth+1); ok {
				nv := reflect.MakeSlice(v.Type(), n, n)
				reflect.Copy(nv, v)
				if be.Type().AssignableTo(nv.Type().Elem()) {
					nv.Index(i).Set(be)
					return nv, fmt.Sprintf("[%d] %s", i, what), true
				}
			}
		}
	case gen.KMap:
		if v.Kind() != reflect.Map {
			return v, "", false
		}
		keys := v.MapKeys()
		if s.Min != nil && *s.Min >= 1 && int64(len(keys)) >= *s.Min && r.Bool() {
			nv := reflect.MakeMap(v.Type())
			for i := 0; i < int(*s.Min)-1; i++ {
				nv.SetMapIndex(keys[i], v.MapIndex(keys[i]))
			}
			return nv, "too few entries", true
		}
		if len(keys) > 0 {
			k := keys[r.Intn(len(keys))]
			if bv, what, ok := breakNative(r, s.Vals, v.MapIndex(k), env, depth+1); ok && bv.Type().AssignableTo(v.Type().Elem()) {
				nv := reflect.MakeMap(v.Type())
				for _, kk := range keys {
					nv.SetMapIndex(kk, v.MapIndex(kk))
				}
				nv.SetMapIndex(k, bv)
				return nv, fmt.Sprintf("value at %v %s", k.Interface(), what), true
			}
			if bk, what, ok := breakNative(r, s.Keys, k, env, depth+1); ok && bk.Type().AssignableTo(v.Type().Key()) {
				nv := reflect.MakeMap(v.Type())
				for _, kk := range keys {
					if kk.Interface() != k.Interface() {
						nv.SetMapIndex(kk, v.MapIndex(kk))
					}
				}
				nv.SetMapIndex(bk, v.MapIndex(k))
				return nv, "key " + what, true
			}
		}
	}
	return v, "", false
}

// judgeNatives: Validate and Serialize must enforce the same constraints on native values.
func judgeNatives(c *wk.Ctx, prop string, r *wk.Rand, t schema.Type, shape *gen.Shape, env *gen.Env, native any, descr string) {
	for try := 0; try < 3; try++ {
		bv, what, ok := breakNative(r, shape, reflect.ValueOf(native), env, 0)
		if !ok {
			return
		}
		broken := bv.Interface()
		if ref.Check(shape, ref.Normalize(shape, broken, env), env) == "" {
			continue // the mutation did not actually violate anything (e.g. min > max shapes)
		}
		c.Count("broken_natives")
		wit := map[string]any{"schema": clipStr(descr, 1200), "native": clipStr(cmpx.Canon(broken), 600), "violation": what}
		var verr, serr error
		c.Note("Validate/Serialize broken native root=" + shape.Kind.String())
		if p, site, msg, _ := wk.Guard(func() { verr = t.Validate(broken) }); p {
			c.Violation(prop+":panic:Validate:"+site, "Validate panicked: "+msg, wit)
			continue
		}
		if p, site, msg, _ := wk.Guard(func() { _, serr = t.Serialize(broken) }); p {
			c.Violation(prop+":panic:Serialize:"+site, "Serialize panicked: "+msg, wit)
			continue
		}
		if verr == nil {
			c.Violation(prop+":validate-accepts-violating-native:"+shape.Kind.String()+":"+breakClass(what), fmt.Sprintf("Validate accepts a native value that violates a declared constraint (%s)", what), wit)
		}
		if serr == nil {
			c.Violation(prop+":serialize-accepts-violating-native:"+shape.Kind.String()+":"+breakClass(what), fmt.Sprintf("Serialize accepts a native value that violates a declared constraint (%s)", what), wit)
		}
	}
}

// judgeNativeForm: a value that already is in native form (int64 / float64 / string / bool leaves in
// generic containers) must pass Validate and Serialize exactly when it meets every declared constraint.
func judgeNativeForm(c *wk.Ctx, prop string, t schema.Type, shape *gen.Shape, env *gen.Env, g any, descr, origin string) {
	hasPattern := false
	shape.Walk(func(s *gen.Shape) {
		if s.Kind == gen.KPattern || s.Kind == gen.KTypedStrEnum {
			hasPattern = true // their native forms (*regexp.Regexp, named string) differ from the generic form
		}
	})
	if hasPattern {
		return
	}
	why := ref.Check(shape, ref.Normalize(shape, g, env), env)
	if strings.Contains(why, "is not the native type") || strings.Contains(why, "is not a") || strings.Contains(why, "is not an") {
		return // not in native form at all: unspecified here (C04 covers totality)
	}
	var verr, serr error
	c.Note("Validate/Serialize native-form root=" + shape.Kind.String())
	wit := map[string]any{"schema": clipStr(descr, 1200), "native": clipStr(cmpx.Canon(g), 600), "origin": origin, "reference": why}
	if p, site, msg, _ := wk.Guard(func() { verr = t.Validate(g) }); p {
		c.Violation(prop+":panic:Validate:"+site, "Validate panicked: "+msg, wit)
		return
	}
	if p, site, msg, _ := wk.Guard(func() { _, serr = t.Serialize(g) }); p {
		c.Violation(prop+":panic:Serialize:"+site, "Serialize panicked: "+msg, wit)
		return
	}
	c.Count("native_form_checks")
	for _, pr := range []struct {
		name string
		err  error
	}{{"Validate", verr}, {"Serialize", serr}} {
		if why == "" && pr.err != nil {
			wit["sdk_error"] = pr.err.Error()
			c.Violation(prop+":"+strings.ToLower(pr.name)+"-rejects-conforming-native:"+shape.Kind.String()+":"+normMsg(pr.err), fmt.Sprintf("%s rejects a native value that meets every declared constraint: %v", pr.name, pr.err), wit)
		}
		if why != "" && pr.err == nil {
			c.Violation(prop+":"+strings.ToLower(pr.name)+"-accepts-violating-native:"+shape.Kind.String()+":"+whyClass(why), fmt.Sprintf("%s accepts a native value that violates a declared constraint: %s", pr.name, why), wit)
		}
	}
}

// ---- the enumerated scalar space ------------------------------------------------

type c02Case struct {
	shape *gen.Shape
	raw   any
}

func intBoundaryRaws(s *gen.Shape) []any {
	var ns []int64
	add := func(n int64) { ns = append(ns, n) }
	for _, b := range []*int64{s.Min, s.Max} {
		if b == nil {
			continue
		}
		add(*b)
		if *b > math.MinInt64 {
			add(*b - 1)
		}
		if *b < math.MaxInt64 {
			add(*b + 1)
		}
	}
	for _, n := range []int64{0, 1, -1, 7, math.MaxInt64, math.MinInt64, 1 << 53, 1<<53 + 1, -(1 << 53) - 1, 255, 256, 65536, 1 << 31, 1 << 32} {
		add(n)
	}
	var out []any
	seen := map[string]bool{}
	for _, n := range ns {
		for _, rp := range gen.IntReprs(n) {
			k := fmt.Sprintf("%T:%v", rp, rp)
			if !seen[k] {
				seen[k] = true
				out = append(out, rp)
			}
		}
	}
	out = append(out, uint64(math.MaxInt64)+1, uint64(math.MaxUint64), uint(math.MaxUint64), math.Ldexp(1, 63), -math.Ldexp(1, 63), math.Ldexp(1, 64), 1.5, -0.5,
		math.NaN(), math.Inf(1), math.Inf(-1), math.Copysign(0, -1), float32(16777216), float32(1.5), float32(math.Inf(1)), 1e19, 1e300,
		"007", "+5", "-0", " 5", "5 ", "0x10", "1e3", "1_000", "", " ", "\t", "five", "5.0", "9223372036854775808", "-9223372036854775809",
		"5m", "5m30s", "1.5s", "90 s", "1H", "5B", "30s5m", "1kB", "1 kB 5 B", "5 m 30 s", "1m1m", "2s", "7", "10s", "-5s",
		true, false, nil, []any{}, []any{int64(1)}, map[string]any{}, namedI(3), namedS("3"), namedF(3), []byte("12"))
	return out
}

func floatBoundaryRaws(s *gen.Shape) []any {
	var out []any
	for _, b := range []*float64{s.FMin, s.FMax} {
		if b == nil {
			continue
		}
		out = append(out, *b, math.Nextafter(*b, math.Inf(1)), math.Nextafter(*b, math.Inf(-1)))
		if *b == math.Trunc(*b) && math.Abs(*b) < 1e15 {
			out = append(out, int64(*b), int(*b), int64(*b)+1, int64(*b)-1, fmt.Sprintf("%v", *b))
		}
	}
	out = append(out, 0.0, math.Copysign(0, -1), 1.0, -1.0, 0.1, math.MaxFloat64, -math.MaxFloat64, math.SmallestNonzeroFloat64, math.NaN(), math.Inf(1), math.Inf(-1),
		float32(0.1), float32(2.5), float32(math.NaN()), int64(3), int(-3), uint64(math.MaxUint64), uint8(7), int8(-7), int64(1<<53+1),
		"1.5", "1e3", ".5", "5.", "-2.5e-3", "1e400", "inf", "-Inf", "NaN", "Infinity", "0x1p-2", "1_0", "", " ", " 1.5", "1.5 ", "abc", "1,5", "+7.25", "7.25", "7.250000001",
		"1.5s", "2m", "1m30s", "1m 30.5s", "30s1m", "1.5m", "5", "90", "1H1H",
		true, false, nil, []any{1.5}, map[string]any{}, namedF(1.5), namedI(2), namedS("1.5"))
	return out
}

func stringBoundaryRaws() []any {
	return []any{"", "a", "ab", "abc", "abcd", "abcde", "é", "éa", "日", "日本", "ab\n", "AB", "a1", "  ", "ü",
		int64(0), int64(-5), int(12), uint8(7), uint64(math.MaxUint64), int64(math.MinInt64), int16(123), uint32(1234),
		1.5, float32(2), true, false, nil, []byte("ab"), []any{"a"}, map[string]any{}, namedS("ab"), namedI(12)}
}

func boolRaws() []any {
	out := []any{true, false, nil, 1.0, 0.0, float32(1), "", " ", "2", "tru", "yes ", " yes", "oui", []any{true}, map[string]any{}, namedB(true), namedS("yes"), namedI(1)}
	for w := range map[string]bool{"1": true, "yes": true, "y": true, "on": true, "true": true, "enable": true, "enabled": true, "0": false, "no": false, "n": false, "off": false, "false": false, "disable": false, "disabled": false} {
		out = append(out, w, strings.ToUpper(w), strings.Title(w)) //nolint:staticcheck
	}
	for _, n := range []int64{0, 1, 2, -1, 255, 256} {
		for _, rp := range gen.IntReprs(n) {
			if _, isStr := rp.(string); !isStr {
				if _, isF := rp.(float64); !isF {
					if _, isF32 := rp.(float32); !isF32 {
						out = append(out, rp)
					}
				}
			}
		}
	}
	out = append(out, uint64(math.MaxUint64), uint64(1)<<63+1, uint64(1)<<32+1)
	// letters that lower-casing or case folding maps onto ASCII ones: dotted capital I, Kelvin sign, long s
	out = append(out, "DİSABLE", "DİSABLED", "yeſ", "falſe", "K", "OṄ", "ＴＲＵＥ", "trúe")
	return out
}

func c02Enumerated() []c02Case {
	var out []c02Case
	// integers: all combinations of absent/present bounds x units
	imins := []*int64{nil, p64(-5), p64(0), p64(math.MinInt64), p64(math.MaxInt64)}
	imaxs := []*int64{nil, p64(10), p64(math.MaxInt64), p64(-1), p64(math.MinInt64)}
	for _, mn := range imins {
		for _, mx := range imaxs {
			for _, u := range []string{"", "s", "bytes"} {
				s := &gen.Shape{Kind: gen.KInt, Min: mn, Max: mx, Units: u}
				for _, raw := range intBoundaryRaws(s) {
					out = append(out, c02Case{s, raw})
				}
			}
		}
	}
	fmins := []*float64{nil, pf64(-2.5), pf64(0), pf64(math.Inf(-1)), pf64(math.Copysign(0, -1))}
	fmaxs := []*float64{nil, pf64(7.25), pf64(math.Inf(1)), pf64(0), pf64(-3)}
	for _, mn := range fmins {
		for _, mx := range fmaxs {
			for _, u := range []string{"", "s"} {
				s := &gen.Shape{Kind: gen.KFloat, FMin: mn, FMax: mx, Units: u}
				for _, raw := range floatBoundaryRaws(s) {
					out = append(out, c02Case{s, raw})
				}
			}
		}
	}
	for _, mn := range []*int64{nil, p64(0), p64(2), p64(4)} {
		for _, mx := range []*int64{nil, p64(3), p64(0), p64(1)} {
			for _, pat := range []string{"", "^[a-z]+$", "^$", "[0-9]"} {
				s := &gen.Shape{Kind: gen.KString, Min: mn, Max: mx, Pattern: pat}
				for _, raw := range stringBoundaryRaws() {
					out = append(out, c02Case{s, raw})
				}
			}
		}
	}
	for _, raw := range boolRaws() {
		out = append(out, c02Case{&gen.Shape{Kind: gen.KBool}, raw})
	}
	for _, raw := range []any{"", "a+", "(", "[a-", "\\d{2}", "(?i)x", "(?P<n>a)", "a{2,1}", "\\", int64(5), 1.5, true, nil, []any{"a"}, namedS("a"), []byte("a")} {
		out = append(out, c02Case{&gen.Shape{Kind: gen.KPattern}, raw})
	}
	ie := &gen.Shape{Kind: gen.KIntEnum, IntVals: []int64{-3, 0, 7, 1024, math.MaxInt64}}
	ieu := &gen.Shape{Kind: gen.KIntEnum, IntVals: []int64{0, 60, 3600, 90}, Units: "s"}
	for _, s := range []*gen.Shape{ie, ieu} {
		for _, raw := range intBoundaryRaws(&gen.Shape{Kind: gen.KInt, Min: p64(-3), Max: p64(1024), Units: s.Units}) {
			out = append(out, c02Case{s, raw})
		}
		for _, extra := range []any{"1m", "1H", "1m30s", "60", "1 m", "60s", "61s"} {
			out = append(out, c02Case{s, extra})
		}
	}
	for _, kind := range []gen.Kind{gen.KStrEnum, gen.KTypedStrEnum} {
		s := &gen.Shape{Kind: kind, StrVals: []string{"a", "B", "10", "", "é"}}
		for _, raw := range stringBoundaryRaws() {
			out = append(out, c02Case{s, raw})
		}
		for _, extra := range []any{"A", "b", "10", int64(10), uint8(10), "10 ", " a", gen.NamedStr("a")} {
			out = append(out, c02Case{s, extra})
		}
	}
	// maps in which two keys are different spellings of the same key, in every Go map type a decoder or a caller can
	// hand over: whatever is accepted has as many entries as the size bounds demand (two here), so these are refused
	str := &gen.Shape{Kind: gen.KString}
	for _, keys := range []*gen.Shape{{Kind: gen.KInt}, {Kind: gen.KInt, Units: "bytes"}, {Kind: gen.KIntEnum, IntVals: []int64{1, 7, 1024}}} {
		m := &gen.Shape{Kind: gen.KMap, Keys: keys, Vals: str, Min: p64(2), Max: p64(2)}
		pairs := [][2]string{{"1", "01"}, {"7", "+7"}, {"7", " 7"}, {"1024", "1024 "}}
		if keys.Units != "" {
			pairs = append(pairs, [2]string{"1kB", "1024B"}, [2]string{"1 kB", "1kB"})
		}
		for _, p := range pairs {
			out = append(out,
				c02Case{m, map[string]any{p[0]: "a", p[1]: "b"}},
				c02Case{m, map[string]string{p[0]: "a", p[1]: "b"}},
				c02Case{m, map[any]any{p[0]: "a", p[1]: "b"}},
				c02Case{m, map[gen.NamedStr]any{gen.NamedStr(p[0]): "a", gen.NamedStr(p[1]): "b"}})
		}
		out = append(out, c02Case{m, map[any]any{"7": "a", int64(7): "b"}}, c02Case{m, map[any]any{int32(7): "a", int64(7): "b"}},
			c02Case{m, map[string]any{"1": "a", "7": "b"}}) // (the last one is a plain valid map)
	}
	return out
}

func sizeBoundaryInputs(r *wk.Rand, s *gen.Shape, env *gen.Env) []any {
	// lists / maps with exactly min-1, min, max, max+1 elements
	var out []any
	var sizes []int
	for _, b := range []*int64{s.Min, s.Max} {
		if b != nil && *b >= 0 && *b <= 8 {
			sizes = append(sizes, int(*b)-1, int(*b), int(*b)+1)
		}
	}
	sizes = append(sizes, 0, 1)
	for _, n := range sizes {
		if n < 0 {
			continue
		}
		switch s.Kind {
		case gen.KList:
			l := make([]any, 0, n)
			ok := true
			for i := 0; i < n; i++ {
				v, vok := gen.ValidRaw(r, s.Items, env, 1)
				if !vok {
					ok = false
					break
				}
				l = append(l, v)
			}
			if ok {
				out = append(out, l)
			}
		case gen.KMap:
			m := map[any]any{}
			for tries := 0; len(m) < n && tries < 60; tries++ {
				k, kok := gen.ValidRaw(r, s.Keys, env, 1)
				v, vok := gen.ValidRaw(r, s.Vals, env, 1)
				if !kok || !vok {
					break
				}
				m[k] = v
			}
			if len(m) == n {
				out = append(out, m)
			}
		}
	}
	return out
}

// c02Rebuilt passes a type through the description of a scope that uses it and back (what a client holds of a
// plugin's schema): the rebuilt type declares the same constraints. ok is false for types that cannot be described.
func c02Rebuilt(t schema.Type) (rt schema.Type, ok bool) {
	p, _, _, _ := wk.Guard(func() {
		sc := schema.NewScopeSchema(schema.NewObjectSchema("R", map[string]*schema.PropertySchema{
			"v": schema.NewPropertySchema(t, nil, true, nil, nil, nil, nil, nil)}))
		rb, err := rebuildScope(sc)
		if err != nil {
			return
		}
		if o := rb.Objects()["R"]; o != nil && o.Properties()["v"] != nil {
			rt = o.Properties()["v"].Type()
		}
	})
	return rt, !p && rt != nil
}

func runC02(c *wk.Ctx) {
	c.Meta("rule", "(a) ENUMERATED: int schemas over 5x5 min/max choices (absent, ordinary, 0, +-2^63 edges, min>max) x 3 unit settings; float schemas 5x5 bounds (incl. +-Inf, -0) x 2 unit settings; string schemas 4x4 length bounds x 4 patterns; bool; pattern; int enums with/without units; string and typed string enums - each against its boundary set (every bound and bound+-1, 0, +-1, +-2^63, 2^53+-1) in every Go representation (10 integer widths, float32/64, decimal / unit / malformed strings, boolean words in 3 casings, nil, containers, []byte, named scalar types). (b) SAMPLED: generated lists/maps/any (depth<=2) over generated scalars with valid inputs in random representations, CBOR images, near-boundary perturbations, exact size-boundary collections (min-1, min, max, max+1 entries). Oracle: an independent reference interpreter (internal/ref) with verdicts must-accept(value) / must-reject / unspecified; on unspecified only 'an accepted result satisfies every declared constraint' is required. Natives: every accepted result is mutated to violate exactly one constraint; Validate and Serialize must both reject it. non-trivial = the raw value sits on a boundary or is not in the native representation; distinct = hash(schema, raw) Every enumerated case, and every third sampled schema, is also judged on the schema rebuilt from the description of a scope that uses it (what a client holds).")
	c.Meta("assumptions", []string{"the reference fixes only the conversions the statement names (integer/float widths, numeric strings, unit strings, boolean words); bool->number, float->string, named scalar types, bare numbers for unit schemas and colliding map keys are unspecified",
		"string lengths are byte lengths (what the SDK documents and all three paths use)"})
	enum := c02Enumerated()
	c.Meta("cov.enumerated_scalar_cases", len(enum))
	c.Meta("exhaustive", false)
	c.Floor("verdict:must-accept", 2000)
	c.Floor("verdict:must-reject", 2000)
	c.Floor("broken_natives", 300)
	c.Floor("native_form_checks", 2000)
	nSampled := c.N(15000, 3000000)
	total := int64(len(enum)) + nSampled
	built := map[*gen.Shape]schema.Type{}
	rebuilt := map[*gen.Shape]schema.Type{}
	// unit strings are accepted through lazily built tables of the units definition: the very first uses, by several
	// goroutines at once and mixed with formatting, must accept and reject exactly what a definition used by one
	// goroutine does
	perShard := int(c.N(150, 10000))
	for k := int64(0); k < 16; k++ {
		if c.Mine(k) {
			c.Begin(k, "first use of fresh unit definitions by 8 goroutines (IntSchema.Unserialize)")
			unitsFirstUse(c, "C02", int(k)*perShard, int(k+1)*perShard, true)
		}
	}
	c.Cases(total, func(idx int64, r *wk.Rand) {
		env := &gen.Env{}
		if idx < int64(len(enum)) {
			cs := enum[idx]
			t, ok := built[cs.shape]
			if !ok {
				bt, bok, _ := buildGuarded(cs.shape)
				if !bok {
					return
				}
				t = bt
				built[cs.shape] = t
			}
			descr := cs.shape.Describe()
			c.Count("enumerated:" + cs.shape.Kind.String())
			c.Eval(wk.Hash64(descr, cmpx.Canon(cs.raw), dynType(cs.raw)), true)
			if native, acc := judgeUnserialize(c, "C02", t, cs.shape, env, cs.raw, descr, "enumerated boundary set"); acc {
				judgeNatives(c, "C02", r, t, cs.shape, env, native, descr)
			}
			switch cs.raw.(type) {
			case int64, float64, string, bool:
				judgeNativeForm(c, "C02", t, cs.shape, env, cs.raw, descr, "enumerated boundary set")
			}
			// the same schema as a client rebuilds it from the plugin's description
			rt, rok := rebuilt[cs.shape]
			if !rok {
				rt, _ = c02Rebuilt(t)
				rebuilt[cs.shape] = rt
			}
			if rt != nil {
				c.Count("enumerated_on_rebuilt_schema")
				if native, acc := judgeUnserialize(c, "C02", rt, cs.shape, env, gen.CopyRaw(cs.raw), descr+" (rebuilt from its description)", "enumerated boundary set, schema rebuilt from its description"); acc {
					judgeNatives(c, "C02", r, rt, cs.shape, env, native, descr+" (rebuilt from its description)")
				}
			}
			if idx%5003 == 0 {
				c.Sample("enumerated", map[string]any{"schema": descr, "raw": fmt.Sprintf("%#v", cs.raw)})
			}
			return
		}
		cfg := gen.Full()
		cfg.TypedVariants = true
		cfg.Structs, cfg.OneOf, cfg.Refs, cfg.NestedScopes = false, false, false, false
		shape := gen.GenScalarOrContainer(r, cfg, 2)
		t, ok, _ := buildGuarded(shape)
		if !ok {
			c.Count("misbuilt_schemas")
			return
		}
		descr := shape.Describe()
		c.Count("sampled:" + shape.Kind.String())
		if idx%3 == 0 {
			if rt, rok := c02Rebuilt(t); rok {
				t = rt
				descr += " (rebuilt from its description)"
				c.Count("sampled_on_rebuilt_schema")
			}
		}
		var inputs []struct {
			raw    any
			origin string
		}
		add := func(raw any, origin string) {
			inputs = append(inputs, struct {
				raw    any
				origin string
			}{raw, origin})
		}
		for i := 0; i < 3; i++ {
			if raw, ok := gen.ValidRaw(r, shape, env, 0); ok {
				add(gen.Represent(r, gen.CopyRaw(raw), shape, env, 0), "valid, random representation")
				if cb, err := gen.ViaCBOR(gen.Represent(r, gen.CopyRaw(raw), shape, env, 0)); err == nil {
					add(cb, "valid, after CBOR")
				}
				pv, _ := gen.Perturb(r, gen.CopyRaw(raw))
				add(pv, "perturbed leaf")
				_, h := gen.HostileValue(r)
				hv, _ := gen.SubstituteAt(r, gen.CopyRaw(raw), h)
				add(hv, "hostile leaf")
			}
		}
		for _, sb := range sizeBoundaryInputs(r, shape, env) {
			add(sb, "size boundary")
			judgeNativeForm(c, "C02", t, shape, env, gen.CopyRaw(sb), descr, "size boundary")
		}
		for i := 0; i < 4; i++ {
			if raw, ok := gen.ValidRaw(r, shape, env, 0); ok {
				judgeNativeForm(c, "C02", t, shape, env, gen.CopyRaw(raw), descr, "valid native form")
				pn, _ := gen.PerturbNative(r, gen.CopyRaw(raw))
				judgeNativeForm(c, "C02", t, shape, env, pn, descr, "perturbed native form")
			}
		}
		for _, in := range inputs {
			c.Eval(wk.Hash64(descr, cmpx.Canon(in.raw)), true)
			if native, acc := judgeUnserialize(c, "C02", t, shape, env, in.raw, descr, in.origin); acc {
				judgeNatives(c, "C02", r, t, shape, env, native, descr)
			}
		}
		if idx%4001 == 0 {
			c.Sample("sampled", map[string]any{"schema": descr})
		}
	})
}

func init() { register("C02", runC02) }
