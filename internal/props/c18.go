package props

import (
	"errors"
	"fmt"
	"reflect"
	"regexp"
	"strings"
	"sync"
	"sync/atomic"

	"go.flow.arcalot.io/pluginsdk/schema"

	"verif/internal/fakeerr"
	"verif/internal/wk"
)

type namedStr string

type c18Type struct {
	name   string
	typ    reflect.Type
	mk     func() schema.Type
	sample func(i int) any
}

var errIface = reflect.TypeOf((*error)(nil)).Elem()
var anyIface = reflect.TypeOf((*any)(nil)).Elem()

func c18Pool() []c18Type {
	obj := func() schema.Type {
		return schema.NewObjectSchema("o", map[string]*schema.PropertySchema{
			"a": schema.NewPropertySchema(schema.NewIntSchema(nil, nil, nil), nil, false, nil, nil, nil, nil, nil)})
	}
	return []c18Type{
		{"int", reflect.TypeOf(int64(0)), func() schema.Type { return schema.NewIntSchema(nil, nil, nil) }, func(i int) any { return int64(40 + i) }},
		{"float", reflect.TypeOf(float64(0)), func() schema.Type { return schema.NewFloatSchema(nil, nil, nil) }, func(i int) any { return 1.5 + float64(i) }},
		{"string", reflect.TypeOf(""), func() schema.Type { return schema.NewStringSchema(nil, nil, nil) }, func(i int) any { return fmt.Sprintf("s%d", i) }},
		{"bool", reflect.TypeOf(false), func() schema.Type { return schema.NewBoolSchema() }, func(i int) any { return i%2 == 0 }},
		{"pattern", reflect.TypeOf(&regexp.Regexp{}), func() schema.Type { return schema.NewPatternSchema() }, func(i int) any { return regexp.MustCompile(fmt.Sprintf("^a{%d}$", i)) }},
		{"list[int]", reflect.TypeOf([]int64{}), func() schema.Type { return schema.NewListSchema(schema.NewIntSchema(nil, nil, nil), nil, nil) }, func(i int) any { return []int64{int64(i), 2} }},
		{"map[string]int", reflect.TypeOf(map[string]int64{}), func() schema.Type {
			return schema.NewMapSchema(schema.NewStringSchema(nil, nil, nil), schema.NewIntSchema(nil, nil, nil), nil, nil)
		}, func(i int) any { return map[string]int64{"k": int64(i)} }},
		{"any", reflect.TypeOf((*any)(nil)).Elem(), func() schema.Type { return schema.NewAnySchema() }, func(i int) any { return fmt.Sprintf("any%d", i) }},
		{"object", reflect.TypeOf(map[string]any{}), obj, func(i int) any { return map[string]any{"a": int64(i)} }},
		{"enum_int", reflect.TypeOf(int64(0)), func() schema.Type {
			return schema.NewIntEnumSchema(map[int64]*schema.DisplayValue{1: nil, 2: nil}, nil)
		}, func(i int) any { return int64(1 + i%2) }},
		{"typed_enum", reflect.TypeOf(namedStr("")), func() schema.Type {
			return schema.NewTypedStringEnumSchema(map[namedStr]*schema.DisplayValue{"x": nil, "y": nil})
		}, func(i int) any { return namedStr("x") }},
		{"list[typed_enum]", reflect.TypeOf([]namedStr{}), func() schema.Type {
			return schema.NewListSchema(schema.NewTypedStringEnumSchema(map[namedStr]*schema.DisplayValue{"x": nil, "y": nil}), nil, nil)
		}, func(i int) any { return []namedStr{"x", "y"}[:1+i%2] }},
		{"map[int]list[string]", reflect.TypeOf(map[int64][]string{}), func() schema.Type {
			return schema.NewMapSchema(schema.NewIntSchema(nil, nil, nil), schema.NewListSchema(schema.NewStringSchema(nil, nil, nil), nil, nil), nil, nil)
		}, func(i int) any { return map[int64][]string{int64(i): {"a"}} }},
	}
}

// result shapes of a handler
type c18Res struct {
	name  string
	types func(v c18Type, w c18Type) []reflect.Type
}

var fakeErrT = reflect.TypeOf(fakeerr.Err(0))
var fakeErrIfaceT = reflect.TypeOf((*fakeerr.IfaceNamedError)(nil)).Elem()

func c18Results() []c18Res {
	return []c18Res{
		{"none", func(v, w c18Type) []reflect.Type { return nil }},
		{"value", func(v, w c18Type) []reflect.Type { return []reflect.Type{v.typ} }},
		{"error", func(v, w c18Type) []reflect.Type { return []reflect.Type{errIface} }},
		{"value+error", func(v, w c18Type) []reflect.Type { return []reflect.Type{v.typ, errIface} }},
		{"value+value+error", func(v, w c18Type) []reflect.Type { return []reflect.Type{v.typ, w.typ, errIface} }},
		{"value+value", func(v, w c18Type) []reflect.Type { return []reflect.Type{v.typ, w.typ} }},
		{"error+value", func(v, w c18Type) []reflect.Type { return []reflect.Type{errIface, v.typ} }},
		{"fakeerr", func(v, w c18Type) []reflect.Type { return []reflect.Type{fakeErrT} }},
		{"value+fakeerr", func(v, w c18Type) []reflect.Type { return []reflect.Type{v.typ, fakeErrT} }},
		{"value+fakeerr-iface", func(v, w c18Type) []reflect.Type { return []reflect.Type{v.typ, fakeErrIfaceT} }},
		{"error+error", func(v, w c18Type) []reflect.Type { return []reflect.Type{errIface, errIface} }},
	}
}

// refAccept is the reference statement of the acceptance rule.
func refAcceptStatic(in []reflect.Type, out []reflect.Type, declIn []reflect.Type, declOut reflect.Type, outputsError bool) (bool, string) {
	// declIn / declOut are the native Go types of the declared schemas as the harness knows them (from the pool),
	// not what the SDK's ReflectedType() says about them
	if len(in) != len(declIn) {
		return false, "param-count"
	}
	for i := range in {
		if in[i] != declIn[i] {
			return false, "param-type"
		}
	}
	var want []reflect.Type
	if declOut != nil {
		want = append(want, declOut)
	}
	if outputsError {
		want = append(want, errIface)
	}
	if len(want) != len(out) {
		return false, "result-count"
	}
	for i := range want {
		if want[i] != out[i] {
			if want[i] == errIface {
				if out[i].Name() == "error" {
					return false, "error-type-named-error"
				}
				return false, "error-type"
			}
			return false, "result-type"
		}
	}
	return true, ""
}

var errHandler = errors.New("handler-reported failure")

// what a handler may return as its error: nothing, a plain error, a call-shape error that it got from
// mis-calling another function, or that wrapped with %w. All of them are errors *the handler returned*.
var errNestedShape = schema.NewFunctionCallError(errors.New("inner call had the wrong number of arguments"), false)
var errWrappedShape = fmt.Errorf("handler could not finish: %w", errNestedShape)

// c18PtrErr is an error type with pointer receivers; a nil *c18PtrErr returned as an error is a non-nil error.
type c18PtrErr struct{ msg string }

func (e *c18PtrErr) Error() string {
	if e == nil {
		return "typed nil error"
	}
	return e.msg
}

// c18SameErr: identical error values (types that cannot be compared with == are compared deeply).
func c18SameErr(a, b error) bool {
	if a == nil || b == nil {
		return a == nil && b == nil
	}
	if reflect.TypeOf(a) != reflect.TypeOf(b) {
		return false
	}
	if reflect.TypeOf(a).Comparable() {
		return a == b
	}
	return reflect.DeepEqual(a, b)
}

type c18SliceErr []string

func (e c18SliceErr) Error() string { return fmt.Sprint("slice error ", len(e)) }

var c18HandlerErrors = []error{nil, errHandler, errNestedShape, errWrappedShape, (*c18PtrErr)(nil), c18SliceErr(nil), &c18PtrErr{"pointer error"}}

func runC18(c *wk.Ctx) {
	c.Meta("rule", "exhaustive matrix: handler parameter lists of length 0..3 over 13 native types (incl. a named string type, a list of it, a map of lists and two schemas sharing int64) x 11 result shapes (none, value, error, value+error, extra results, non-error last, a non-error type NAMED error, an interface named error, error first) x declared inputs {exact, one type swapped, one dropped, one added} x declared output {nil, matching, other} x error flag, for NewCallableFunction; the dynamic constructor over the same handlers; every accepted function is called with 0..4 arguments, with nil and non-nil handler errors (incl. typed-nil pointer and nil-slice error values); variadic handlers as an extra column. distinct = hash of (handler signature, declaration); all cases non-trivial Re-entrant calls: handlers that call their own function (static, dynamic), each other, or another function.")
	c.Meta("assumptions", []string{"handlers are synthesised with reflect.MakeFunc, so only signatures (not bodies) vary", "non-func / nil handlers and wrongly typed call arguments are outside the property's quantifier"})
	c.Meta("exhaustive", true)
	c.Floor("constructor_calls", 10000)
	c.Floor("accepted", 100)
	c.Floor("calls", 1000)
	pool := c18Pool()
	results := c18Results()
	// enumerate parameter lists as numbers in base len(pool)
	type plist []int
	var plists []plist
	plists = append(plists, plist{})
	maxParams := 3
	if !c.Quick() {
		maxParams = 4
	}
	for n := 1; n <= maxParams; n++ {
		total := 1
		for i := 0; i < n; i++ {
			total *= len(pool)
		}
		for k := 0; k < total; k++ {
			p := make(plist, n)
			x := k
			for i := 0; i < n; i++ {
				p[i] = x % len(pool)
				x /= len(pool)
			}
			plists = append(plists, p)
		}
	}
	ncases := int64(len(plists)) * int64(len(results))
	c.Cases(ncases+int64(len(pool)*6)+4+4, func(idx int64, r *wk.Rand) {
		if idx >= ncases+int64(len(pool)*6)+4 {
			c18Reentrant(c, int(idx-ncases-int64(len(pool)*6)-4))
			return
		}
		if idx >= ncases+int64(len(pool)*6) {
			c18Concurrent(c, int(idx-ncases-int64(len(pool)*6)))
			return
		}
		if idx >= ncases {
			c18Variadic(c, pool, int(idx-ncases))
			return
		}
		pl := plists[idx/int64(len(results))]
		rs := results[idx%int64(len(results))]
		v := pool[r.Intn(len(pool))]
		w := pool[r.Intn(len(pool))]
		if rs.name == "value+error" && (idx/int64(len(results)))%2 == 0 {
			v = pool[indexOf(pool, "any")] // (any, error) is the one result shape the dynamic constructor takes
		}
		in := make([]reflect.Type, len(pl))
		for i, t := range pl {
			in[i] = pool[t].typ
		}
		out := rs.types(v, w)
		sigName := fmt.Sprintf("func(%s) %s[%s,%s]", plNames(pool, pl), rs.name, v.name, w.name)
		// The handler records its arguments and returns fixed values.
		var gotArgs []any
		retErr := 0
		ft := reflect.FuncOf(in, out, false)
		handler := reflect.MakeFunc(ft, func(args []reflect.Value) []reflect.Value {
			gotArgs = gotArgs[:0]
			for _, a := range args {
				gotArgs = append(gotArgs, a.Interface())
			}
			res := make([]reflect.Value, len(out))
			for i, t := range out {
				switch {
				case t == errIface:
					if retErr > 0 {
						e := c18HandlerErrors[retErr]
						res[i] = reflect.ValueOf(&e).Elem()
					} else {
						res[i] = reflect.Zero(t)
					}
				case t == v.typ && i == 0:
					res[i] = reflect.ValueOf(v.sample(7)).Convert(t)
					if c18RetZero {
						res[i] = reflect.Zero(t) // the zero value of the result type: a nil list, a nil map, 0, ""
					}
				case t.Kind() == reflect.Interface:
					res[i] = reflect.Zero(t)
				default:
					res[i] = reflect.Zero(t)
					if t == w.typ {
						res[i] = reflect.ValueOf(w.sample(3)).Convert(t)
					}
				}
			}
			return res
		}).Interface()

		// declared inputs variants
		type declIn struct {
			name string
			ts   []schema.Type
			nat  []reflect.Type // the native Go types of ts, as the pool declares them
		}
		exact := make([]schema.Type, len(pl))
		exactNat := make([]reflect.Type, len(pl))
		for i, t := range pl {
			exact[i], exactNat[i] = pool[t].mk(), pool[t].typ
		}
		dins := []declIn{{"exact", exact, exactNat}}
		if len(pl) > 0 {
			k := r.Intn(len(pl))
			sw := append([]schema.Type{}, exact...)
			swNat := append([]reflect.Type{}, exactNat...)
			other := (pl[k] + 1 + r.Intn(len(pool)-1)) % len(pool)
			sw[k], swNat[k] = pool[other].mk(), pool[other].typ
			dins = append(dins, declIn{"swapped", sw, swNat})
			dins = append(dins, declIn{"dropped", append(append([]schema.Type{}, exact[:k]...), exact[k+1:]...), append(append([]reflect.Type{}, exactNat[:k]...), exactNat[k+1:]...)})
		}
		added := pool[r.Intn(len(pool))]
		dins = append(dins, declIn{"added", append(append([]schema.Type{}, exact...), added.mk()), append(append([]reflect.Type{}, exactNat...), added.typ)})
		otherOut := pool[(indexOf(pool, v.name)+1+r.Intn(len(pool)-1))%len(pool)]
		douts := []struct {
			name string
			t    schema.Type
			nat  reflect.Type
		}{{"nil", nil, nil}, {"match:" + v.name, v.mk(), v.typ}, {"other:" + otherOut.name, otherOut.mk(), otherOut.typ}}
		for _, di := range dins {
			for _, do := range douts {
				for _, oe := range []bool{false, true} {
					want, reason := refAcceptStatic(in, out, di.nat, do.nat, oe)
					var fn schema.CallableFunction
					var err error
					p, site, msg, _ := wk.Guard(func() {
						fn, err = schema.NewCallableFunction("f", di.ts, do.t, oe, nil, handler)
					})
					c.Count("constructor_calls")
					c.Eval(wk.Hash64(sigName, di.name, do.name, fmt.Sprint(oe)), true)
					wit := map[string]any{"handler": ft.String(), "declared_inputs": di.name, "declared_output": do.name, "outputs_error": oe}
					if p {
						c.Violation("C18:panic:NewCallableFunction:"+site, fmt.Sprintf("NewCallableFunction panicked for %s: %s", ft, msg), wit)
						continue
					}
					got := err == nil
					if got != want {
						if got {
							c.Violation("C18:static:accepted-but-signature-disagrees:"+reason, fmt.Sprintf("NewCallableFunction accepted handler %s for inputs=%s output=%s outputsError=%v (%s)", ft, di.name, do.name, oe, reason), wit)
						} else {
							c.Violation("C18:static:rejected-but-signature-agrees", fmt.Sprintf("NewCallableFunction rejected handler %s for inputs=%s output=%s outputsError=%v: %v", ft, di.name, do.name, oe, err), wit)
						}
						if !got {
							continue
						}
					}
					if !got {
						c.Count("rejected")
						continue
					}
					c.Count("accepted")
					if idx%97 == 0 {
						c.Sample("accepted-static", wit)
					}
					c18Calls(c, fn, pool, pl, do.t != nil && len(out) > 0 && out[0] == v.typ, v, oe && want, &gotArgs, &retErr, wit, "static")
				}
			}
			// dynamic constructor: accepted iff params agree and results are exactly (any, error)
			wantDyn := len(in) == len(di.nat)
			if wantDyn {
				for i := range in {
					if in[i] != di.nat[i] {
						wantDyn = false
					}
				}
			}
			anyT := reflect.TypeOf((*any)(nil)).Elem()
			resOK := len(out) == 2 && out[0] == anyT && out[1] == errIface
			specified := true
			if len(out) == 2 && out[0].Kind() == reflect.Interface && out[0] != anyT {
				specified = false // a non-empty interface result: the statement does not say
			}
			var fn schema.CallableFunction
			var err error
			// the type handler only states the result type for given argument types; every third function has one
			// that refuses (it is asked about types, it has no say in whether a call is made)
			typeHandler := func([]schema.Type) (schema.Type, error) { return schema.NewAnySchema(), nil }
			if idx%3 == 1 {
				typeHandler = func([]schema.Type) (schema.Type, error) {
					return nil, fmt.Errorf("this type handler refuses every list of argument types")
				}
				c.Count("dynamic_functions_with_a_refusing_type_handler")
			}
			p, site, msg, _ := wk.Guard(func() {
				fn, err = schema.NewDynamicCallableFunction("f", di.ts, nil, handler, typeHandler)
			})
			c.Count("constructor_calls")
			c.Eval(wk.Hash64(sigName, di.name, "dynamic"), true)
			wit := map[string]any{"handler": ft.String(), "declared_inputs": di.name, "constructor": "dynamic"}
			if p {
				c.Violation("C18:panic:NewDynamicCallableFunction:"+site, fmt.Sprintf("NewDynamicCallableFunction panicked for %s: %s", ft, msg), wit)
				continue
			}
			if specified && (err == nil) != (wantDyn && resOK) {
				if err == nil {
					reason := "params"
					if wantDyn {
						reason = "results"
						if len(out) == 2 && out[1].Name() == "error" {
							reason = "error-type-named-error"
						}
					}
					c.Violation("C18:dynamic:accepted-but-signature-disagrees:"+reason, fmt.Sprintf("NewDynamicCallableFunction accepted handler %s for inputs=%s", ft, di.name), wit)
				} else {
					c.Violation("C18:dynamic:rejected-but-signature-agrees", fmt.Sprintf("NewDynamicCallableFunction rejected handler %s for inputs=%s: %v", ft, di.name, err), wit)
				}
			}
			if err == nil && wantDyn && resOK {
				c.Count("accepted")
				c18Calls(c, fn, pool, pl, true, v, true, &gotArgs, &retErr, wit, "dynamic")
			}
		}
	})
}

func indexOf(pool []c18Type, name string) int {
	for i := range pool {
		if pool[i].name == name {
			return i
		}
	}
	return 0
}

func plNames(pool []c18Type, pl []int) string {
	var s []string
	for _, t := range pl {
		s = append(s, pool[t].name)
	}
	return strings.Join(s, ",")
}

// c18RetZero makes the synthesised handlers return the zero value of their result type.
var c18RetZero bool

// c18Calls exercises an accepted function with argument lists of every length.
func c18Calls(c *wk.Ctx, fn schema.CallableFunction, pool []c18Type, pl []int, hasValue bool, v c18Type, hasErr bool, gotArgs *[]any, retErr *int, wit map[string]any, kind string) {
	for nargs := 0; nargs <= 4; nargs++ {
		args := make([]any, nargs)
		for i := range args {
			if i < len(pl) {
				args[i] = pool[pl[i]].sample(i)
			} else {
				args[i] = int64(i)
			}
		}
		if nargs != len(pl) {
			// a wrong count is an error whatever the list holds: an untyped nil, a nil list
			odd := [][]any{append([]any{}, args...)}
			if nargs > 0 {
				odd[0][nargs-1] = nil
				allNil := make([]any, nargs)
				odd = append(odd, allNil)
			} else {
				odd = append(odd, nil)
			}
			for _, oa := range odd {
				var err error
				p, site, msg, _ := wk.Guard(func() { _, err = fn.Call(oa) })
				c.Count("calls")
				c.Count("calls_with_a_wrong_count_and_nil_entries")
				w := map[string]any{"declaration": wit, "nargs": nargs, "arguments": fmt.Sprintf("%#v", oa)}
				var fce *schema.FunctionCallError
				if p {
					c.Violation("C18:call:panic:"+kind+":"+site, fmt.Sprintf("Call with %d argument(s) (declared %d), some of them nil, panicked: %s", nargs, len(pl), msg), w)
				} else if err == nil {
					c.Violation("C18:call:wrong-arg-count-accepted:"+kind, fmt.Sprintf("Call with %d argument(s) (declared %d) returned no error", nargs, len(pl)), w)
				} else if errors.As(err, &fce) && fce.IsFunctionReportedError {
					c.Violation("C18:call:shape-error-attributed-to-function:"+kind, fmt.Sprintf("wrong argument count reported as function-reported error: %v", err), w)
				}
			}
		}
		for errMode := range c18HandlerErrors {
			withErr := errMode > 0
			if withErr && !hasErr {
				continue
			}
			*retErr = errMode
			*gotArgs = (*gotArgs)[:0]
			var res any
			var err error
			p, site, msg, _ := wk.Guard(func() { res, err = fn.Call(args) })
			c.Count("calls")
			w := map[string]any{"declaration": wit, "nargs": nargs, "handler_returns_error": errMode}
			if p {
				c.Violation("C18:call:panic:"+kind+":"+site, fmt.Sprintf("Call with %d argument(s) (declared %d) panicked: %s", nargs, len(pl), msg), w)
				continue
			}
			var fce *schema.FunctionCallError
			if nargs != len(pl) {
				if err == nil {
					c.Violation("C18:call:wrong-arg-count-accepted:"+kind, fmt.Sprintf("Call with %d argument(s) (declared %d) returned no error", nargs, len(pl)), w)
				} else if errors.As(err, &fce) && fce.IsFunctionReportedError {
					c.Violation("C18:call:shape-error-attributed-to-function:"+kind, fmt.Sprintf("wrong argument count reported as function-reported error: %v", err), w)
				}
				continue
			}
			if withErr {
				if err == nil {
					c.Violation("C18:call:handler-error-lost:"+kind, "handler returned an error but Call returned nil", w)
				} else if fce2, ok := err.(*schema.FunctionCallError); !ok || !fce2.IsFunctionReportedError || !c18SameErr(fce2.SourceError, c18HandlerErrors[errMode]) {
					w["handler_error"] = fmt.Sprintf("%#v", c18HandlerErrors[errMode])
					c.Violation("C18:call:handler-error-misattributed:"+kind, fmt.Sprintf("handler returned %q but Call reported %#v (must be function-reported and carry exactly the handler's error)", c18HandlerErrors[errMode], err), w)
				}
				continue
			}
			if err != nil {
				c.Violation("C18:call:spurious-error:"+kind, fmt.Sprintf("Call with matching arguments failed: %v", err), w)
				continue
			}
			if len(*gotArgs) != nargs {
				c.Violation("C18:call:handler-not-invoked:"+kind, fmt.Sprintf("handler saw %d arguments, %d passed", len(*gotArgs), nargs), w)
				continue
			}
			for i := range args {
				if !reflect.DeepEqual((*gotArgs)[i], args[i]) {
					c.Violation("C18:call:argument-altered:"+kind, fmt.Sprintf("argument %d arrived as %#v, passed %#v", i, (*gotArgs)[i], args[i]), w)
				}
			}
			if hasValue {
				want := v.sample(7)
				if kind == "dynamic" && v.name != "any" {
					want = nil // the synthesised handler returns the zero `any` unless the value type is `any` itself
				}
				if !reflect.DeepEqual(res, want) && !(want != nil && reflect.TypeOf(want) == reflect.TypeOf(res) && fmt.Sprint(res) == fmt.Sprint(want)) {
					c.Violation("C18:call:wrong-result:"+kind, fmt.Sprintf("Call returned %#v, handler returned %#v", res, want), w)
				}
			} else if res != nil {
				c.Violation("C18:call:wrong-result:"+kind, fmt.Sprintf("void function returned %#v", res), w)
			}
			if hasValue && kind == "static" && errMode == 0 {
				// the handler returns the zero value of its result type: the caller gets exactly that, type included
				c18RetZero = true
				var zres any
				var zerr error
				zp, zsite, zmsg, _ := wk.Guard(func() { zres, zerr = fn.Call(args) })
				c18RetZero = false
				c.Count("calls")
				c.Count("calls_returning_the_zero_value")
				zwant := reflect.Zero(v.typ).Interface()
				switch {
				case zp:
					c.Violation("C18:call:panic:"+kind+":"+zsite, "Call panicked when the handler returned its zero value: "+zmsg, w)
				case zerr != nil:
					c.Violation("C18:call:spurious-error:"+kind, fmt.Sprintf("Call failed when the handler returned its zero value: %v", zerr), w)
				case reflect.TypeOf(zres) != reflect.TypeOf(zwant) || !reflect.DeepEqual(zres, zwant):
					c.Violation("C18:call:wrong-result:zero-value:"+kind, fmt.Sprintf("the handler returned %#v (%T), Call returned %#v (%T)", zwant, zwant, zres, zres), w)
				}
			}
		}
	}
}

// c18Variadic: func(...T) has the parameter type []T, which agrees with a list
// schema; if the constructor accepts it, Call must return what the handler returns.
func c18Variadic(c *wk.Ctx, pool []c18Type, k int) {
	elem := pool[k%len(pool)]
	shape := k / len(pool) // 0: (...T) value ; 1: (T, ...T) value+error ; 2: (...T) none; 3: (...T) error
	sl := reflect.SliceOf(elem.typ)
	var in, out []reflect.Type
	var decl []schema.Type
	listSchema := func() schema.Type { return schema.NewListSchema(elem.mk(), nil, nil) }
	switch shape {
	case 0:
		in, out, decl = []reflect.Type{sl}, []reflect.Type{reflect.TypeOf(int64(0))}, []schema.Type{listSchema()}
	case 1:
		in, out, decl = []reflect.Type{elem.typ, sl}, []reflect.Type{reflect.TypeOf(int64(0)), errIface}, []schema.Type{elem.mk(), listSchema()}
	case 2:
		in, out, decl = []reflect.Type{sl}, nil, []schema.Type{listSchema()}
	case 3:
		in, out, decl = []reflect.Type{sl}, []reflect.Type{errIface}, []schema.Type{listSchema()}
	case 4: // dynamic constructor: results are exactly (any, error)
		in, out, decl = []reflect.Type{sl}, []reflect.Type{anyIface, errIface}, []schema.Type{listSchema()}
	default:
		in, out, decl = []reflect.Type{elem.typ, sl}, []reflect.Type{anyIface, errIface}, []schema.Type{elem.mk(), listSchema()}
	}
	dynamic := shape >= 4
	ft := reflect.FuncOf(in, out, true)
	var seenLen int
	handler := reflect.MakeFunc(ft, func(args []reflect.Value) []reflect.Value {
		seenLen = args[len(args)-1].Len()
		res := make([]reflect.Value, len(out))
		for i, t := range out {
			if t == errIface {
				res[i] = reflect.Zero(t)
			} else {
				v := reflect.New(t).Elem()
				v.Set(reflect.ValueOf(int64(seenLen)))
				res[i] = v
			}
		}
		return res
	}).Interface()
	var declOut schema.Type
	if len(out) > 0 && out[0] != errIface {
		declOut = schema.NewIntSchema(nil, nil, nil)
	}
	oe := len(out) > 0 && out[len(out)-1] == errIface
	var fn schema.CallableFunction
	var err error
	wit := map[string]any{"handler": ft.String(), "variadic": true}
	p, site, msg, _ := wk.Guard(func() {
		if dynamic {
			fn, err = schema.NewDynamicCallableFunction("f", decl, nil, handler, func([]schema.Type) (schema.Type, error) { return schema.NewAnySchema(), nil })
		} else {
			fn, err = schema.NewCallableFunction("f", decl, declOut, oe, nil, handler)
		}
	})
	if dynamic {
		wit["constructor"] = "dynamic"
		c.Count("variadic_handlers_dynamic")
	}
	c.Count("constructor_calls")
	c.Count("variadic_handlers")
	c.Eval(wk.Hash64("variadic", ft.String()), true)
	if p {
		c.Violation("C18:panic:NewCallableFunction:"+site, fmt.Sprintf("NewCallableFunction panicked for %s: %s", ft, msg), wit)
		return
	}
	if err != nil {
		c.Count("variadic_rejected") // rejecting variadic handlers is a legitimate reading
		return
	}
	c.Count("accepted")
	args := []any{}
	if shape == 1 || shape == 5 {
		args = append(args, elem.sample(0))
	}
	slice := reflect.MakeSlice(sl, 0, 3)
	for i := 0; i < 3; i++ {
		slice = reflect.Append(slice, reflect.ValueOf(elem.sample(i)).Convert(elem.typ))
	}
	args = append(args, slice.Interface())
	var res any
	p, site, msg, _ = wk.Guard(func() { res, err = fn.Call(args) })
	c.Count("calls")
	if p {
		c.Violation("C18:call:panic:variadic:"+site, fmt.Sprintf("accepted variadic handler %s: Call with the declared list argument panicked: %s", ft, msg), wit)
		return
	}
	if err != nil {
		c.Violation("C18:call:spurious-error:variadic", fmt.Sprintf("accepted variadic handler %s: Call failed: %v", ft, err), wit)
		return
	}
	if (declOut != nil || dynamic) && res != int64(3) {
		c.Violation("C18:call:wrong-result:variadic", fmt.Sprintf("accepted variadic handler %s: Call returned %#v, handler saw %d elements", ft, res, seenLen), wit)
	}
	// every other argument count is a call-shape error (one fewer is what Go itself would allow for a variadic
	// function; the declaration has a list there)
	for n := 0; n <= len(args)+2; n++ {
		if n == len(args) {
			continue
		}
		wrong := make([]any, n)
		for i := range wrong {
			if i < len(args) {
				wrong[i] = args[i]
			} else {
				wrong[i] = args[len(args)-1]
			}
		}
		var werr error
		p, site, msg, _ = wk.Guard(func() { _, werr = fn.Call(wrong) })
		c.Count("calls")
		c.Count("variadic_calls_with_a_wrong_count")
		w := map[string]any{"handler": ft.String(), "variadic": true, "nargs": n, "declared": len(args)}
		var fce *schema.FunctionCallError
		if p {
			c.Violation("C18:call:panic:variadic:"+site, fmt.Sprintf("accepted variadic handler %s: Call with %d argument(s) (declared %d) panicked: %s", ft, n, len(args), msg), w)
		} else if werr == nil {
			c.Violation("C18:call:wrong-arg-count-accepted:variadic", fmt.Sprintf("accepted variadic handler %s: Call with %d argument(s) (declared %d) returned no error", ft, n, len(args)), w)
		} else if errors.As(werr, &fce) && fce.IsFunctionReportedError {
			c.Violation("C18:call:shape-error-attributed-to-function:variadic", fmt.Sprintf("wrong argument count reported as function-reported error: %v", werr), w)
		}
	}
}

// c18Concurrent: one function object called from several goroutines at once must hand every caller the result
// of its own arguments (the engine evaluates expressions of parallel steps with the same function objects).
func c18Concurrent(c *wk.Ctx, k int) {
	intS, strS := schema.NewIntSchema(nil, nil, nil), schema.NewStringSchema(nil, nil, nil)
	var fn schema.CallableFunction
	var err error
	dynamic := k%2 == 1
	twoArgs := k/2 == 1
	switch {
	case !dynamic && !twoArgs:
		fn, err = schema.NewCallableFunction("f", []schema.Type{intS}, strS, true, nil, func(a int64) (string, error) { return fmt.Sprint("r", a), nil })
	case !dynamic && twoArgs:
		fn, err = schema.NewCallableFunction("f", []schema.Type{intS, strS}, strS, true, nil, func(a int64, b string) (string, error) { return fmt.Sprint("r", a, b), nil })
	case dynamic && !twoArgs:
		fn, err = schema.NewDynamicCallableFunction("f", []schema.Type{intS}, nil, func(a int64) (any, error) { return fmt.Sprint("r", a), nil },
			func([]schema.Type) (schema.Type, error) { return schema.NewAnySchema(), nil })
	default:
		fn, err = schema.NewDynamicCallableFunction("f", []schema.Type{intS, strS}, nil, func(a int64, b string) (any, error) { return fmt.Sprint("r", a, b), nil },
			func([]schema.Type) (schema.Type, error) { return schema.NewAnySchema(), nil })
	}
	if err != nil {
		c.Violation("C18:static:rejected-but-signature-agrees", fmt.Sprintf("constructor rejected a matching handler: %v", err), map[string]any{"dynamic": dynamic})
		return
	}
	const goroutines, calls = 8, 4000
	var wrong, failed atomic.Int64
	var first atomic.Value
	var wg sync.WaitGroup
	start := make(chan struct{})
	for g := 0; g < goroutines; g++ {
		g := g
		wg.Add(1)
		go func() {
			defer wg.Done()
			defer func() {
				if p := recover(); p != nil {
					failed.Add(1)
					first.CompareAndSwap(nil, fmt.Sprint("panic: ", p))
				}
			}()
			<-start
			for i := 0; i < calls; i++ {
				a, b := int64(g*1000000+i), fmt.Sprint("s", g, "-", i)
				args, want := []any{a}, fmt.Sprint("r", a)
				if twoArgs {
					args, want = []any{a, b}, fmt.Sprint("r", a, b)
				}
				got, err := fn.Call(args)
				if err != nil {
					failed.Add(1)
					first.CompareAndSwap(nil, "error: "+err.Error())
				} else if got != want {
					wrong.Add(1)
					first.CompareAndSwap(nil, fmt.Sprintf("Call(%v) returned %v", args, got))
				}
			}
		}()
	}
	close(start)
	wg.Wait()
	c.CountN("concurrent_calls", goroutines*calls)
	c.Eval(wk.Hash64("concurrent", fmt.Sprint(k)), true)
	if wrong.Load() > 0 || failed.Load() > 0 {
		c.Violation("C18:call:concurrent-callers-mixed-up", fmt.Sprintf("%d of %d concurrent calls on one function object returned another caller's result (%d failed); first: %v", wrong.Load(), goroutines*calls, failed.Load(), first.Load()),
			map[string]any{"dynamic": dynamic, "parameters": map[bool]int{false: 1, true: 2}[twoArgs], "goroutines": goroutines})
	}
}

// c18Reentrant: a handler may call functions itself - its own (recursion) or another one that calls back. The
// calls are made on the case's own goroutine: a call that never returns ends as the driver's hang / blocked
// verdict for this case. k: 0 static recursion, 1 dynamic recursion, 2 static mutual recursion, 3 a handler that
// calls a different function twice.
func c18Reentrant(c *wk.Ctx, k int) {
	intS := schema.NewIntSchema(nil, nil, nil)
	anyT := func([]schema.Type) (schema.Type, error) { return schema.NewAnySchema(), nil }
	var f, g schema.CallableFunction
	var err, err2 error
	asInt := func(v any, e error) int64 {
		if e != nil {
			panic(fmt.Sprint("inner call failed: ", e))
		}
		n, ok := v.(int64)
		if !ok {
			panic(fmt.Sprintf("inner call returned %T(%v)", v, v))
		}
		return n
	}
	switch k {
	case 0:
		f, err = schema.NewCallableFunction("sum", []schema.Type{intS}, intS, true, nil, func(n int64) (int64, error) {
			if n <= 0 {
				return 0, nil
			}
			return n + asInt(f.Call([]any{n - 1})), nil
		})
	case 1:
		f, err = schema.NewDynamicCallableFunction("sum", []schema.Type{intS}, nil, func(n int64) (any, error) {
			if n <= 0 {
				return int64(0), nil
			}
			return n + asInt(f.Call([]any{n - 1})), nil
		}, anyT)
	case 2:
		f, err = schema.NewCallableFunction("sum", []schema.Type{intS}, intS, true, nil, func(n int64) (int64, error) {
			if n <= 0 {
				return 0, nil
			}
			return n + asInt(g.Call([]any{n - 1})), nil
		})
		g, err2 = schema.NewCallableFunction("sum2", []schema.Type{intS}, intS, false, nil, func(n int64) int64 {
			if n <= 0 {
				return 0
			}
			return n + asInt(f.Call([]any{n - 1}))
		})
	default:
		g, err2 = schema.NewCallableFunction("half", []schema.Type{intS}, intS, false, nil, func(n int64) int64 { return n / 2 })
		f, err = schema.NewCallableFunction("sum", []schema.Type{intS}, intS, true, nil, func(n int64) (int64, error) {
			return asInt(g.Call([]any{n})) + asInt(g.Call([]any{n + 1})), nil
		})
	}
	wit := map[string]any{"kind": []string{"static recursion", "dynamic recursion", "mutual recursion", "nested calls of another function"}[k]}
	if err != nil || err2 != nil {
		c.Violation("C18:static:rejected-but-signature-agrees", fmt.Sprintf("constructor rejected a matching handler: %v %v", err, err2), wit)
		return
	}
	for _, n := range []int64{0, 1, 2, 7, 40} {
		want := n * (n + 1) / 2
		if k == 3 {
			want = n/2 + (n+1)/2
		}
		var got any
		var cerr error
		c.Note(fmt.Sprintf("re-entrant Call kind=%d n=%d", k, n))
		p, site, msg, _ := wk.Guard(func() { got, cerr = f.Call([]any{n}) })
		c.CountN("reentrant_calls", 1)
		c.Eval(wk.Hash64("reentrant", fmt.Sprint(k, n)), true)
		wit["n"] = n
		switch {
		case p:
			c.Violation("C18:call:panic:reentrant:"+site, "a Call made from inside a handler panicked: "+msg, wit)
			return
		case cerr != nil:
			c.Violation("C18:call:reentrant-call-failed", fmt.Sprintf("a handler that calls a function itself: Call(%d) failed: %v", n, cerr), wit)
			return
		case got != want:
			c.Violation("C18:call:result-differs:reentrant", fmt.Sprintf("Call(%d) returned %v (%T), the handler returned %d", n, got, got, want), wit)
			return
		}
	}
}

func init() { register("C18", runC18) }
