package props

import (
	"context"
	"encoding/json"
	"fmt"
	"os"
	"os/exec"
	"sort"
	"strings"
	"sync"
	"sync/atomic"
	"time"

	"github.com/fxamacker/cbor/v2"
	"go.flow.arcalot.io/pluginsdk/schema"

	"verif/internal/cmpx"
	"verif/internal/gen"
	"verif/internal/ref"
	"verif/internal/wk"
)

// A c13Op is one call on a schema instance, reduced to a comparable outcome.
type c13Op struct {
	name string
	run  func(inst any) string
}

func c13Outcome(f func() (any, error)) string {
	var v any
	var err error
	if p, site, msg, _ := wk.Guard(func() { v, err = f() }); p {
		return "panic:" + site + ":" + msg
	}
	if err != nil {
		return "error"
	}
	return "ok:" + cmpx.Canon(v)
}

// c13Race uses `raced` (an instance nothing has touched yet) from g goroutines at once and compares every
// outcome with what the twin instance `isolated` returned for the same call in a sequential run.
func c13Race(c *wk.Ctx, r *wk.Rand, kind, descr string, ops []c13Op, isolated, raced any, g int) {
	expect := make([]string, len(ops))
	stable := make([]bool, len(ops))
	for i, op := range ops {
		expect[i] = op.run(isolated)
	}
	nstable := 0
	for i, op := range ops {
		stable[i] = op.run(isolated) == expect[i] && !strings.HasPrefix(expect[i], "panic:")
		if stable[i] {
			nstable++
		} else {
			c.Count("ops_not_deterministic_in_isolation")
		}
	}
	if nstable == 0 {
		return
	}
	orders := make([][]int, g)
	for k := range orders {
		o := make([]int, len(ops))
		for i := range o {
			o[i] = i
		}
		for i := len(o) - 1; i > 0; i-- {
			j := r.Intn(i + 1)
			o[i], o[j] = o[j], o[i]
		}
		if len(o) > 24 {
			o = o[:24]
		}
		orders[k] = o
	}
	got := make([][]string, g)
	var ready, wg sync.WaitGroup
	start := make(chan struct{})
	for k := 0; k < g; k++ {
		k := k
		got[k] = make([]string, len(orders[k]))
		ready.Add(1)
		wg.Add(1)
		go func() {
			defer wg.Done()
			ready.Done()
			<-start
			for n, i := range orders[k] {
				got[k][n] = ops[i].run(raced)
			}
		}()
	}
	ready.Wait()
	c.Note(kind + " x" + fmt.Sprint(g))
	close(start)
	wg.Wait()
	c.Count("trials:" + kind)
	c.Count("racing_goroutines:" + fmt.Sprintf("%02d", g))
	first := map[string]bool{}
	for k := range orders {
		first[ops[orders[k][0]].name] = true
	}
	c.Count(fmt.Sprintf("distinct_first_operations:%d", len(first)))
	for k := range orders {
		for n, i := range orders[k] {
			c.Count("concurrent_calls")
			if !stable[i] {
				continue
			}
			if got[k][n] != expect[i] {
				opClass := ops[i].name
				if j := strings.IndexByte(opClass, '#'); j >= 0 {
					opClass = opClass[:j]
				}
				c.Violation("C13:differs-from-isolated:"+kind+":"+opClass, fmt.Sprintf("%s returned something else under %d-way concurrent first use than in isolation", ops[i].name, g),
					map[string]any{"schema": clipStr(descr, 1500), "operation": ops[i].name, "isolated": clipStr(expect[i], 800), "concurrent": clipStr(got[k][n], 800), "goroutines": g, "diff": diffOf(expect[i], got[k][n])})
				return
			}
		}
	}
	c.Eval(wk.Hash64(kind, descr, fmt.Sprint(g), fmt.Sprint(orders[0])), true)
	names := make([]string, 0, len(orders[0]))
	for _, i := range orders[0] {
		names = append(names, ops[i].name)
	}
	c.Sample(kind, map[string]any{"instance": clipStr(descr, 400), "goroutines": g, "calls_of_goroutine_0_in_order": names})
}

func c13TypeOps(r *wk.Rand, shape *gen.Shape, env *gen.Env, twin schema.Type) []c13Op {
	var ops []c13Op
	var raws []any
	for i := 0; i < 4; i++ {
		if raw, ok := gen.ValidRaw(r, shape, env, 0); ok {
			raws = append(raws, gen.Represent(r, gen.CopyRaw(raw), shape, env, 0))
			if i < 2 {
				pv, _ := gen.Perturb(r, gen.CopyRaw(raw))
				raws = append(raws, pv)
			}
			if dv, ok := gen.DropKey(r, gen.CopyRaw(raw)); ok && i == 0 {
				raws = append(raws, dv)
			}
		}
	}
	raws = append(raws, map[string]any{})
	for i, raw := range raws {
		raw := raw
		ops = append(ops, c13Op{fmt.Sprintf("Unserialize+Validate+Serialize#%d", i), func(inst any) string {
			t := inst.(schema.Type)
			return c13Outcome(func() (any, error) {
				v, err := t.Unserialize(cmpx.DeepCopy(raw))
				if err != nil {
					return nil, err
				}
				verr := t.Validate(v)
				s, serr := t.Serialize(v)
				return []any{v, verr == nil, s, serr == nil}, nil
			})
		}})
		ops = append(ops, c13Op{fmt.Sprintf("ValidateCompatibility(data)#%d", i), func(inst any) string {
			t := inst.(schema.Type)
			return c13Outcome(func() (any, error) { return nil, t.ValidateCompatibility(cmpx.DeepCopy(raw)) })
		}})
	}
	ops = append(ops, c13Op{"ValidateCompatibility(self)", func(inst any) string {
		t := inst.(schema.Type)
		return c13Outcome(func() (any, error) { return nil, t.ValidateCompatibility(t) })
	}})
	if twin != nil {
		ops = append(ops, c13Op{"ValidateCompatibility(twin)", func(inst any) string {
			t := inst.(schema.Type)
			return c13Outcome(func() (any, error) { return nil, t.ValidateCompatibility(twin) })
		}})
	}
	ops = append(ops, c13Op{"SelfSerialize", func(inst any) string {
		sc, ok := inst.(*schema.ScopeSchema)
		if !ok {
			return "n/a"
		}
		return c13Outcome(func() (any, error) { return sc.SelfSerialize() })
	}})
	ops = append(ops, c13Op{"GetDefaults", func(inst any) string {
		sc, ok := inst.(*schema.ScopeSchema)
		if !ok {
			return "n/a"
		}
		return c13Outcome(func() (any, error) {
			out := map[string]any{}
			for id, o := range sc.Objects() {
				out[id] = o.GetDefaults()
			}
			return out, nil
		})
	}})
	return ops
}

func runC13(c *wk.Ctx) {
	c.Meta("rule", "per trial two equal instances are made: one is used sequentially (what each call returns in isolation, evaluated twice - calls that are not deterministic in isolation are not compared), the other is touched for the first time by 2..16 goroutines released together, each issuing the calls in its own shuffled order (so different first-use paths collide). Instances: (a) generated shapes (units, defaults, struct-mapped objects, references, one-ofs) built through the constructors with freshly constructed unit definitions; (b) scopes rebuilt from their description by UnserializeScope (cold default caches); (c) generated plugins: CallStep / CallSignal on the CallableSchema with same and different run IDs; (d) plugin schemas rebuilt by UnserializeSchema; (e) the package-level unit definitions and meta-schemas, each trial in a child process of its own whose very first SDK calls are the racing ones. Calls: Unserialize -> Validate -> Serialize chains, ValidateCompatibility with data, with the schema itself and with a twin, SelfSerialize, GetDefaults, Parse*/Format* of units, UnserializeScope / UnserializeSchema / Describe*(). Oracle: every concurrent outcome (canonical value or error / panic) equals the isolated one; the race variant is the same workload built with -race, every report is a violation keyed by the two SDK functions. distinct = hash(kind, shape, goroutines, order); non-trivial = all Directed: 16 goroutines inside one any-typed property with values nested 1..40 levels (constructor-built and rebuilt), each outcome compared with a twin used by one goroutine.")
	c.Meta("assumptions", []string{"error values are compared by presence only (messages may legitimately depend on map iteration order)",
		"ValidateCompatibility between distinct instances is skipped for recursive shapes (C15 known finding)"})
	c.Floor("concurrent_calls", 20000)
	c.Floor("trials:fresh-built", 40)
	c.Floor("trials:rebuilt-from-description", 30)
	c.Floor("trials:callable-plugin", 20)
	c.Floor("trials:received-plugin-schema", 10)
	c.Floor("trials:package-globals(child process)", 16)
	n := c.N(640, 16000)
	if c.Variant == "race" {
		n = c.N(480, 8000)
	}
	env := &gen.Env{}
	if c.Mine(0) {
		c.Begin(0, "valid and invalid struct values validated by 8 goroutines")
		c13MixedVerdicts(c)
	}
	if c.Mine(1) {
		c.Begin(1, "nested values under an any-typed property, many goroutines at once")
		c13DeepAny(c)
	}
	c.Cases(n, func(idx int64, r *wk.Rand) {
		g := 2 + r.Intn(15)
		switch idx % 10 {
		case 0, 1, 2, 3:
			cfg := gen.Full()
			cfg.GoodDefaults = true
			var shape *gen.Shape
			if tricky := gen.DescribableTrickyShapes(); idx/10 < int64(len(tricky)) && idx%10 == 0 {
				shape = tricky[idx/10]
			} else if r.Intn(4) == 0 {
				shape = gen.GenObjectStandalone(r, cfg)
			} else {
				shape = gen.GenScope(r, cfg)
			}
			build := func() (t schema.Type, ok bool) {
				p, _, _, _ := wk.Guard(func() { t = gen.BuildWith(shape, gen.BuildOpts{FreshUnits: true}) })
				return t, !p
			}
			a, ok1 := build()
			b, ok2 := build()
			if !ok1 || !ok2 {
				c.Count("misbuilt_schemas")
				return
			}
			var twin schema.Type
			if !isRecursive(shape) {
				twin, _ = build()
			}
			c13Race(c, r, "fresh-built", shape.Describe(), c13TypeOps(r, shape, env, twin), a, b, g)
		case 4, 5, 6:
			cfg := gen.Full()
			cfg.GoodDefaults, cfg.Describable, cfg.TypedEnum, cfg.NilDisplay = true, true, false, false
			shape := gen.GenScope(r, cfg)
			t, ok, _ := buildGuarded(shape)
			if !ok {
				c.Count("misbuilt_schemas")
				return
			}
			var desc any
			var err error
			if p, _, _, _ := wk.Guard(func() { desc, err = t.(*schema.ScopeSchema).SelfSerialize() }); p || err != nil {
				c.Count("not_describable")
				return
			}
			rebuild := func() (s *schema.ScopeSchema) {
				if p, _, _, _ := wk.Guard(func() { s, err = schema.UnserializeScope(cmpx.DeepCopy(desc)) }); p || err != nil {
					return nil
				}
				return s
			}
			a, b := rebuild(), rebuild()
			if a == nil || b == nil {
				c.Count("description_not_loadable")
				return
			}
			var twin schema.Type
			if !isRecursive(shape) {
				if tw := rebuild(); tw != nil {
					twin = tw
				}
			}
			c13Race(c, r, "rebuilt-from-description", shape.Describe(), c13TypeOps(r, shape, env, twin), schema.Type(a), schema.Type(b), g)
		case 7:
			c13Plugin(c, r, env, idx, g)
		case 8:
			c13ReceivedPlugin(c, r, env, g)
		case 9:
			if idx%20 == 9 || !c.Quick() {
				c13Globals(c, r, idx, g)
			}
		}
	})
}

// c13Plugin races CallStep / CallSignal on a callable schema.
func c13Plugin(c *wk.Ctx, r *wk.Rand, env *gen.Env, idx int64, g int) {
	r2 := *r
	a := c11BuildPlugin(r)
	b := c11BuildPlugin(&r2)
	ctx := context.Background()
	var ops []c13Op
	var runCtr atomic.Int64
	var runsOnRaced sync.Map // (step, run ID) pairs used on the raced instance
	for _, stepID := range a.stepIDs() {
		stepID := stepID
		oid := sortedKeys(a.outShape[stepID])[0]
		var outData any = map[string]any{}
		if raw, ok := gen.ValidRaw(r, a.outShape[stepID][oid], env, 0); ok {
			if v, err := a.schema.StepsValue[stepID].Outputs()[oid].Schema().Unserialize(gen.CopyRaw(raw)); err == nil {
				outData = v
			}
		}
		a.behaviour[stepID].set(oid, outData)
		b.behaviour[stepID].set(oid, outData)
		for i := 0; i < 3; i++ {
			raw, ok := gen.ValidRaw(r, a.inShape[stepID], env, 0)
			if !ok {
				continue
			}
			in := gen.Represent(r, gen.CopyRaw(raw), a.inShape[stepID], env, 0)
			if i == 2 {
				in, _ = gen.Perturb(r, gen.CopyRaw(raw))
			}
			sharedRun := fmt.Sprintf("shared-%d-%d", idx, i)
			for _, shared := range []bool{false, true} {
				shared := shared
				ops = append(ops, c13Op{fmt.Sprintf("CallStep(%s,shared run=%v)#%d", stepID, shared, i), func(inst any) string {
					p := inst.(*c11Plugin)
					run := sharedRun
					if !shared {
						run = fmt.Sprintf("run-%d-%d", idx, runCtr.Add(1))
					}
					if p == b {
						runsOnRaced.Store(stepID+"/"+run, true)
					}
					return c13Outcome(func() (any, error) {
						id, data, err := p.schema.CallStep(ctx, run, stepID, cmpx.DeepCopy(in))
						return []any{id, data}, err
					})
				}})
			}
		}
		for _, sigID := range sortedKeys(a.sigShape[stepID]) {
			sigID := sigID
			raw, ok := gen.ValidRaw(r, a.sigShape[stepID][sigID], env, 0)
			if !ok {
				continue
			}
			ops = append(ops, c13Op{fmt.Sprintf("CallSignal(%s,%s)", stepID, sigID), func(inst any) string {
				p := inst.(*c11Plugin)
				if p == b {
					runsOnRaced.Store(stepID+"/"+fmt.Sprintf("shared-%d-0", idx), true)
				}
				return c13Outcome(func() (any, error) {
					return nil, p.schema.CallSignal(ctx, fmt.Sprintf("shared-%d-0", idx), stepID, sigID, cmpx.DeepCopy(raw))
				})
			}})
		}
	}
	ops = append(ops, c13Op{"SelfSerialize", func(inst any) string {
		return c13Outcome(func() (any, error) { return inst.(*c11Plugin).schema.SelfSerialize() })
	}})
	c13Race(c, r, "callable-plugin", fmt.Sprint(a.stepIDs()), ops, a, b, g)
	// step calls share state per run ID: in isolation every run ID gets exactly one step-data object
	nruns := int64(0)
	runsOnRaced.Range(func(_, _ any) bool { nruns++; return true })
	if got := b.rec.inits.Load(); got > nruns {
		c.Violation("C13:differs-from-isolated:callable-plugin:initializer-count", fmt.Sprintf("%d (step, run ID) pairs were used concurrently but the per-run initialiser ran %d times (once per run ID in isolation)", nruns, got),
			map[string]any{"goroutines": g})
	}
	// a signal handler that hands a value to its running step (both arrival orders): step and signal calls of one
	// run must be able to run side by side
	for k := 0; k < 4; k++ {
		if !c11Rendezvous(c, "C13", b, ctx, fmt.Sprintf("rdv-%d-%d", idx, k), k%2 == 0, nil) {
			return
		}
	}
	// first use of one run ID by all goroutines at once, repeatedly
	stepID := b.stepIDs()[0]
	var firstOps []func(run string)
	if raw, ok := gen.ValidRaw(r, b.inShape[stepID], env, 0); ok {
		firstOps = append(firstOps, func(run string) { _, _, _ = b.schema.CallStep(ctx, run, stepID, cmpx.DeepCopy(raw)) })
	}
	for _, sigID := range sortedKeys(b.sigShape[stepID]) {
		sigID := sigID
		if raw, ok := gen.ValidRaw(r, b.sigShape[stepID][sigID], env, 0); ok {
			firstOps = append(firstOps, func(run string) { _ = b.schema.CallSignal(ctx, run, stepID, sigID, cmpx.DeepCopy(raw)) })
		}
	}
	for round := 0; round < 24 && len(firstOps) > 0; round++ {
		run := fmt.Sprintf("first-%d-%d", idx, round)
		before := b.rec.inits.Load()
		var wg sync.WaitGroup
		start := make(chan struct{})
		for k := 0; k < g; k++ {
			f := firstOps[(k+round)%len(firstOps)]
			wg.Add(1)
			go func() {
				defer wg.Done()
				defer func() { _ = recover() }()
				<-start
				f(run)
			}()
		}
		close(start)
		wg.Wait()
		c.Count("same_run_first_use_rounds")
		if got := b.rec.inits.Load() - before; got > 1 {
			c.Violation("C13:differs-from-isolated:callable-plugin:initializer-count", fmt.Sprintf("%d goroutines used one new run ID at once and the per-run initialiser ran %d times (once in isolation)", g, got),
				map[string]any{"goroutines": g})
			return
		}
	}
}

// c13ReceivedPlugin races the schemas of a plugin schema as a client receives it.
func c13ReceivedPlugin(c *wk.Ctx, r *wk.Rand, env *gen.Env, g int) {
	p := c11BuildPlugin(r)
	var desc any
	var err error
	if pn, _, _, _ := wk.Guard(func() { desc, err = p.schema.SelfSerialize() }); pn || err != nil {
		c.Count("not_describable")
		return
	}
	if desc, err = gen.ViaCBOR(desc); err != nil {
		return
	}
	rebuild := func() (s *schema.SchemaSchema) {
		if pn, _, _, _ := wk.Guard(func() { s, err = schema.UnserializeSchema(cmpx.DeepCopy(desc)) }); pn || err != nil {
			return nil
		}
		return s
	}
	a, b := rebuild(), rebuild()
	if a == nil || b == nil {
		c.Count("description_not_loadable")
		return
	}
	var ops []c13Op
	scopeOps := func(label string, shape *gen.Shape, get func(s *schema.SchemaSchema) schema.Type) {
		for _, op := range c13TypeOps(r, shape, env, nil) {
			op := op
			ops = append(ops, c13Op{label + " " + op.name, func(inst any) string { return op.run(get(inst.(*schema.SchemaSchema))) }})
		}
	}
	for _, stepID := range p.stepIDs() {
		stepID := stepID
		scopeOps(stepID+" input", p.inShape[stepID], func(s *schema.SchemaSchema) schema.Type { return s.Steps()[stepID].Input() })
		for _, oid := range sortedKeys(p.outShape[stepID]) {
			oid := oid
			scopeOps(stepID+" output "+oid, p.outShape[stepID][oid], func(s *schema.SchemaSchema) schema.Type { return s.Steps()[stepID].Outputs()[oid].Schema() })
		}
		for _, sid := range sortedKeys(p.sigShape[stepID]) {
			sid := sid
			scopeOps(stepID+" signal "+sid, p.sigShape[stepID][sid], func(s *schema.SchemaSchema) schema.Type {
				return s.Steps()[stepID].SignalHandlers()[sid].DataSchema()
			})
		}
	}
	ops = append(ops, c13Op{"SchemaSchema.SelfSerialize", func(inst any) string {
		return c13Outcome(func() (any, error) { return inst.(*schema.SchemaSchema).SelfSerialize() })
	}})
	c13Race(c, r, "received-plugin-schema", fmt.Sprint(p.stepIDs()), ops, a, b, g)
}

// ---- package-level values: one child process per trial ------------------------

type c13GlobalSpec struct {
	Seed       uint64 `json:"seed"`
	Idx        int64  `json:"idx"`
	Goroutines int    `json:"goroutines"`
	DescFile   string `json:"desc_file"`
	Sequential bool   `json:"sequential"`
}

var c13UnitGlobals = []struct {
	name string
	u    *schema.UnitsDefinition
}{{"UnitBytes", schema.UnitBytes}, {"UnitDurationNanoseconds", schema.UnitDurationNanoseconds}, {"UnitDurationSeconds", schema.UnitDurationSeconds},
	{"UnitCharacters", schema.UnitCharacters}, {"UnitPercentage", schema.UnitPercentage}}

// c13GlobalOps is a pure function of (seed, idx, descriptions): parent and child derive the same list.
func c13GlobalOps(spec c13GlobalSpec, descs []any) []c13Op {
	r := wk.NewRand(spec.Seed, "C13-globals", spec.Idx)
	var ops []c13Op
	for _, ug := range c13UnitGlobals {
		ug := ug
		short := ug.u.BaseUnit().NameShortSingular()
		for i := 0; i < 2; i++ {
			n := int64(r.Intn(1 << 20))
			txt := fmt.Sprintf("%d%s", r.Intn(1000), short)
			ops = append(ops, c13Op{fmt.Sprintf("%s.ParseInt#%d", ug.name, i), func(any) string {
				return c13Outcome(func() (any, error) { return ug.u.ParseInt(txt) })
			}})
			ops = append(ops, c13Op{fmt.Sprintf("%s.ParseFloat#%d", ug.name, i), func(any) string {
				return c13Outcome(func() (any, error) { return ug.u.ParseFloat(txt) })
			}})
			// strings that are not unit strings take the error path (which lists the valid units)
			bad := wk.Pick(r, []string{"12 zorks", "x", "5 5 5", "1..2", "-"})
			ops = append(ops, c13Op{fmt.Sprintf("%s.ParseInt(malformed)#%d", ug.name, i), func(any) string {
				return c13Outcome(func() (any, error) { return ug.u.ParseInt(bad) })
			}})
			ops = append(ops, c13Op{fmt.Sprintf("%s.ParseFloat(malformed)#%d", ug.name, i), func(any) string {
				return c13Outcome(func() (any, error) { return ug.u.ParseFloat(bad) })
			}})
			ops = append(ops, c13Op{fmt.Sprintf("%s.FormatShortInt#%d", ug.name, i), func(any) string {
				return c13Outcome(func() (any, error) { return ug.u.FormatShortInt(n), nil })
			}})
			ops = append(ops, c13Op{fmt.Sprintf("%s.FormatLongInt#%d", ug.name, i), func(any) string {
				return c13Outcome(func() (any, error) { return ug.u.FormatLongInt(n), nil })
			}})
		}
	}
	for i, d := range descs {
		d := d
		ops = append(ops, c13Op{fmt.Sprintf("UnserializeScope+SelfSerialize#%d", i), func(any) string {
			return c13Outcome(func() (any, error) {
				s, err := schema.UnserializeScope(cmpx.DeepCopy(d))
				if err != nil {
					return nil, err
				}
				return s.SelfSerialize()
			})
		}})
		ops = append(ops, c13Op{fmt.Sprintf("DescribeScope().ValidateCompatibility(data)#%d", i), func(any) string {
			return c13Outcome(func() (any, error) { return nil, schema.DescribeScope().ValidateCompatibility(cmpx.DeepCopy(d)) })
		}})
	}
	// conversions that consult package-level tables (boolean words in every spelling, ...)
	boolS, intS, strS := schema.NewBoolSchema(), schema.NewIntSchema(nil, nil, nil), schema.NewStringSchema(nil, nil, nil)
	for _, w := range []string{"True", "YES", "oFf", "No", "ENABLED", "Disabled", "On", "FALSE", "y", "N", "Yes", "tRuE", "true", "0", "Enable", "DISABLE"} {
		w := w
		ops = append(ops, c13Op{"BoolSchema.Unserialize#" + w, func(any) string {
			return c13Outcome(func() (any, error) { return boolS.Unserialize(w) })
		}})
	}
	for i, v := range []any{"12", uint64(7), 3.0, "0x10", int8(-4)} {
		v := v
		ops = append(ops, c13Op{fmt.Sprintf("IntSchema.Unserialize#%d", i), func(any) string {
			return c13Outcome(func() (any, error) { return intS.Unserialize(v) })
		}})
		ops = append(ops, c13Op{fmt.Sprintf("StringSchema.Unserialize#%d", i), func(any) string {
			return c13Outcome(func() (any, error) { return strS.Unserialize(v) })
		}})
	}
	ops = append(ops, c13Op{"DescribeScope().SelfSerialize", func(any) string {
		return c13Outcome(func() (any, error) { return schema.DescribeScope().SelfSerialize() })
	}})
	ops = append(ops, c13Op{"DescribeSchema().SelfSerialize", func(any) string {
		return c13Outcome(func() (any, error) { return schema.DescribeSchema().SelfSerialize() })
	}})
	ops = append(ops, c13Op{"DescribeStepOutput().ValidateCompatibility(self)", func(any) string {
		return c13Outcome(func() (any, error) {
			return nil, schema.DescribeStepOutput().ValidateCompatibility(schema.DescribeStepOutput())
		})
	}})
	ops = append(ops, c13Op{"UnserializeSchema(garbage)", func(any) string {
		return c13Outcome(func() (any, error) { return schema.UnserializeSchema(map[string]any{"steps": map[string]any{}}) })
	}})
	return ops
}

func c13LoadDescs(path string) []any {
	b, err := os.ReadFile(path)
	if err != nil {
		panic(err)
	}
	var out []any
	if err := cbor.Unmarshal(b, &out); err != nil {
		panic(err)
	}
	return out
}

// C13Child is the whole life of a child process: decode the spec, then use the package-level values for the
// first time from spec.Goroutines goroutines at once (or from one, when spec.Sequential), print the outcomes.
func C13Child(specJSON string) {
	var spec c13GlobalSpec
	if err := json.Unmarshal([]byte(specJSON), &spec); err != nil {
		panic(err)
	}
	descs := c13LoadDescs(spec.DescFile)
	ops := c13GlobalOps(spec, descs)
	g := spec.Goroutines
	if spec.Sequential {
		g = 1
	}
	r := wk.NewRand(spec.Seed, "C13-child-order", spec.Idx)
	results := make([]map[string]string, g)
	var ready, wg sync.WaitGroup
	start := make(chan struct{})
	for k := 0; k < g; k++ {
		k := k
		order := make([]int, len(ops))
		for i := range order {
			order[i] = i
		}
		if !spec.Sequential {
			for i := len(order) - 1; i > 0; i-- {
				j := r.Intn(i + 1)
				order[i], order[j] = order[j], order[i]
			}
		}
		results[k] = map[string]string{}
		ready.Add(1)
		wg.Add(1)
		go func() {
			defer wg.Done()
			ready.Done()
			<-start
			for _, i := range order {
				results[k][ops[i].name] = ops[i].run(nil)
			}
		}()
	}
	ready.Wait()
	close(start)
	wg.Wait()
	out, _ := json.Marshal(results)
	fmt.Printf("C13CHILD-RESULT %s\n", out)
}

func c13Globals(c *wk.Ctx, r *wk.Rand, idx int64, g int) {
	// descriptions for the child, produced here (the child must not warm anything up itself)
	cfg := gen.Full()
	cfg.GoodDefaults, cfg.Describable, cfg.TypedEnum, cfg.NilDisplay = true, true, false, false
	var descs []any
	for len(descs) < 3 {
		shape := gen.GenScope(r, cfg)
		t, ok, _ := buildGuarded(shape)
		if !ok {
			continue
		}
		var d any
		var err error
		if p, _, _, _ := wk.Guard(func() { d, err = t.(*schema.ScopeSchema).SelfSerialize() }); p || err != nil {
			continue
		}
		if d, err = gen.ViaCBOR(d); err == nil {
			descs = append(descs, d)
		}
	}
	descFile := fmt.Sprintf("%s.c13desc.%d", c.OutPrefix, idx)
	b, err := cbor.Marshal(descs)
	if err != nil {
		c.Inconclusive("cannot encode descriptions: " + err.Error())
		return
	}
	if err := os.WriteFile(descFile, b, 0o644); err != nil {
		c.Inconclusive("cannot write descriptions: " + err.Error())
		return
	}
	defer os.Remove(descFile)
	descs = c13LoadDescs(descFile)
	spec := c13GlobalSpec{Seed: c.Seed, Idx: idx, Goroutines: g, DescFile: descFile}
	child := func(sequential bool) ([]map[string]string, string, bool) {
		spec.Sequential = sequential
		sj, _ := json.Marshal(spec)
		exe, _ := os.Executable()
		cmd := exec.Command(exe)
		var env []string
		for _, e := range os.Environ() {
			if !strings.HasPrefix(e, "GORACE=") && !strings.HasPrefix(e, "VERIF_C13_CHILD=") {
				env = append(env, e)
			}
		}
		cmd.Env = append(env, "VERIF_C13_CHILD="+string(sj), fmt.Sprintf("GORACE=halt_on_error=0 log_path=%s.race.child%d", c.OutPrefix, idx))
		done := make(chan struct{})
		var outB []byte
		var runErr error
		go func() { outB, runErr = cmd.CombinedOutput(); close(done) }()
		select {
		case <-done:
		case <-time.After(120 * time.Second):
			_ = cmd.Process.Kill()
			<-done
			return nil, "watchdog", false
		}
		out := string(outB)
		i := strings.Index(out, "C13CHILD-RESULT ")
		if i < 0 {
			return nil, fmt.Sprintf("%v: %s", runErr, out), false
		}
		line := out[i+len("C13CHILD-RESULT "):]
		if j := strings.IndexByte(line, '\n'); j >= 0 {
			line = line[:j]
		}
		var res []map[string]string
		if err := json.Unmarshal([]byte(line), &res); err != nil {
			return nil, err.Error(), false
		}
		return res, "", true
	}
	c.Note("package globals, child process")
	iso, msg, ok := child(true)
	if !ok {
		c.Inconclusive("sequential child process failed: " + clipStr(msg, 300))
		return
	}
	iso2, _, ok2 := child(true)
	conc, msg, ok := child(false)
	if !ok {
		if msg == "watchdog" {
			c.Inconclusive("racing child process did not finish within the wall-clock watchdog")
			return
		}
		site := fatalSiteOf(msg)
		c.Violation("C13:globals:child-died:"+site, "the process that used the package-level values concurrently for the first time died",
			map[string]any{"goroutines": g, "output": clipStr(msg, 4000)})
		return
	}
	c.Count("trials:package-globals(child process)")
	c.Count("racing_goroutines:" + fmt.Sprintf("%02d", g))
	names := make([]string, 0, len(iso[0]))
	for k := range iso[0] {
		names = append(names, k)
	}
	sort.Strings(names)
	for _, res := range conc {
		for _, name := range names {
			c.Count("concurrent_calls")
			if ok2 && iso2[0][name] != iso[0][name] {
				c.Count("ops_not_deterministic_in_isolation")
				continue
			}
			if res[name] != iso[0][name] {
				opClass := name
				if j := strings.IndexByte(opClass, '#'); j >= 0 {
					opClass = opClass[:j]
				}
				c.Violation("C13:differs-from-isolated:package-globals:"+opClass, fmt.Sprintf("%s on a package-level value returned something else under %d-way concurrent first use (fresh process) than in a fresh sequential process", name, g),
					map[string]any{"operation": name, "isolated": clipStr(iso[0][name], 800), "concurrent": clipStr(res[name], 800), "goroutines": g})
				return
			}
		}
	}
	c.Eval(wk.Hash64("globals", fmt.Sprint(idx), fmt.Sprint(g)), true)
}

func fatalSiteOf(out string) string {
	for _, ln := range strings.Split(out, "\n") {
		if strings.HasPrefix(ln, "fatal error: ") || strings.HasPrefix(ln, "panic: ") {
			return clipStr(ln, 80)
		}
	}
	return "unknown"
}

func init() { register("C13", runC13) }

// c13MixedVerdicts: one struct-mapped object with presence rules; 8 goroutines validate and serialize values that
// must be accepted and values that must be rejected (a field out of bounds, a broken rule), all mixed. What a call
// returns in isolation is stated by the reference interpreter here, not by an earlier call of the same process, so
// state that leaks from one call into the next shows even if it also leaks into "isolated" calls.
func c13MixedVerdicts(c *wk.Ctx) {
	intT := func() *gen.Shape { return &gen.Shape{Kind: gen.KInt, Min: p64(0), Max: p64(100)} }
	shape := &gen.Shape{Kind: gen.KObject, ID: "Mixed", Struct: "P10", Props: []*gen.Prop{
		{Name: "a", T: intT(), ReqIfNot: []string{"b"}},
		{Name: "b", T: intT(), Conflicts: []string{"c"}},
		{Name: "c", T: intT()}}}
	env := &gen.Env{}
	t, ok, _ := buildGuarded(shape)
	if !ok {
		c.Violation("C13:directed-shape-not-built", "the hand-written struct-mapped object could not be built", nil)
		return
	}
	i64 := func(v int64) *int64 { return &v }
	natives := []gen.P10{
		{A: i64(1)}, {B: i64(2)}, {A: i64(1), B: i64(2)}, {A: i64(1), C: i64(3)}, {}, {C: i64(3)}, {B: i64(2), C: i64(3)},
		{A: i64(101), B: i64(2)}, {A: i64(1), B: i64(101)}, {A: i64(101), C: i64(3)}, {B: i64(2), C: i64(101)}, {A: i64(-1), B: i64(2), C: i64(3)}}
	want := make([]bool, len(natives))
	for i, n := range natives {
		want[i] = ref.Check(shape, ref.Normalize(shape, n, env), env) == ""
	}
	const G, rounds = 8, 4000
	var ready, wrong atomic.Int32
	var first atomic.Value
	var wg sync.WaitGroup
	for g := 0; g < G; g++ {
		wg.Add(1)
		go func(g int) {
			defer wg.Done()
			defer func() {
				if p := recover(); p != nil {
					wrong.Add(1)
					first.CompareAndSwap(nil, fmt.Sprintf("panic: %v", p))
				}
			}()
			ready.Add(1)
			for ready.Load() < G {
			}
			for k := 0; k < rounds; k++ {
				i := (k*7 + g*5) % len(natives)
				verr := t.Validate(natives[i])
				_, serr := t.Serialize(natives[i])
				if (verr == nil) != want[i] || (serr == nil) != want[i] {
					wrong.Add(1)
					first.CompareAndSwap(nil, fmt.Sprintf("value #%d %s: must be accepted: %v; Validate: %v; Serialize: %v", i, cmpx.Canon(natives[i]), want[i], verr, serr))
				}
			}
		}(g)
	}
	wg.Wait()
	c.Count("mixed_verdict_rounds")
	c.CountN("concurrent_calls", int64(2*G*rounds))
	c.Eval(wk.Hash64("mixed-verdicts"), true)
	if wrong.Load() > 0 {
		c.Violation("C13:differs-from-isolated:mixed-valid-and-invalid-struct-values", fmt.Sprintf("%d of %d concurrent Validate / Serialize calls on one struct-mapped object returned another verdict than the value has; first: %v", wrong.Load(), 2*G*rounds, first.Load()),
			map[string]any{"schema": shape.Describe()})
	}
}

// c13DeepAny: one scope with an any-typed property (constructor-built and rebuilt from its description); 16
// goroutines unserialize, validate and serialize values nested 1..40 levels deep (lists in maps in lists), all at
// once and for a while, so that many calls are inside the same schema object at the same time. Every outcome is what
// the same call gives on a twin used by one goroutine.
func c13DeepAny(c *wk.Ctx) {
	build := func(rebuilt bool) schema.Type {
		s := schema.NewScopeSchema(schema.NewObjectSchema("Doc", map[string]*schema.PropertySchema{
			"body": schema.NewPropertySchema(schema.NewAnySchema(), nil, false, nil, nil, nil, nil, nil),
			"n":    schema.NewPropertySchema(schema.NewIntSchema(nil, nil, nil), nil, false, nil, nil, nil, nil, nil)}))
		if rebuilt {
			if rb, err := rebuildScope(s); err == nil {
				return rb
			}
		}
		return s
	}
	nest := func(depth int, leaf any) any {
		v := leaf
		for d := 0; d < depth; d++ {
			if d%2 == 0 {
				v = map[string]any{"k": v, "w": int64(d)}
			} else {
				v = []any{v, "x"}
			}
		}
		return map[string]any{"body": v, "n": int64(depth)}
	}
	var inputs []any
	for _, d := range []int{1, 2, 5, 12, 20, 30, 40} {
		inputs = append(inputs, nest(d, int64(7)), nest(d, "leaf"), nest(d, struct{ X int }{1})) // the last one is rejected
	}
	for _, rebuilt := range []bool{false, true} {
		kind := map[bool]string{false: "fresh-built", true: "rebuilt-from-description"}[rebuilt]
		twin, raced := build(rebuilt), build(rebuilt)
		call := func(t schema.Type, i, op int) string {
			return c13Outcome(func() (any, error) {
				switch op {
				case 0:
					return t.Unserialize(gen.CopyRaw(inputs[i]))
				case 1:
					return nil, t.Validate(gen.CopyRaw(inputs[i]))
				}
				return t.Serialize(gen.CopyRaw(inputs[i]))
			})
		}
		expect := make([][3]string, len(inputs))
		for i := range inputs {
			for op := 0; op < 3; op++ {
				expect[i][op] = call(twin, i, op)
			}
		}
		const G, rounds = 16, 300
		var ready, wrong atomic.Int32
		var first atomic.Value
		var wg sync.WaitGroup
		for g := 0; g < G; g++ {
			wg.Add(1)
			go func(g int) {
				defer wg.Done()
				ready.Add(1)
				for ready.Load() < G {
				}
				for k := 0; k < rounds; k++ {
					i, op := (k*5+g*3)%len(inputs), (k+g)%3
					if got := call(raced, i, op); got != expect[i][op] {
						wrong.Add(1)
						first.CompareAndSwap(nil, fmt.Sprintf("%s of input #%d (nesting %d): isolated %s, concurrent %s", []string{"Unserialize", "Validate", "Serialize"}[op], i, []int{1, 2, 5, 12, 20, 30, 40}[i/3], clipStr(expect[i][op], 200), clipStr(got, 200)))
					}
				}
			}(g)
		}
		wg.Wait()
		c.CountN("concurrent_calls", G*rounds)
		c.Count("trials:deep-any-values")
		c.Eval(wk.Hash64("deep-any", kind), true)
		if wrong.Load() > 0 {
			c.Violation("C13:differs-from-isolated:"+kind+":deep-any-values", fmt.Sprintf("%d of %d calls on values nested under an any-typed property returned something else with 16 goroutines inside the same schema than in isolation; first: %v", wrong.Load(), G*rounds, first.Load()),
				map[string]any{"schema": "Doc{body: any, n: int}", "goroutines": G, "first": first.Load()})
		}
	}
}
