package props

import (
	"errors"
	"fmt"
	"sort"
	"strings"

	"go.flow.arcalot.io/pluginsdk/schema"

	"verif/internal/cmpx"
	"verif/internal/gen"
	"verif/internal/ref"
	"verif/internal/wk"
)

type c17Site struct {
	path    []string // property names, list indices, map keys from the root
	chain   []string // kinds of the containers on the way (for the coverage matrix)
	kind    string   // corruption kind
	apply   func()   // performs the corruption on the raw tree
	keyName string   // for undeclared keys: the key that the message must name
	native  bool     // the corrupted tree is still in native form (usable with Validate)
}

func c17Sites(r *wk.Rand, s *gen.Shape, raw any, env *gen.Env, path, chain []string, set func(any), depth int) []c17Site {
	if depth > 12 {
		return nil
	}
	var out []c17Site
	cp := func(p []string, more ...string) []string { return append(append([]string{}, p...), more...) }
	leaf := func(kind string, v any, native bool) {
		out = append(out, c17Site{path: cp(path), chain: cp(chain), kind: kind, apply: func() { set(v) }, native: native})
	}
	switch s.Kind {
	case gen.KRef:
		o, oenv := env.Resolve(s)
		if o != nil {
			return c17Sites(r, o, raw, oenv, path, cp(chain, "ref"), set, depth+1)
		}
	case gen.KScope:
		for _, o := range s.Objects {
			if o.ID == s.Root {
				return c17Sites(r, o, raw, env.Push(s), path, cp(chain, "scope"), set, depth+1)
			}
		}
	case gen.KAny:
		// free-form data: a value that "any" cannot hold (nil, a struct), below keys that are long (and share a long
		// prefix with a sibling), below integer keys, below list indices - the path names each of them as written
		longKey, sibling := strings.Repeat("k", 70)+"-tail", strings.Repeat("k", 70)+"-other"
		anySite := func(v any, more ...string) {
			out = append(out, c17Site{path: cp(path, more...), chain: cp(chain, "any"), kind: "unsupported-in-any", apply: func() { set(v) }})
		}
		anySite(map[string]any{sibling: int64(1), longKey: []any{int64(1), nil}}, longKey, "1")
		anySite(map[any]any{int64(8443): struct{}{}, int64(1): "x"}, "8443")
		anySite([]any{"a", map[string]any{"k": nil}}, "1", "k")
		anySite(map[string]any{"outer": map[any]any{int64(-7): []any{nil}}}, "outer", "-7", "0")
		anySite(map[string]any{"big": []any{int64(1), uint64(1) << 63}}, "big", "1") // a number "any" cannot hold
	case gen.KInt:
		leaf("wrong-type", "not-a-number", true)
		leaf("wrong-type", []any{}, true)
		if s.Min != nil && *s.Min > -1<<62 {
			leaf("below-min", *s.Min-1, true)
		}
		if s.Max != nil && *s.Max < 1<<62 {
			leaf("above-max", *s.Max+1, true)
		}
	case gen.KFloat:
		leaf("wrong-type", "x.y", true)
		if s.FMin != nil && *s.FMin > -1e300 {
			leaf("below-min", *s.FMin-1, true)
		}
		if s.FMax != nil && *s.FMax < 1e300 {
			leaf("above-max", *s.FMax+1, true)
		}
	case gen.KString:
		leaf("wrong-type", []any{"a"}, true)
		leaf("wrong-type", map[string]any{}, true)
		if s.Max != nil && *s.Max >= 0 && *s.Max < 40 {
			leaf("above-max", strings.Repeat("a", int(*s.Max)+1), true)
		}
		if s.Min != nil && *s.Min >= 1 && *s.Min < 40 {
			leaf("below-min", strings.Repeat("a", int(*s.Min)-1), true)
		}
		if s.Pattern != "" {
			for _, cand := range []string{"", "A!", "zz9zz"} {
				if ref.Check(s, cand, env) != "" && (s.Min == nil || int64(len(cand)) >= *s.Min) && (s.Max == nil || int64(len(cand)) <= *s.Max) {
					leaf("pattern-miss", cand, true)
					break
				}
			}
		}
	case gen.KBool:
		leaf("wrong-type", "maybe", true)
		leaf("wrong-type", []any{}, true)
	case gen.KIntEnum:
		leaf("not-in-enum", int64(987654), true)
		leaf("wrong-type", "zzz", true)
	case gen.KStrEnum:
		leaf("not-in-enum", "not-a-member", true)
		leaf("wrong-type", []any{}, true)
	case gen.KList:
		l, ok := raw.([]any)
		if !ok {
			return nil
		}
		leaf("wrong-type", "not-a-list", true)
		if s.Max != nil && *s.Max < 20 && len(l) > 0 {
			big := append([]any{}, l...)
			for int64(len(big)) <= *s.Max {
				big = append(big, gen.CopyRaw(l[0]))
			}
			leaf("above-max", big, true)
		}
		if s.Min != nil && *s.Min >= 1 && int64(len(l)) >= *s.Min {
			leaf("below-min", append([]any{}, l[:*s.Min-1]...), true)
		}
		for i := range l {
			i := i
			out = append(out, c17Sites(r, s.Items, l[i], env, cp(path, fmt.Sprint(i)), cp(chain, "list"), func(v any) { l[i] = v }, depth+1)...)
		}
	case gen.KMap:
		m, ok := raw.(map[any]any)
		if !ok {
			return nil
		}
		leaf("wrong-type", "not-a-map", true)
		keys := make([]any, 0, len(m))
		for k := range m {
			keys = append(keys, k)
		}
		sort.Slice(keys, func(i, j int) bool { return fmt.Sprint(keys[i]) < fmt.Sprint(keys[j]) })
		for _, k := range keys {
			k := k
			out = append(out, c17Sites(r, s.Vals, m[k], env, cp(path, fmt.Sprint(k)), cp(chain, "map"), func(nv any) { m[k] = nv }, depth+1)...)
		}
		// keys as the input writes them: an integer key given as a zero-padded decimal string is still that
		// entry's key, and a corrupted value below it is found under the key as written
		if ks, kenv := s.Keys, env; ks != nil && ks.Kind == gen.KInt && ks.Units == "" {
			_ = kenv
			for _, k := range keys {
				k := k
				ki, isInt := k.(int64)
				if !isInt || ki < 0 || ki > 99 {
					continue
				}
				alt := fmt.Sprintf("%03d", ki)
				rekey := func() {
					v := m[k]
					delete(m, k)
					m[alt] = v
				}
				for _, st := range c17Sites(r, s.Vals, m[k], env, cp(path, alt), cp(chain, "map"), func(nv any) { m[alt] = nv }, depth+1) {
					st := st
					inner := st.apply
					st.apply = func() { rekey(); inner() }
					st.native = false
					st.kind += "(key written 007-style)"
					out = append(out, st)
				}
				break
			}
		}
		// a string key with characters that error texts like to quote or escape
		if ks := s.Keys; ks != nil && ks.Kind == gen.KString {
			for _, alt := range []string{"o'brien", "a \"quoted\" key", "back\\slash"} {
				alt := alt
				if ref.Check(ks, alt, env) != "" || len(keys) == 0 {
					continue
				}
				if _, exists := m[alt]; exists {
					continue
				}
				k := keys[0]
				rekey := func() {
					v := m[k]
					delete(m, k)
					m[alt] = v
				}
				for _, st := range c17Sites(r, s.Vals, m[k], env, cp(path, alt), cp(chain, "map"), func(nv any) { m[alt] = nv }, depth+1) {
					st := st
					inner := st.apply
					st.apply = func() { rekey(); inner() }
					st.kind += "(key with quote characters)"
					out = append(out, st)
				}
				break
			}
		}
		if ks, kenv := s.Keys, env; ks != nil && ks.Kind == gen.KInt && ks.Units == "" {
			_ = kenv
			// a key that is no integer at all
			if s.Max == nil || int64(len(m)) < *s.Max {
				var val any
				have := false
				for _, k := range keys {
					val, have = gen.CopyRaw(m[k]), true
					break
				}
				if !have {
					val, have = gen.ValidRaw(r, s.Vals, env, 0)
				}
				if have {
					out = append(out, c17Site{path: cp(path, "abc"), chain: cp(chain, "map"), kind: "bad-key", apply: func() { m["abc"] = val }, native: false})
				}
			}
		}
	case gen.KObject:
		m, ok := raw.(map[string]any)
		if !ok || s.Struct != "" {
			return nil
		}
		leaf("wrong-type", "not-an-object", len(s.Props) != 1)
		out = append(out, c17Site{path: cp(path), chain: cp(chain), kind: "extra-key", keyName: "undeclared_zz", apply: func() { m["undeclared_zz"] = int64(1) }, native: true})
		if len(path) > 0 {
			// the same with a key that is not a string (what a CBOR or YAML decoder delivers for `8080:`)
			out = append(out, c17Site{path: cp(path), chain: cp(chain), kind: "extra-key(not a string)", keyName: "8080", apply: func() {
				am := map[any]any{}
				for k, v := range m {
					am[k] = v
				}
				am[int64(8080)] = int64(1)
				set(am)
			}})
		}
		// presence rules: remove or add one property so that exactly one rule of exactly one property is violated
		setOf := func(mm map[string]any) map[string]bool {
			set := map[string]bool{}
			for _, p := range s.Props {
				if _, has := mm[p.Name]; has || p.Default != nil {
					set[p.Name] = true
				}
			}
			return set
		}
		nativeSetOf := func(mm map[string]any) map[string]bool {
			set := map[string]bool{}
			for k := range mm {
				set[k] = true
			}
			return set
		}
		violators := func(set map[string]bool) []string {
			var out []string
			for _, p := range s.Props {
				one := &gen.Shape{Kind: gen.KObject, Props: []*gen.Prop{p}}
				if ref.PresenceViolation(one, set) != "" {
					out = append(out, p.Name)
				}
			}
			return out
		}
		for _, p := range s.Props {
			p := p
			if _, has := m[p.Name]; has && p.Default == nil && !p.Required && (len(p.ReqIf) > 0 || len(p.ReqIfNot) > 0) {
				trial := setOf(m)
				delete(trial, p.Name)
				ntrial := nativeSetOf(m)
				delete(ntrial, p.Name)
				nv := violators(ntrial)
				if v := violators(trial); len(v) == 1 && v[0] == p.Name {
					out = append(out, c17Site{path: cp(path, p.Name), chain: cp(chain), kind: "presence-rule-violated", apply: func() { delete(m, p.Name) }, native: len(nv) == 1 && nv[0] == p.Name})
				}
			}
			if _, has := m[p.Name]; has && len(p.Conflicts) > 0 {
				for _, qn := range p.Conflicts {
					q := s.Prop(qn)
					if q == nil || q.Disabled {
						continue
					}
					if _, qhas := m[qn]; qhas || q.Default != nil {
						continue
					}
					qv, ok := gen.ValidRaw(r, q.T, env, depth+1)
					if !ok || ref.Denote(q.T, qv, env).V != ref.Accept {
						continue
					}
					trial := setOf(m)
					trial[qn] = true
					ntrial := nativeSetOf(m)
					ntrial[qn] = true
					nv := violators(ntrial)
					if v := violators(trial); len(v) == 1 && v[0] == p.Name {
						qn := qn
						out = append(out, c17Site{path: cp(path, p.Name), chain: cp(chain), kind: "presence-rule-violated", apply: func() { m[qn] = qv }, native: len(nv) == 1 && nv[0] == p.Name})
					}
					break
				}
			}
		}
		for _, p := range s.Props {
			p := p
			v, has := m[p.Name]
			trialSet := setOf(m)
			delete(trialSet, p.Name)
			ntrialSet := nativeSetOf(m)
			delete(ntrialSet, p.Name)
			nvv := violators(ntrialSet)
			if vv := violators(trialSet); has && p.Required && p.Default == nil && len(vv) == 1 && vv[0] == p.Name {
				out = append(out, c17Site{path: cp(path, p.Name), chain: cp(chain), kind: "missing-required", apply: func() { delete(m, p.Name) }, native: len(nvv) == 1 && nvv[0] == p.Name})
			}
			if has {
				out = append(out, c17Sites(r, p.T, v, env, cp(path, p.Name), cp(chain, "object"), func(nv any) { m[p.Name] = nv }, depth+1)...)
			}
		}
	case gen.KOneOfStr, gen.KOneOfInt:
		m, ok := raw.(map[string]any)
		if !ok {
			return nil
		}
		if len(path) > 0 {
			// the value of the one-of as a whole: null, a scalar, a list
			leaf("wrong-type", nil, false)
			leaf("wrong-type", "not-a-map", false)
			leaf("wrong-type", []any{}, false)
		}
		for _, mem := range s.Members {
			if (s.Kind == gen.KOneOfStr && m[s.Disc] == mem.KeyS) || (s.Kind == gen.KOneOfInt && m[s.Disc] == mem.KeyI) {
				o, oenv := derefObj(mem.T, env)
				if o == nil || o.Struct != "" {
					return nil
				}
				for _, p := range o.Props {
					p := p
					if v, has := m[p.Name]; has && (p.Name != s.Disc) {
						out = append(out, c17Sites(r, p.T, v, oenv, cp(path, p.Name), cp(chain, "one-of"), func(nv any) { m[p.Name] = nv }, depth+1)...)
					}
				}
			}
		}
	}
	return out
}

func derefObj(t *gen.Shape, env *gen.Env) (*gen.Shape, *gen.Env) {
	for i := 0; i < 8 && t != nil; i++ {
		switch t.Kind {
		case gen.KRef:
			t, env = env.Resolve(t)
		case gen.KScope:
			var root *gen.Shape
			for _, o := range t.Objects {
				if o.ID == t.Root {
					root = o
				}
			}
			env = env.Push(t)
			t = root
		default:
			return t, env
		}
	}
	return t, env
}

// normPath strips the decoration of SDK path segments and drops one-of markers.
func normPath(p []string) []string {
	var out []string
	for _, seg := range p {
		if strings.HasPrefix(seg, "{oneof[") {
			continue
		}
		if len(seg) >= 2 && ((seg[0] == '[' && seg[len(seg)-1] == ']') || (seg[0] == '{' && seg[len(seg)-1] == '}')) {
			seg = seg[1 : len(seg)-1]
		}
		out = append(out, seg)
	}
	return out
}

func runC17(c *wk.Ctx) {
	c.Meta("rule", "generated nested schemas (map-based objects, lists, maps with string/int keys, one-of, references and scopes, scalars with bounds, patterns, enums) with a valid input; every leaf / list / map / object / required property on the way is corrupted ONE AT A TIME with each applicable corruption (wrong type, below min, above max, pattern miss, not in enum, undeclared key, missing required property, violated required_if / required_if_not / conflicts rule) - the injector knows the path by construction. The corrupted input must be must-reject for the reference interpreter (else the case is skipped). Oracle: errors.As(err, *ConstraintError) and its Path, with one-of marker segments removed and [..]/{..} decoration stripped, equals the injector's path; for an undeclared key the path of the containing object and the key named in the message. Both Unserialize (raw) and Validate (native-form trees). Map entries are also addressed by a key written differently from its canonical form (007 for 7) and a key of the wrong type is injected: the path names the key as the input writes it. Struct-mapped values: see assumptions. distinct = hash(schema, path, corruption); non-trivial = path length >= 1 Every judged rejection is evaluated a second time on the same value and must name the same element. Directed: a recursive Node{children, byName} with the offending leaf 3..120 levels down (paths of up to 240 segments).")
	c.Meta("assumptions", []string{"struct-mapped objects: one case in five unserializes a valid input of a struct-mapped schema, breaks one scalar leaf of the Go value (through structs, pointers, slices, maps, interfaces) and demands that Validate names it by property IDs; Unserialize-side injection stays on map-based schemas",
		"a presence-rule violation is injected only where exactly one property's rule is violated afterwards (otherwise the reported property is not unique)"})
	c.Floor("injections", 3000)
	c.Floor("op:Unserialize", 1000)
	c.Floor("op:Validate", 1000)
	n := c.N(12000, 2400000)
	c.Cases(n, func(idx int64, r *wk.Rand) {
		if idx == 9 {
			c17StructMissing(c)
			return
		}
		if idx == 14 {
			c17NarrowFields(c)
			return
		}
		if idx == 19 {
			c17ForeignRefs(c)
			return
		}
		if idx == 24 {
			c17DeepPaths(c)
			return
		}
		if idx%5 == 4 {
			c17StructCase(c, r, idx)
			return
		}
		cfg := gen.Full()
		cfg.TypedVariants = true
		cfg.Structs, cfg.TypedEnum, cfg.Disabled, cfg.WeirdBounds, cfg.EmptyDef = false, false, false, false, false
		cfg.NoPatternProps, cfg.GoodDefaults = true, true
		var shape *gen.Shape
		if r.Chance(70) {
			shape = gen.GenScope(r, cfg)
		} else {
			shape = gen.GenType(r, cfg)
		}
		t, ok, _ := buildGuarded(shape)
		if !ok {
			c.Count("misbuilt_schemas")
			return
		}
		env := &gen.Env{}
		descr := shape.Describe()
		raw, ok := gen.ValidRaw(r, shape, env, 0)
		if !ok {
			return
		}
		// the base input must be accepted - by the reference and by the SDK - before anything is injected
		if res := ref.Denote(shape, raw, env); res.V != ref.Accept {
			c.Count("skipped:base-not-must-accept")
			return
		}
		var baseErr error
		if p, _, _, _ := wk.Guard(func() { _, baseErr = t.Unserialize(gen.CopyRaw(raw)) }); p || baseErr != nil {
			c.Count("skipped:base-rejected-by-sdk")
			return
		}
		// Validate applies no defaults: the base value must also be valid as it stands in native form
		nativeOK := false
		if p, _, _, _ := wk.Guard(func() { nativeOK = t.Validate(gen.CopyRaw(raw)) == nil }); p {
			nativeOK = false
		}
		// enumerate the sites on a scratch copy, then apply each one to a fresh copy
		probe := gen.CopyRaw(raw)
		var rootHolder any = probe
		nsites := len(c17Sites(r, shape, probe, env, nil, nil, func(v any) { rootHolder = v }, 0))
		_ = rootHolder
		for si := 0; si < nsites; si++ {
			work := gen.CopyRaw(raw)
			var root any = work
			sites := c17Sites(wk.NewRand(c.Seed, "C17-sites", idx), shape, work, env, nil, nil, func(v any) { root = v }, 0)
			if si >= len(sites) {
				break
			}
			site := sites[si]
			site.apply()
			if res := ref.Denote(shape, root, env); res.V != ref.Reject {
				c.Count("skipped:not-must-reject")
				continue
			}
			c17Judge(c, t, descr, root, site, "Unserialize", func() error { _, err := t.Unserialize(root); return err })
			if site.native && nativeOK {
				hasAny := false
				shape.Walk(func(s *gen.Shape) {
					if s.Kind == gen.KPattern || s.Kind == gen.KAny {
						hasAny = true
					}
				})
				if !hasAny {
					c17Judge(c, t, descr, root, site, "Validate", func() error { return t.Validate(root) })
				}
			}
		}
		if idx < 3 {
			c.Sample("schema", descr)
		}
	})
}

func c17Judge(c *wk.Ctx, t schema.Type, descr string, root any, site c17Site, op string, call func() error) {
	var err error
	c.Note(op + " corrupted " + site.kind)
	chain := strings.Join(site.chain, ">")
	if chain == "" {
		chain = "root"
	}
	wit := map[string]any{"schema": clipStr(descr, 1200), "input": clipStr(cmpx.Canon(root), 700), "corruption": site.kind, "injected_at": site.path, "containers": chain, "operation": op}
	if p, s2, msg, _ := wk.Guard(func() { err = call() }); p {
		c.Violation("C17:panic:"+op+":"+s2, op+" panicked: "+msg, wit)
		return
	}
	c.Count("injections")
	c.Count("op:" + op)
	c.Count("matrix:" + site.kind + "@" + lastOr(site.chain, "root"))
	c.Eval(wk.Hash64(descr, strings.Join(site.path, "/"), site.kind, op), len(site.path) >= 1)
	if err == nil {
		if op == "Validate" {
			c.Count("validate-accepted-corrupted") // acceptance is C02/C03's business (e.g. raw-form tolerance of Validate)
		}
		return
	}
	wit["error"] = err.Error()
	var ce *schema.ConstraintError
	if errors.As(err, &ce) {
		// reading the error must not change it: render it again and look at the path before and after
		before := strings.Join(ce.Path, "\x00")
		again := err.Error()
		if again != wit["error"] || strings.Join(ce.Path, "\x00") != before {
			c.Violation("C17:error-changes-when-rendered:"+op, fmt.Sprintf("%s: rendering the error twice gives %q and then %q (path %v)", op, wit["error"], again, ce.Path), wit)
			return
		}
	}
	if !errors.As(err, &ce) {
		c.Violation("C17:not-a-constraint-error:"+op+":"+site.kind, fmt.Sprintf("%s rejected the value (corruption %s at %v) with an error that is not a ConstraintError, so it carries no path: %v", op, site.kind, site.path, err), wit)
		return
	}
	got := normPath(ce.Path)
	wit["path"] = ce.Path
	if strings.Join(got, "\x00") != strings.Join(site.path, "\x00") {
		c.Violation("C17:wrong-path:"+op+":"+site.kind+"@"+lastOr(site.chain, "root"), fmt.Sprintf("%s: corruption %s injected at %v, but the error path is %v: %v", op, site.kind, site.path, ce.Path, err), wit)
		return
	}
	if site.keyName != "" && !strings.Contains(err.Error(), site.keyName) {
		c.Violation("C17:undeclared-key-not-named:"+op, fmt.Sprintf("%s: the message for an undeclared key does not name it: %v", op, err), wit)
		return
	}
	// a second look at the value that was just rejected names the same element
	var err2 error
	if p, s2, msg, _ := wk.Guard(func() { err2 = call() }); p {
		c.Violation("C17:panic:"+op+":"+s2, op+" panicked when the rejected value was looked at again: "+msg, wit)
		return
	}
	c.Count("second_looks")
	var ce2 *schema.ConstraintError
	if err2 == nil || !errors.As(err2, &ce2) || strings.Join(normPath(ce2.Path), "\x00") != strings.Join(site.path, "\x00") {
		wit["second_error"] = fmt.Sprint(err2)
		c.Violation("C17:second-look-differs:"+op+":"+site.kind, fmt.Sprintf("%s: the first rejection names %v, the same call on the same value again gives: %v", op, ce.Path, err2), wit)
	}
}

func lastOr(s []string, def string) string {
	if len(s) == 0 {
		return def
	}
	return s[len(s)-1]
}

func init() { register("C17", runC17) }
