// Package props holds one workload + oracle per property.
package props

import "verif/internal/wk"

var Registry = map[string]func(c *wk.Ctx){}

func register(id string, f func(c *wk.Ctx)) { Registry[id] = f }
