package props

import (
	"context"
	"fmt"
	"runtime/debug"
	"sort"
	"strings"
	"sync/atomic"
	"time"

	"github.com/fxamacker/cbor/v2"
	"go.flow.arcalot.io/pluginsdk/atp"

	"verif/internal/rig"
	"verif/internal/wk"
)

// ---- script grammar -------------------------------------------------------

type c07Item struct {
	kind  string // start | workstart | signal | done | unknown-msg | malformed:<what> | garbage:<what>
	bytes []byte
	run   string
	step  string
	gated bool
}

func mustCBOR(v any) []byte {
	b, err := cbor.Marshal(v)
	if err != nil {
		panic(err)
	}
	return b
}

func c07WorkStart(run, step string, config any) []byte {
	return mustCBOR(map[string]any{"id": uint32(1), "run_id": run, "data": map[string]any{"id": step, "config": config}})
}

func c07Signal(run, sig string, data any) []byte {
	return mustCBOR(map[string]any{"id": uint32(3), "run_id": run, "data": map[string]any{"signal_id": sig, "data": data}})
}

func genC07Script(r *wk.Rand, tag string) []c07Item {
	var items []c07Item
	if r.Chance(92) {
		items = append(items, c07Item{kind: "start", bytes: mustCBOR(nil)})
	} else {
		items = append(items, c07Item{kind: "start", bytes: mustCBOR(wk.Pick(r, []any{int64(7), "hello", map[string]any{"x": 1}, []any{1}}))})
	}
	n := 1 + r.Intn(6)
	var runs []string
	nrun := 0
	for i := 0; i < n; i++ {
		switch k := r.Intn(20); {
		case k < 9: // work start
			run := fmt.Sprintf("%s-%d", tag, nrun)
			nrun++
			if len(runs) > 0 && r.Chance(10) {
				run = wk.Pick(r, runs) // duplicate run ID
			} else if r.Chance(8) {
				// an ID is an opaque string: one with blanks around it is that ID, not its trimmed form
				run = wk.Pick(r, []string{" ", "\n", "\t", ""}) + run + wk.Pick(r, []string{" ", "\n", "\r\n", "  "})
			}
			step := wk.Pick(r, []string{"echo", "echo", "echo2", "sig", "sig", "nosuchstep", "chain"})
			mode := wk.Pick(r, []string{"ok", "ok", "ok", "err", "undeclared", "badout", "panic", "gated", "gated", "badpanic", "badundeclared"})
			var cfg any = map[string]any{"nonce": run, "mode": mode, "n": int64(i)}
			if r.Chance(15) {
				cfg = wk.Pick(r, []any{map[string]any{"n": "x"}, "scalar", nil, map[string]any{"nonce": run, "zzz": 1}, []any{}})
				mode = "ok"
			}
			runs = append(runs, run)
			items = append(items, c07Item{kind: "workstart", bytes: c07WorkStart(run, step, cfg), run: run, step: step, gated: mode == "gated" && step != "nosuchstep"})
		case k < 12: // signal
			run := fmt.Sprintf("%s-unstarted", tag)
			if len(runs) > 0 && r.Chance(85) {
				run = wk.Pick(r, runs)
			}
			sig := wk.Pick(r, []string{"record", "record", "record", "nosuchsignal", ""})
			var data any = map[string]any{"v": int64(r.Intn(100))}
			if r.Chance(12) {
				data = map[string]any{"v": int64(rig.SignalPanicValue)} // valid data on which the plugin's handler panics
			} else if r.Chance(25) {
				data = wk.Pick(r, []any{map[string]any{"v": "x"}, nil, int64(3), map[string]any{}})
			}
			items = append(items, c07Item{kind: "signal", bytes: c07Signal(run, sig, data), run: run})
		case k < 13:
			items = append(items, c07Item{kind: "unknown-msg", bytes: mustCBOR(map[string]any{"id": uint32(6 + r.Intn(50)), "run_id": "x", "data": map[string]any{}})})
		case k < 18: // malformed but decodable envelopes
			run := fmt.Sprintf("%s-m%d", tag, i)
			it := c07Malformed(r, r.Intn(c07NMalformed), run, runs)
			if it.kind == "workstart" {
				runs = append(runs, run)
			}
			items = append(items, it)
		default: // bytes that do not decode as a runtime message
			items = append(items, c07Garbage(r, r.Intn(c07NGarbage)))
		}
	}
	if r.Chance(45) {
		items = append(items, c07Item{kind: "done", bytes: mustCBOR(map[string]any{"id": uint32(4), "run_id": "", "data": map[string]any{}})})
		if r.Chance(30) { // traffic after client-done
			run := fmt.Sprintf("%s-late", tag)
			items = append(items, c07Item{kind: "workstart", bytes: c07WorkStart(run, "echo", map[string]any{"nonce": run}), run: run, step: "echo"})
		}
	}
	return items
}

const c07NMalformed = 9
const c07NGarbage = 7

func c07Malformed(r *wk.Rand, what int, run string, runs []string) c07Item {
	var b []byte
	var name string
	switch what {
	case 0:
		name, b = "workstart-missing-run-id", mustCBOR(map[string]any{"id": uint32(1), "data": map[string]any{"id": "echo", "config": map[string]any{"nonce": run}}})
	case 1:
		name, b = "workstart-empty-run-id", mustCBOR(map[string]any{"id": uint32(1), "run_id": "", "data": map[string]any{"id": "echo", "config": map[string]any{"nonce": run}}})
	case 2:
		name, b = "workstart-missing-data", mustCBOR(map[string]any{"id": uint32(1), "run_id": run})
	case 3:
		name, b = "workstart-data-wrong-type", mustCBOR(map[string]any{"id": uint32(1), "run_id": run, "data": wk.Pick(r, []any{int64(5), "str", []any{1, 2}})})
	case 4:
		name, b = "workstart-empty-step-id", mustCBOR(map[string]any{"id": uint32(1), "run_id": run, "data": map[string]any{"id": "", "config": map[string]any{}}})
	case 5:
		name, b = "signal-missing-run-id", mustCBOR(map[string]any{"id": uint32(3), "data": map[string]any{"signal_id": "record", "data": map[string]any{"v": 1}}})
	case 6:
		name, b = "signal-missing-data", mustCBOR(map[string]any{"id": uint32(3), "run_id": wk.Pick(r, append([]string{run}, runs...))})
	case 7:
		name, b = "only-id", mustCBOR(map[string]any{"id": uint32(wk.Pick(r, []int{1, 3}))})
	default:
		b = mustCBOR(map[string]any{"id": uint32(1), "run_id": run, "data": map[string]any{"id": "echo", "config": map[string]any{"nonce": run}, "more": 1}, "zzz": true})
		return c07Item{kind: "workstart", bytes: b, run: run, step: "echo"}
	}
	return c07Item{kind: "malformed:" + name, bytes: b, run: run}
}

func c07Garbage(r *wk.Rand, what int) c07Item {
	var b []byte
	var name string
	switch what {
	case 0:
		name, b = "random-bytes", []byte{0xff, 0xfe, byte(r.Intn(256)), byte(r.Intn(256)), 0x00}
	case 1:
		name, b = "id-wrong-type", mustCBOR(map[string]any{"id": "one", "run_id": "r", "data": nil})
	case 2:
		name, b = "top-level-array", mustCBOR([]any{1, 2, 3})
	case 3:
		name, b = "indefinite-map-unterminated", []byte{0xbf, 0x62, 'i', 'd', 0x01}
	case 4:
		name, b = "huge-length-header", []byte{0x5b, 0x7f, 0xff, 0xff, 0xff, 0xff, 0xff, 0xff, 0xff, 'a', 'b'}
	case 5:
		name, b = "run-id-wrong-type", mustCBOR(map[string]any{"id": uint32(1), "run_id": int64(5), "data": map[string]any{}})
	default:
		name, b = "reserved-additional-info", []byte{0x1c, 0x00}
	}
	return c07Item{kind: "garbage:" + name, bytes: b}
}

// c07Directed are fixed scripts that put every production of the grammar right after a valid,
// possibly still running, work-start (and before another one), so that each (message kind, server
// state) pair is exercised in every run regardless of the seed.
func c07Directed(r *wk.Rand) [][]c07Item {
	var out [][]c07Item
	startItem := c07Item{kind: "start", bytes: mustCBOR(nil)}
	done := c07Item{kind: "done", bytes: mustCBOR(map[string]any{"id": uint32(4), "run_id": "", "data": map[string]any{}})}
	ws := func(run, step, mode string) c07Item {
		return c07Item{kind: "workstart", bytes: c07WorkStart(run, step, map[string]any{"nonce": run, "mode": mode}), run: run, step: step, gated: mode == "gated"}
	}
	n := 0
	wrap := func(mid ...c07Item) {
		n++
		tag := fmt.Sprintf("d%d", n)
		for _, firstMode := range []string{"ok", "gated", "panic", "badpanic"} {
			a := ws(tag+"-a-"+firstMode, "sig", firstMode)
			sc := []c07Item{startItem, a}
			sc = append(sc, mid...)
			sc = append(sc, ws(tag+"-b-"+firstMode, "echo", "ok"))
			out = append(out, sc)
			out = append(out, append(append([]c07Item{}, sc...), done))
		}
	}
	for w := 0; w < c07NMalformed; w++ {
		wrap(c07Malformed(r, w, fmt.Sprintf("dm%d", w), nil))
	}
	for w := 0; w < c07NGarbage; w++ {
		wrap(c07Garbage(r, w))
	}
	for _, sig := range []string{"record", "nosuchsignal", ""} {
		for _, data := range []any{map[string]any{"v": int64(1)}, map[string]any{"v": "x"}, nil, map[string]any{"v": int64(rig.SignalPanicValue)}} {
			n++
			for _, mode := range []string{"ok", "gated"} {
				run := fmt.Sprintf("d%d-s-%s", n, mode)
				out = append(out, []c07Item{startItem, ws(run, "sig", mode), {kind: "signal", bytes: c07Signal(run, sig, data), run: run}, {kind: "signal", bytes: c07Signal(run, sig, data), run: run}})
				out = append(out, []c07Item{startItem, ws(run, "sig", mode), {kind: "signal", bytes: c07Signal(run, sig, data), run: run}, done})
			}
		}
	}
	// a work-start whose input the step refuses, then valid signals for that run ID (the step was never called, so
	// nothing must wait for it to start), then the end - with and without a run that did start in between
	for i, bad := range []any{map[string]any{"n": "x"}, "scalar", nil, map[string]any{"nonce": "r", "zzz": 1}} {
		run := fmt.Sprintf("rej%d", i)
		rej := c07Item{kind: "workstart", bytes: c07WorkStart(run, "sig", bad), run: run, step: "sig"}
		sig := c07Item{kind: "signal", bytes: c07Signal(run, "record", map[string]any{"v": int64(1)}), run: run}
		out = append(out, []c07Item{startItem, rej, sig, done})
		out = append(out, []c07Item{startItem, rej, sig})
		out = append(out, []c07Item{startItem, rej, sig, sig, ws(run+"-ok", "sig", "ok"), sig, done})
		out = append(out, []c07Item{startItem, sig, rej, ws(run+"-g", "echo", "gated"), sig, done})
	}
	// long IDs that are not ASCII: the error reports quote them, and a report is valid text however long it gets
	for shift := 0; shift < 4; shift++ {
		longStep := strings.Repeat("x", shift) + strings.Repeat("ステップ", 140)
		longRun := strings.Repeat("y", shift) + strings.Repeat("名前", 300)
		out = append(out, []c07Item{startItem, {kind: "workstart", bytes: c07WorkStart(fmt.Sprintf("long-step-%d", shift), longStep, map[string]any{"nonce": "n"}), run: fmt.Sprintf("long-step-%d", shift), step: longStep}, done})
		out = append(out, []c07Item{startItem, {kind: "workstart", bytes: c07WorkStart(longRun, "nosuchstep", map[string]any{"nonce": "n"}), run: longRun, step: "nosuchstep"},
			{kind: "signal", bytes: c07Signal(longRun, strings.Repeat("信号", 300), map[string]any{"v": int64(1)}), run: longRun}, done})
	}
	// run IDs that differ only in surrounding white space are different runs; each gets its own terminal message,
	// and a signal reaches the run whose ID it carries
	for i, ids := range [][]string{{"ws\n"}, {" ws"}, {"ws", " ws", "ws ", "\tws\r\n"}, {" ws ", "ws"}} {
		sc := []c07Item{startItem}
		for j, id := range ids {
			sc = append(sc, ws(id, []string{"sig", "echo"}[(i+j)%2], []string{"ok", "gated"}[j%2]))
		}
		for _, id := range ids {
			sc = append(sc, c07Item{kind: "signal", bytes: c07Signal(id, "record", map[string]any{"v": int64(1)}), run: id})
		}
		out = append(out, sc, append(append([]c07Item{}, sc...), done))
	}
	// the "chain" step: a cycle of single-property objects behind a single-property input. Scalars in place of the
	// input (or of a node) travel down the shorthand rule; every one of these runs gets its terminal message
	for i, cfg := range []any{"oops", int64(5), nil, []any{}, true, map[string]any{"list": "oops"}, map[string]any{"list": map[string]any{"next": "oops"}},
		map[string]any{"list": map[string]any{"next": map[string]any{"next": map[string]any{}}}}, map[string]any{"list": map[string]any{}}, map[string]any{}} {
		run := fmt.Sprintf("chain%d", i)
		it := c07Item{kind: "workstart", bytes: c07WorkStart(run, "chain", cfg), run: run, step: "chain"}
		out = append(out, []c07Item{startItem, it, ws(run+"-after", "echo", "ok"), done}, []c07Item{startItem, ws(run+"-before", "sig", "gated"), it})
	}
	// the same run ID twice; unknown message ID; unknown step; many failing steps at once
	out = append(out, []c07Item{startItem, ws("dup", "echo", "ok"), ws("dup", "echo", "ok")})
	out = append(out, []c07Item{startItem, ws("dup2", "echo", "gated"), ws("dup2", "echo2", "gated"), done})
	out = append(out, []c07Item{startItem, ws("u1", "echo", "ok"), {kind: "unknown-msg", bytes: mustCBOR(map[string]any{"id": uint32(77), "run_id": "u1", "data": map[string]any{}})}, ws("u2", "nosuchstep", "ok")})
	var many []c07Item
	many = append(many, startItem)
	for i := 0; i < 8; i++ {
		many = append(many, ws(fmt.Sprintf("p%d", i), "echo", []string{"panic", "undeclared", "badout", "gated", "badpanic", "badundeclared"}[i%6]))
	}
	out = append(out, many, append(append([]c07Item{}, many...), done))
	return out
}

// envelope mirrors what a CBOR decoder needs to accept a runtime message; it
// uses the cbor library only, not the SDK's types.
type c07Envelope struct {
	ID    uint32          `cbor:"id"`
	RunID string          `cbor:"run_id"`
	Data  cbor.RawMessage `cbor:"data"`
}
type c07WS struct {
	StepID string `cbor:"id"`
	Config any    `cbor:"config"`
}

// c07Accepted computes, from the bytes actually delivered to the server, the
// multiset of accepted work-starts (well-formed, non-empty run and step ID,
// fully delivered before the stream ended or became undecodable, before
// client-done).
func c07Accepted(delivered []byte) (accepted map[string]int, order []string, endedBy string) {
	accepted, _, order, endedBy = c07Classify(delivered)
	return
}

// c07Classify additionally returns, per run ID, how many work-start envelopes named it without being
// acceptable (missing / undecodable data, empty step ID): the server may answer those with a
// step-fatal error for that run ID, which is a report, not a duplicate terminal.
func c07Classify(delivered []byte) (accepted, rejectedWS map[string]int, order []string, endedBy string) {
	accepted = map[string]int{}
	rejectedWS = map[string]int{}
	dec := cbor.NewDecoder(strings.NewReader(string(delivered)))
	// first item: the start message, anything decodable
	var first any
	if err := dec.Decode(&first); err != nil {
		return accepted, rejectedWS, nil, "start-message-undecodable"
	}
	for {
		var raw cbor.RawMessage
		if err := dec.Decode(&raw); err != nil {
			return accepted, rejectedWS, order, "end-or-undecodable"
		}
		var env c07Envelope
		if err := cbor.Unmarshal(raw, &env); err != nil {
			return accepted, rejectedWS, order, "envelope-undecodable"
		}
		// which keys were present at all?
		var generic map[string]cbor.RawMessage
		_ = cbor.Unmarshal(raw, &generic)
		switch env.ID {
		case 4:
			return accepted, rejectedWS, order, "client-done"
		case 1:
			_, hasRun := generic["run_id"]
			_, hasData := generic["data"]
			if !hasRun || env.RunID == "" {
				continue
			}
			var ws c07WS
			if !hasData {
				rejectedWS[env.RunID]++
				continue
			}
			if err := cbor.Unmarshal(env.Data, &ws); err != nil || ws.StepID == "" {
				rejectedWS[env.RunID]++
				continue
			}
			accepted[env.RunID]++
			order = append(order, env.RunID)
		}
	}
}

type c07Result struct {
	monitor     rig.MonitorResult
	serverDone  bool
	serverErrs  []*atp.ServerError
	panicMsg    string
	panicStack  string
	delivered   []byte
	output      []byte
	fixture     *rig.Fixture
	baseGID     int64
	outputOpen  bool
	inputClosed bool
}

// runC07Session feeds the bytes to the real RunATPServer. stepwise: one script
// item per quiescence (the server fully digests each message first); otherwise
// everything is available at once. gatesFirst: gated steps are released before
// the input is closed, otherwise after the server has seen the end of input.
func runC07Session(items []c07Item, cut int, stepwise, gatesFirst bool, closeOutputAt int, osFileClose bool) *c07Result {
	res := &c07Result{fixture: rig.NewFixture(), outputOpen: closeOutputAt < 0}
	c2s := rig.NewPipe("c2s", rig.ModeBuffered, nil)
	s2c := rig.NewPipe("s2c", rig.ModeBuffered, nil)
	// a plugin's server runs on os.Stdin / os.Stdout: closing them twice is an error there
	c2s.OSFileClose, s2c.OSFileClose = osFileClose, osFileClose
	var all []byte
	var bounds []int
	for _, it := range items {
		all = append(all, it.bytes...)
		bounds = append(bounds, len(all))
	}
	if cut >= 0 && cut < len(all) {
		all = all[:cut]
	}
	res.delivered = all
	var done atomic.Int32
	res.baseGID = rig.TakeSnapshot().MaxGID()
	ctx, cancel := context.WithCancel(context.Background())
	defer cancel()
	go func() {
		defer done.Add(1)
		defer func() {
			if p := recover(); p != nil {
				res.panicMsg = fmt.Sprint(p)
				res.panicStack = string(debug.Stack())
			}
		}()
		res.serverErrs = atp.RunATPServer(ctx, rig.ReadEnd{P: c2s}, rig.WriteEnd{P: s2c}, res.fixture.Schema)
		res.serverDone = true
	}()
	sent := 0
	nextItem := 0
	action := 0
	send := func(upto int) {
		if upto > len(all) {
			upto = len(all)
		}
		if upto > sent {
			_, _ = c2s.Write(all[sent:upto])
			sent = upto
		}
	}
	closeInput := func() {
		if !res.inputClosed {
			send(len(all))
			_ = c2s.CloseWrite()
			res.inputClosed = true
		}
	}
	if !stepwise {
		send(len(all))
		nextItem = len(items)
	}
	onQ := func(_ *rig.Snapshot, _ rig.Verdict) bool {
		action++
		if closeOutputAt >= 0 && action > closeOutputAt {
			_ = s2c.CloseRead()
			closeOutputAt = -1
			return true
		}
		if nextItem < len(items) {
			upto := bounds[nextItem]
			nextItem++
			if sent < len(all) {
				send(upto)
				return true
			}
		}
		waiting := res.fixture.Gate.Waiting()
		if gatesFirst && len(waiting) > 0 {
			res.fixture.Gate.Open(waiting[0])
			return true
		}
		if !res.inputClosed {
			closeInput()
			return true
		}
		if len(waiting) > 0 {
			res.fixture.Gate.Open(waiting[0])
			return true
		}
		return false
	}
	res.monitor = rig.Monitor(func() bool { return done.Load() == 1 }, onQ, 20*time.Second)
	rig.Y.Disarm()
	res.output, _ = s2c.Tap()
	if res.monitor.Outcome != "done" {
		_ = c2s.CloseRead()
		_ = c2s.CloseWrite()
		_ = s2c.CloseRead()
		res.fixture.Gate.OpenAll()
		rig.Settle(300 * time.Millisecond)
	}
	return res
}

func c07Judge(c *wk.Ctx, res *c07Result, wit map[string]any) {
	switch res.monitor.Outcome {
	case "inconclusive":
		c.Inconclusive(fmt.Sprintf("%v: watchdog fired; running: %v", wit["script"], res.monitor.Verdict.RunningDescr) + snapSummary(res.monitor.Snap))
		return
	case "deadlock":
		var blocked []string
		seen := map[string]bool{}
		for _, g := range res.monitor.Snap.BlockedIn("pluginsdk/", res.baseGID) {
			f := g.State + "@" + shortFrame(g)
			if !seen[f] {
				seen[f] = true
				blocked = append(blocked, f)
			}
		}
		sort.Strings(blocked)
		wit["blocked"] = res.monitor.Snap.Summary()
		wit["goroutines"] = clipStr(res.monitor.Snap.Raw, 10000)
		c.Violation("C07:deadlock:"+strings.Join(blocked, "|"), "input has ended and every gated step was released, but RunATPServer never returns: all goroutines are blocked, no timer pending", wit)
		return
	}
	if res.panicMsg != "" {
		wit["stack"] = clipStr(res.panicStack, 5000)
		c.Violation("C07:panic:"+panicSiteFromStack(res.panicStack), "RunATPServer panicked: "+res.panicMsg, wit)
		return
	}
	// offline check of the output stream
	msgs, _, err := rig.SplitStream(res.output)
	if err != nil {
		c.Violation("C07:output-framing", fmt.Sprintf("server output is not a sequence of CBOR items: %v", err), wit)
		return
	}
	c.CountN("tapped_output_messages", int64(len(msgs)))
	accepted, rejectedWS, _, endedBy := c07Classify(res.delivered)
	c.Count("input-ended-by:" + endedBy)
	terminal := map[string]int{}
	for i, m := range msgs {
		if i == 0 {
			if _, ok := rig.Field(m.Value, "version"); ok {
				continue // hello
			}
		}
		rm := rig.AsRuntime(m.Value)
		if !rm.OK {
			c.Violation("C07:malformed-output-message", fmt.Sprintf("server message #%d is neither hello nor a runtime message: %v", i, m.Value), wit)
			continue
		}
		switch rm.ID {
		case uint64(atp.MessageTypeWorkDone):
			terminal[rm.RunID]++
			c.Count("terminal:work-done")
		case uint64(atp.MessageTypeError):
			sf, _ := rig.Field(rm.Data, "step_fatal")
			svf, _ := rig.Field(rm.Data, "server_fatal")
			if sf == true && svf != true && rm.RunID != "" {
				terminal[rm.RunID]++
				c.Count("terminal:step-fatal-error")
			} else {
				c.Count("error-message:other")
			}
		}
	}
	// per-run step data is created once per run ID: the fixture's only initialiser (step "sig") cannot have run more
	// often than there are distinct run IDs in accepted work-starts
	if inits := res.fixture.Inits(); inits > int64(len(accepted)) {
		c.Violation("C07:step-data-created-more-than-once-per-run", fmt.Sprintf("%d run ID(s) were accepted but the step-data initialiser ran %d times", len(accepted), inits), wit)
	}
	wit["accepted"] = accepted
	wit["unacceptable_work_starts_naming_run"] = rejectedWS
	wit["terminal"] = terminal
	if res.outputOpen {
		ids := make([]string, 0, len(accepted))
		for id := range accepted {
			ids = append(ids, id)
		}
		sort.Strings(ids)
		for _, id := range ids {
			if terminal[id] < accepted[id] || terminal[id] > accepted[id]+rejectedWS[id] {
				kind := "missing-terminal"
				if terminal[id] > accepted[id] {
					kind = "extra-terminal"
				}
				c.Violation("C07:"+kind, fmt.Sprintf("run %q: %d accepted work-start(s) but %d terminal message(s) (work-done or step-fatal error for that run) while the output stayed open", id, accepted[id], terminal[id]), wit)
			}
		}
	}
	for id, n := range terminal {
		if accepted[id] == 0 && n > rejectedWS[id] {
			c.Violation("C07:terminal-for-unaccepted-run", fmt.Sprintf("%d terminal message(s) for run %q, which no accepted work-start names", n, id), wit)
		}
	}
}

func describeScript(items []c07Item) []string {
	var out []string
	for _, it := range items {
		s := it.kind
		if it.run != "" {
			s += "(" + it.run
			if it.step != "" {
				s += "," + it.step
			}
			if it.gated {
				s += ",gated"
			}
			s += ")"
		}
		out = append(out, fmt.Sprintf("%s[%dB]", s, len(it.bytes)))
	}
	return out
}

func runC07(c *wk.Ctx) {
	c.Meta("rule", "scripts from a grammar of client behaviour (start message or junk; work-starts for existing/unknown steps with ok / declared-error / undeclared-output / invalid-data / panicking / gated(slow) handlers and schema-rejected configs; duplicate run IDs; signals for started/unstarted runs with known/unknown/empty signal IDs and valid/invalid data; unknown message IDs; envelopes lacking run_id / data / with wrongly typed payloads; undecodable CBOR: random bytes, indefinite-length, huge length header, wrong field types; client-done followed by more traffic) fed to the real RunATPServer. Faults: end of input at EVERY byte offset of a script (enumerated per script), at message boundaries with stepwise delivery (one message per quiescent point) and in bursts; gated steps released before or after the end of input; output closed early. Oracle: process/goroutine panics, quiescence deadlock monitor, and an offline checker over the tapped output: #terminal messages per run == #accepted work-starts (computed from the delivered bytes by an independent decoder), none for unaccepted runs. non-trivial = script with >= 2 items after the start message; distinct = hash(script bytes, cut, delivery mode) Directed: step 'chain' (input = a single-property object in front of a cycle of single-property objects) with scalars in place of its input; run IDs that differ only in surrounding white space. A step that computes forever is the driver's CPU-time verdict (60 s on one journalled session).")
	c.Meta("assumptions", []string{"accepted = well-formed envelope with non-empty run_id and step id, fully delivered, before client-done / the first undecodable item / the cut",
		"the server's output is a buffered pipe (never blocks) unless the case closes it"})
	c.Floor("sessions", 500)
	c.Floor("terminal:work-done", 50)
	c.Floor("terminal:step-fatal-error", 20)
	directed := c07Directed(wk.NewRand(c.Seed, "C07-directed", 0))
	c.Meta("cov.directed_scripts", len(directed))
	nScripts := int64(len(directed)) + c.N(40, 3000)
	if c.Variant == "race" {
		nScripts = int64(len(directed)) + c.N(60, 3000)
	}
	c.Cases(nScripts, func(idx int64, r *wk.Rand) {
		var items []c07Item
		if idx < int64(len(directed)) {
			items = directed[idx]
			c.Count("directed_scripts")
		} else {
			items = genC07Script(r, fmt.Sprintf("s%d", idx))
		}
		total := 0
		for _, it := range items {
			total += len(it.bytes)
		}
		descr := describeScript(items)
		if idx < 3 {
			c.Sample("script", descr)
		}
		run := func(cut int, stepwise, gatesFirst bool, closeOut int) {
			wit := map[string]any{"script": descr, "script_bytes": total, "cut_at": cut, "stepwise": stepwise, "gates_first": gatesFirst, "close_output_at_action": closeOut}
			c.Note(fmt.Sprintf("script=%v cut=%d stepwise=%v gatesFirst=%v closeOut=%d", descr, cut, stepwise, gatesFirst, closeOut))
			osFile := (cut+int(idx))%2 == 0 // alternately: ends that complain about a second Close, as *os.File does
			wit["stdio_close_semantics"] = map[bool]string{true: "os.File (closing twice is an error)", false: "io.Pipe (closing twice is fine)"}[osFile]
			res := runC07Session(items, cut, stepwise, gatesFirst, closeOut, osFile)
			if osFile {
				c.Count("sessions_with_os_file_close_semantics")
			}
			c.Count("sessions")
			c.Eval(wk.Hash64(fmt.Sprint(descr), fmt.Sprint(cut, stepwise, gatesFirst, closeOut)), len(items) >= 3)
			c07Judge(c, res, wit)
		}
		// whole script, all delivery modes
		for _, sw := range []bool{false, true} {
			for _, gf := range []bool{false, true} {
				run(-1, sw, gf, -1)
			}
		}
		// output closed early at a few points
		for k := 0; k < 3; k++ {
			run(-1, true, r.Bool(), r.Intn(len(items)+2))
		}
		// every truncation point (burst delivery; gates after EOF), and a sample with gates first
		if c.Variant == "race" {
			// the race-detector build repeats the whole-script deliveries (above) and a sample of the cuts: what it
			// adds is the detector, not more offsets
			for k := 0; k < 12 && total > 0; k++ {
				run(r.Intn(total), false, r.Bool(), -1)
			}
		} else if total <= 600 {
			for cut := 0; cut < total; cut++ {
				run(cut, false, cut%2 == 0, -1)
			}
			c.Count("scripts_with_all_offsets_cut")
		} else {
			for k := 0; k < 200; k++ {
				run(r.Intn(total), false, r.Bool(), -1)
			}
		}
	})
}

func init() { register("C07", runC07) }
