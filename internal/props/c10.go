package props

import (
	"context"
	"encoding/json"
	"fmt"
	"os"
	"sort"
	"strings"
	"sync/atomic"
	"time"

	"github.com/fxamacker/cbor/v2"
	"go.flow.arcalot.io/pluginsdk/atp"
	"go.flow.arcalot.io/pluginsdk/schema"

	"verif/internal/cmpx"
	"verif/internal/gen"
	"verif/internal/rig"
	"verif/internal/wk"
)

// ---- description trees and their mutations ----------------------------------------

type descNode struct {
	path   string
	parent any // map[string]any, map[any]any or []any
	key    any // key in the parent
	val    any
}

func descNodes(root any) []descNode {
	var out []descNode
	var walk func(v any, path string)
	walk = func(v any, path string) {
		switch x := v.(type) {
		case map[string]any:
			keys := make([]string, 0, len(x))
			for k := range x {
				keys = append(keys, k)
			}
			sort.Strings(keys)
			for _, k := range keys {
				out = append(out, descNode{path + "." + k, x, k, x[k]})
				walk(x[k], path+"."+k)
			}
		case map[any]any:
			keys := make([]any, 0, len(x))
			for k := range x {
				keys = append(keys, k)
			}
			sort.Slice(keys, func(i, j int) bool { return fmt.Sprint(keys[i]) < fmt.Sprint(keys[j]) })
			for _, k := range keys {
				out = append(out, descNode{fmt.Sprintf("%s[%v]", path, k), x, k, x[k]})
				walk(x[k], fmt.Sprintf("%s[%v]", path, k))
			}
		case []any:
			for i := range x {
				out = append(out, descNode{fmt.Sprintf("%s[%d]", path, i), x, i, x[i]})
				walk(x[i], fmt.Sprintf("%s[%d]", path, i))
			}
		}
	}
	walk(root, "$")
	return out
}

func setNode(n descNode, v any) {
	switch p := n.parent.(type) {
	case map[string]any:
		p[n.key.(string)] = v
	case map[any]any:
		p[n.key] = v
	case []any:
		p[n.key.(int)] = v
	}
}

func delNode(n descNode) bool {
	switch p := n.parent.(type) {
	case map[string]any:
		delete(p, n.key.(string))
		return true
	case map[any]any:
		delete(p, n.key)
		return true
	}
	return false
}

func renameNode(n descNode, nk any) bool {
	switch p := n.parent.(type) {
	case map[string]any:
		s, ok := nk.(string)
		if !ok {
			return false
		}
		delete(p, n.key.(string))
		p[s] = n.val
		return true
	case map[any]any:
		delete(p, n.key)
		p[nk] = n.val
		return true
	}
	return false
}

var typeIDs = []string{"string", "integer", "float", "bool", "pattern", "enum_string", "enum_integer", "list", "map", "object", "scope", "one_of_string", "one_of_int", "any", "ref"}

// c10Mutations lists the structural mutations applicable at node i (by name); apply performs one on a fresh copy.
func c10MutationsAt(n descNode) []string {
	muts := []string{"delete", "retype:nil", "retype:string", "retype:int", "retype:map", "retype:list", "rename", "duplicate"}
	if m, ok := n.val.(map[string]any); ok {
		if _, isType := m["type_id"]; isType {
			// replace this type description by a complete description of another type found elsewhere in the tree
			muts = append(muts, "graft:type", "graft:type", "graft:type")
		}
	}
	if m, ok := n.val.(map[string]any); ok {
		if _, isProp := m["type"]; isProp {
			// a property description: give it a default (whether or not it has one) that cannot be parsed, or
			// one that supplies sub-values - the shapes from which a default can lead back to itself
			muts = append(muts, "propdefault:unparsable", "propdefault:{}", "propdefault:list")
			for i := 0; i < 10; i++ {
				muts = append(muts, fmt.Sprintf("propdefault:nest#%d", i)) // (property name, inner value) combinations
			}
			if tm := anyMap(m["type"]); strings.HasPrefix(fmt.Sprint(tm["type_id"]), "one_of") {
				// a default that selects a member of the one-of by its discriminator and supplies nothing else: if that
				// member leads back to this object, the default expands for ever
				for i := 0; i < 8; i++ {
					muts = append(muts, fmt.Sprintf("propdefault:member#%d", i))
				}
			}
		}
		if fmt.Sprint(m["type_id"]) == "object" {
			if len(anyMap(m["properties"])) > 0 {
				// two cooperating edits: the object takes the ID of another object AND one of its properties gets an
				// unparsable default (anything that remembers objects by ID instead of identity loses track of it)
				muts = append(muts, "objid+baddefault")
			}
		}
	}
	if k, ok := n.key.(string); ok {
		switch k {
		case "id", "root":
			muts = append(muts, "repoint:other", "repoint:missing", "repoint:empty")
		case "type_id":
			for _, t := range typeIDs {
				muts = append(muts, "typeid:"+t)
			}
		case "namespace":
			muts = append(muts, "repoint:namespace")
		case "default":
			muts = append(muts, "default:unparsable", "default:wrongtype", "default:empty")
		case "pattern":
			muts = append(muts, "pattern:invalid")
		case "discriminator_inlined":
			muts = append(muts, "flip")
		case "discriminator_field_name":
			muts = append(muts, "repoint:other", "repoint:empty")
		case "required", "disabled", "id_unenforced", "error":
			muts = append(muts, "flip")
		case "min", "max":
			muts = append(muts, "bound:negative", "bound:huge")
		case "multipliers":
			muts = append(muts, "multipliers:zero", "multipliers:negative")
		case "name_short_singular", "name_short_plural", "name_long_singular", "name_long_plural":
			// unit names are free text that ends up in a regular expression
			muts = append(muts, "unitname:(", "unitname:k(B", "unitname:*", "unitname:[x", "unitname:\\", "unitname:", "unitname:a|b")
		}
	}
	return muts
}

func c10Apply(root any, idx int, mut string, r *wk.Rand) (string, bool) {
	nodes := descNodes(root)
	if idx >= len(nodes) {
		return "", false
	}
	n := nodes[idx]
	otherString := func() string {
		// another string found under the same key somewhere else (another object ID, another field name)
		var cands []string
		for _, m := range nodes {
			if fmt.Sprint(m.key) == fmt.Sprint(n.key) {
				if s, ok := m.val.(string); ok && s != n.val {
					cands = append(cands, s)
				}
			}
		}
		if len(cands) == 0 {
			return "SomethingElse"
		}
		return wk.Pick(r, cands)
	}
	ok := true
	switch mut {
	case "delete":
		ok = delNode(n)
	case "retype:nil":
		setNode(n, nil)
	case "retype:string":
		if _, is := n.val.(string); is {
			setNode(n, int64(7))
		} else {
			setNode(n, "a string")
		}
	case "retype:int":
		if _, is := n.val.(int64); is {
			setNode(n, "12")
		} else {
			setNode(n, int64(-3))
		}
	case "retype:map":
		if _, is := n.val.(map[string]any); is {
			setNode(n, []any{})
		} else {
			setNode(n, map[string]any{"x": int64(1)})
		}
	case "retype:list":
		setNode(n, []any{n.val, n.val})
	case "rename":
		switch k := n.key.(type) {
		case string:
			ok = renameNode(n, k+"_x")
		case int64:
			ok = renameNode(n, k+1000)
		default:
			ok = false
		}
	case "duplicate":
		// copy this subtree over a sibling (e.g. an object under another object's key)
		switch p := n.parent.(type) {
		case map[string]any:
			ok = false
			for k := range p {
				if k != n.key.(string) {
					p[k] = cmpx.DeepCopy(n.val)
					ok = true
					break
				}
			}
		case map[any]any:
			ok = false
			for k := range p {
				if k != n.key {
					p[k] = cmpx.DeepCopy(n.val)
					ok = true
					break
				}
			}
		case []any:
			if len(p) > 1 {
				p[(n.key.(int)+1)%len(p)] = cmpx.DeepCopy(n.val)
			} else {
				ok = false
			}
		}
	case "graft:type":
		var cands []any
		mine, _ := n.val.(map[string]any)
		for _, m := range nodes {
			if mm, is := m.val.(map[string]any); is {
				// (compared as text: after an earlier mutation a type_id may be a list or a map, which == panics on)
				if tid, has := mm["type_id"]; has && fmt.Sprintf("%T:%v", tid, tid) != fmt.Sprintf("%T:%v", mine["type_id"], mine["type_id"]) {
					cands = append(cands, m.val)
				}
			}
		}
		if len(cands) == 0 {
			cands = []any{
				map[string]any{"type_id": "list", "items": map[string]any{"type_id": "string"}},
				map[string]any{"type_id": "map", "keys": map[string]any{"type_id": "string"}, "values": map[string]any{"type_id": "integer"}},
				map[string]any{"type_id": "float"}, map[string]any{"type_id": "any"}, map[string]any{"type_id": "bool"},
			}
		}
		setNode(n, cmpx.DeepCopy(wk.Pick(r, cands)))
	case "repoint:other":
		setNode(n, otherString())
	case "repoint:missing":
		setNode(n, "NoSuchThing")
	case "repoint:empty":
		setNode(n, "")
	case "repoint:namespace":
		setNode(n, "some-other-namespace")
	case "propdefault:unparsable", "propdefault:{}", "propdefault:list",
		"propdefault:nest#0", "propdefault:nest#1", "propdefault:nest#2", "propdefault:nest#3", "propdefault:nest#4",
		"propdefault:nest#5", "propdefault:nest#6", "propdefault:nest#7", "propdefault:nest#8", "propdefault:nest#9":
		m, _ := n.val.(map[string]any)
		var names []string
		for _, x := range nodes {
			if x.key == "properties" {
				for k := range anyMap(x.val) {
					names = append(names, k)
				}
			}
		}
		sort.Strings(names)
		name := "a"
		if len(names) > 0 {
			name = wk.Pick(r, names)
		}
		switch {
		case mut == "propdefault:unparsable":
			m["default"] = "{not json"
		case mut == "propdefault:{}":
			m["default"] = "{}"
		case strings.HasPrefix(mut, "propdefault:nest#"):
			i := int(mut[len(mut)-1] - '0')
			if len(names) > 0 {
				name = names[(i+r.Intn(len(names)))%len(names)]
				if len(names) <= 2 {
					name = names[i%len(names)] // small descriptions: the full product
				}
			}
			inners := []string{"{}", "[]", "[{}]", `{"` + name + `": {}}`, "1"}
			inner := inners[(i/2)%len(inners)]
			m["default"] = `{"` + name + `": ` + inner + `}`
		default:
			m["default"] = `[{}, {"` + name + `": {}}]`
		}
	case "propdefault:member#0", "propdefault:member#1", "propdefault:member#2", "propdefault:member#3",
		"propdefault:member#4", "propdefault:member#5", "propdefault:member#6", "propdefault:member#7":
		m, _ := n.val.(map[string]any)
		tm := anyMap(m["type"])
		var keys []string
		switch types := tm["types"].(type) {
		case map[any]any:
			for k := range types {
				keys = append(keys, fmt.Sprint(k))
			}
		case map[string]any:
			for k := range types {
				keys = append(keys, k)
			}
		}
		sort.Strings(keys)
		if len(keys) == 0 {
			ok = false
			break
		}
		i := int(mut[len(mut)-1] - '0')
		key := keys[(i/2)%len(keys)]
		disc := fmt.Sprint(tm["discriminator_field_name"])
		if disc == "" || disc == "<nil>" {
			disc = "_type"
		}
		kj, _ := json.Marshal(key)
		if i%2 == 0 && fmt.Sprint(tm["type_id"]) == "one_of_int" {
			kj = []byte(key) // as a JSON number
		}
		dj, _ := json.Marshal(disc)
		m["default"] = "{" + string(dj) + ": " + string(kj) + "}"
	case "objid+baddefault":
		m, _ := n.val.(map[string]any)
		var ids []string
		for _, x := range nodes {
			if x.key == "id" || x.key == "root" {
				if sv, is := x.val.(string); is && sv != m["id"] {
					ids = append(ids, sv)
				}
			}
		}
		sort.Strings(ids)
		pm := anyMap(m["properties"])
		if len(ids) == 0 || len(pm) == 0 {
			ok = false
			break
		}
		m["id"] = wk.Pick(r, ids)
		pnames := make([]string, 0, len(pm))
		for k := range pm {
			pnames = append(pnames, k)
		}
		sort.Strings(pnames)
		done := false
		for _, k := range pnames {
			if pd, is := pm[k].(map[string]any); is {
				if td, is2 := pd["type"].(map[string]any); is2 && td["type_id"] != "string" {
					pd["default"] = "{not json"
					done = true
					break
				}
			}
		}
		ok = done
	case "default:unparsable":
		setNode(n, "{not json")
	case "default:wrongtype":
		setNode(n, `{"zzz": [1, 2, "x"]}`)
	case "default:empty":
		setNode(n, "")
	case "pattern:invalid":
		setNode(n, "([a-z")
	case "flip":
		if b, is := n.val.(bool); is {
			setNode(n, !b)
		} else {
			setNode(n, true)
		}
	case "bound:negative":
		setNode(n, int64(-5))
	case "bound:huge":
		setNode(n, uint64(1)<<63)
	case "unitname:(", "unitname:k(B", "unitname:*", "unitname:[x", "unitname:\\", "unitname:", "unitname:a|b":
		setNode(n, mut[len("unitname:"):])
	case "multipliers:zero":
		if m, is := n.val.(map[any]any); is {
			for _, v := range m {
				m[int64(0)] = v
				break
			}
		} else {
			ok = false
		}
	case "multipliers:negative":
		if m, is := n.val.(map[any]any); is {
			for _, v := range m {
				m[int64(-60)] = v
				break
			}
		} else {
			ok = false
		}
	default:
		if len(mut) > 7 && mut[:7] == "typeid:" {
			if n.val == mut[7:] {
				ok = false
			} else {
				setNode(n, mut[7:])
			}
		} else {
			ok = false
		}
	}
	return n.path + " " + mut, ok
}

// ---- exercising whatever was accepted ------------------------------------------------

func c10Exercise(c *wk.Ctx, what string, t schema.Serializable, inputs []any, wit map[string]any) bool {
	ops := []struct {
		name string
		f    func(v any) error
	}{
		{"Unserialize", func(v any) error { _, err := t.Unserialize(v); return err }},
		{"ValidateCompatibility(data)", func(v any) error { return t.ValidateCompatibility(v) }},
		{"Validate", func(v any) error { return t.Validate(v) }},
		{"Serialize", func(v any) error { _, err := t.Serialize(v); return err }},
	}
	for _, in := range inputs {
		for _, op := range ops {
			c.Note(fmt.Sprintf("use-of-accepted %s %s dyn=%s", what, op.name, dynType(in)))
			c.Count("operations_on_accepted")
			if p, site, msg, stack := wk.Guard(func() { _ = op.f(cmpx.DeepCopy(in)) }); p {
				w := map[string]any{"mutation": wit["mutation"], "description": wit["description"], "operation": op.name, "input": clipStr(cmpx.Canon(in), 400), "part": what, "stack": clipStr(stack, 2500)}
				c.Violation("C10:panic-on-use:"+op.name+":"+site, fmt.Sprintf("the description was accepted, but %s on the returned schema (%s) panics: %s", op.name, what, msg), w)
				return false
			}
		}
	}
	c.Note("use-of-accepted " + what + " accessors")
	if p, site, msg, _ := wk.Guard(func() {
		_ = t.ReflectedType()
		_ = t.ValidateReferences()
		if sc, ok := t.(schema.Scope); ok {
			_ = sc.Properties()
			_ = sc.ID()
			_ = sc.GetDefaults()
			_, _ = sc.SelfSerialize()
		}
	}); p {
		c.Violation("C10:panic-on-use:accessors:"+site, fmt.Sprintf("the description was accepted, but ReflectedType / ValidateReferences / Properties / GetDefaults / SelfSerialize on the returned schema (%s) panics: %s", what, msg), wit)
		return false
	}
	return true
}

func c10Inputs(r *wk.Rand, shape *gen.Shape) []any {
	env := &gen.Env{}
	ins := []any{map[string]any{}, nil, "scalar", int64(3), []any{}, map[any]any{"a": int64(1)}}
	var extraFirst []any
	for i := 0; i < 3; i++ {
		if raw, ok := gen.ValidRaw(r, shape, env, 0); ok {
			ins = append(ins, raw)
			pv, _ := gen.Perturb(r, gen.CopyRaw(raw))
			ins = append(ins, pv)
			if i == 0 {
				// every number as text: the form that reaches the unit parsers
				extraFirst = append(extraFirst, gen.StringifyNumbers(gen.CopyRaw(raw)))
			}
		}
	}
	for i := 0; i < 3; i++ {
		_, h := gen.HostileValue(r)
		ins = append(ins, h)
	}
	// a discriminator of the right type that names no member, in an otherwise valid value
	var extra []any
	for i := 0; i < 2; i++ {
		if raw, ok := gen.ValidRaw(r, shape, env, 0); ok {
			if dv, ok := gen.UnknownDiscriminator(r, raw); ok {
				extra = append(extra, dv)
			}
		}
	}
	return append(append(extraFirst, extra...), ins...)
}

// traceC10 (VERIF_TRACE=1, for replays) prints every mutant before it is tried, so that a fatal crash can be
// matched to the description that caused it.
var traceC10 = os.Getenv("VERIF_TRACE") != ""

// c10RepeatedIDs: object IDs are unique only within one scope. A description in which a nested scope's object (or an
// object used inline as a type) repeats the ID of an object of an enclosing scope, with something broken BELOW the
// repeated one (a scope without its root object, a root whose id differs from its key, a dangling reference, an
// unparsable default, a bad pattern), placed directly / in a list / in a map: refused, or usable with inputs that
// reach the broken place.
func c10RepeatedIDs(c *wk.Ctx) {
	m := func(kv ...any) map[string]any {
		out := map[string]any{}
		for i := 0; i+1 < len(kv); i += 2 {
			out[kv[i].(string)] = kv[i+1]
		}
		return out
	}
	intT := m("type_id", "integer")
	brokens := map[string]func() (any, any){ // the broken type, and an input value for it
		"scope without its root object": func() (any, any) { return m("type_id", "scope", "root", "missing", "objects", m()), m() },
		"scope whose root has another id": func() (any, any) {
			return m("type_id", "scope", "root", "R", "objects", m("R", m("id", "S", "properties", m("n", m("type", intT))))), m("n", int64(1))
		},
		"dangling reference": func() (any, any) { return m("type_id", "ref", "id", "Nowhere"), m() },
		"object with an unparsable default": func() (any, any) {
			return m("type_id", "object", "id", "D", "properties", m("n", m("type", intT, "default", "{not json"))), m()
		},
		"string with a bad pattern": func() (any, any) { return m("type_id", "string", "pattern", "(["), "x" },
		"nothing broken":            func() (any, any) { return intT, int64(1) },
	}
	wraps := map[string]func(t, v any) (any, any){
		"directly":  func(t, v any) (any, any) { return t, v },
		"in a list": func(t, v any) (any, any) { return m("type_id", "list", "items", t), []any{v} },
		"in a map": func(t, v any) (any, any) {
			return m("type_id", "map", "keys", m("type_id", "string"), "values", t), m("k", v)
		},
	}
	for _, bname := range sortedKeys(brokens) {
		for _, wname := range sortedKeys(wraps) {
			for _, how := range []string{"nested scope", "inline object", "nested scope, other id (control)"} {
				for depth := 1; depth <= 2; depth++ {
					mk := func() (any, []any) {
						bt, bv := brokens[bname]()
						qt, qv := wraps[wname](bt, bv)
						innerID := "A"
						if strings.Contains(how, "control") {
							innerID = "Inner"
						}
						var pType any
						var in any = m("q", qv)
						inputs := []any{m(), m("p", m())}
						props := m("q", m("type", qt))
						for d := 0; d < depth; d++ {
							if how == "inline object" {
								pType = m("type_id", "object", "id", innerID, "properties", props)
							} else {
								pType = m("type_id", "scope", "root", innerID, "objects", m(innerID, m("id", innerID, "properties", props)))
							}
							props = m("p", m("type", pType))
							in = m("p", in)
							inputs = append(inputs, cmpx.DeepCopy(in))
						}
						return m("root", "A", "objects", m("A", m("id", "A", "properties", props), "B", m("id", "B", "properties", m("n", m("type", intT))))), inputs
					}
					what := fmt.Sprintf("%s %s below an object that repeats an outer ID (%s, depth %d)", bname, wname, how, depth)
					wit := map[string]any{"mutation": what}
					doc, inputs := mk()
					wit["description"] = clipStr(cmpx.Canon(doc), 1500)
					c.Note("repeated-id UnserializeScope: " + what)
					c.Count("mutants")
					c.Count("repeated_id_documents")
					c.Eval(wk.Hash64("repeated-id", what), true)
					var sc *schema.ScopeSchema
					var err error
					if p, site, msg, _ := wk.Guard(func() { sc, err = schema.UnserializeScope(doc) }); p {
						c.Violation("C10:panic-on-load:UnserializeScope:"+site, "UnserializeScope panicked on a description: "+msg, wit)
						continue
					}
					if err == nil && sc != nil {
						c.Count("mutants_accepted")
						c10Exercise(c, "scope", sc, inputs, wit)
					} else {
						c.Count("repeated_id_documents_refused")
					}
					// the same document as the input and the output of a step
					doc1, _ := mk()
					doc2, _ := mk()
					full := m("steps", m("s", m("id", "s", "input", doc1, "outputs", m("ok", m("schema", doc2)))))
					c.Note("repeated-id UnserializeSchema: " + what)
					var sch *schema.SchemaSchema
					if p, site, msg, _ := wk.Guard(func() { sch, err = schema.UnserializeSchema(full) }); p {
						c.Violation("C10:panic-on-load:UnserializeSchema:"+site, "UnserializeSchema panicked on a description: "+msg, wit)
						continue
					}
					if err == nil && sch != nil {
						if st := sch.Steps()["s"]; st != nil {
							c10Exercise(c, "s.input", st.Input(), inputs, wit)
							if o := st.Outputs()["ok"]; o != nil {
								c10Exercise(c, "s.outputs.ok", o.Schema(), inputs, wit)
							}
						}
					}
				}
			}
		}
	}
}

func runC10(c *wk.Ctx) {
	c.Meta("rule", "valid descriptions (SelfSerialize of generated scopes and of generated plugin schemas with several steps, outputs, signal handlers and emitters; hand-written tricky reference shapes) are treated as mutable trees. EVERY node of a description receives every applicable single structural mutation: delete, retype (nil / string / int / map / list), rename the key, duplicate over a sibling, re-point (object ids, root, reference ids and namespaces, discriminator field names to another / a missing / an empty name), each of the 15 type ids, unparsable / wrongly typed / empty defaults, invalid patterns, flipped inlining and boolean flags, negative and 2^63 bounds, zero and negative unit multipliers; pairs of mutations are sampled; grammar-free random trees are added. Each mutant goes through UnserializeScope (+ApplySelf) or UnserializeSchema, also after a CBOR encode/decode, and through Client.ReadSchema from a fake server's hello. Whatever is accepted is exercised: Unserialize / data-mode ValidateCompatibility / Validate / Serialize with valid, perturbed and hostile inputs on the scope or on every step input, output and signal data schema, plus ReflectedType, ValidateReferences, Properties, GetDefaults, SelfSerialize. Every call is journalled and guarded. distinct = hash(description, mutation); non-trivial = the mutant differs from the original Directed: descriptions of chains of 4..49 single-property objects (constructor-built and rebuilt), lone values of every kind. Directed: descriptions in which a nested scope's object or an inline object repeats the ID of an object of an enclosing scope, above a scope without its root / a root with another id / a dangling reference / an unparsable default / a bad pattern (directly, in a list, in a map; as a scope and as the input and output of a step).")
	c.Meta("assumptions", []string{"a scope returned by UnserializeScope is linked with ApplySelf before use (part of loading it); an unlinked reference to an EXTERNAL namespace is the caller's to link and is not exercised"})
	c.Floor("mutants", 5000)
	c.Floor("repeated_id_documents", 100)
	c.Floor("mutants_accepted", 300)
	c.Floor("operations_on_accepted", 20000)
	if c.Mine(0) {
		// loading a description must return: a valid acyclic chain of objects with two defaulted references each
		c.Begin(0, "descriptions of chains of objects with two defaulted references each")
		c04DefaultChains(c, "C10")
		c.Note("descriptions of chains of single-property objects")
		c04WrapperChains(c, "C10")
	}
	if c.Mine(1) {
		c.Begin(1, "descriptions in which a nested object repeats an outer ID above something broken")
		c10RepeatedIDs(c)
	}
	nDesc := c.N(48, 900)
	const chunks = 8 // the mutants of one description are spread over several cases (and so over the workers)
	c.Cases(nDesc*chunks, func(caseIdx int64, _ *wk.Rand) {
		idx, chunk := caseIdx/chunks, int(caseIdx%chunks)
		r := wk.NewRand(c.Seed, "C10-description", idx)
		cfg := gen.Full()
		cfg.Describable, cfg.TypedEnum, cfg.NilDisplay, cfg.GoodDefaults = true, false, false, true
		plugin := idx%4 == 3
		var d0 any
		var shape *gen.Shape
		var descr string
		if plugin {
			cfg.Structs = false
			var steps []schema.CallableStep
			mk := func() *schema.ScopeSchema {
				for {
					sh := gen.GenScope(r, cfg)
					if t, ok, _ := buildGuarded(sh); ok {
						shape = sh
						return t.(*schema.ScopeSchema)
					}
				}
			}
			for si := 0; si <= r.Intn(2); si++ {
				id := fmt.Sprintf("step%d", si)
				outs := map[string]*schema.StepOutputSchema{"ok": schema.NewStepOutputSchema(mk(), nil, false)}
				if r.Bool() {
					outs["err"] = schema.NewStepOutputSchema(mk(), nil, true)
				}
				handlers := map[string]schema.CallableSignal{}
				emitters := map[string]*schema.SignalSchema{}
				if r.Bool() {
					handlers["sig"] = schema.NewCallableSignal[any, any]("sig", mk(), nil, func(context.Context, any, any) {})
				}
				if r.Bool() {
					emitters["emit"] = schema.NewSignalSchema("emit", mk(), nil)
				}
				// a display may lack any of its three parts, the name included
				desc := "what the step does"
				var display schema.Display
				switch r.Intn(4) {
				case 0:
					display = schema.NewDisplayValue(nil, &desc, nil)
				case 1:
					display = schema.NewDisplayValue(nil, nil, nil)
				case 2:
					display = schema.NewDisplayValue(&desc, nil, nil)
				}
				steps = append(steps, schema.NewCallableStepWithSignals[any, any](id, mk(), outs, handlers, emitters, display, nil, func(context.Context, any, any) (string, any) { return "ok", nil }))
			}
			var err error
			if d0, err = schema.NewCallableSchema(steps...).SelfSerialize(); err != nil {
				return
			}
			descr = "plugin schema"
		} else {
			if tricky := gen.DescribableTrickyShapes(); idx/4 < int64(len(tricky)) && idx%4 == 0 {
				shape = tricky[idx/4]
			} else {
				shape = gen.GenScope(r, cfg)
				// every description carries at least one one-of, one map and one list, so that the
				// mutations of their descriptions are always exercised
				root := shape.Objects[0]
				if root.Struct == "" {
					root.Props = append(root.Props,
						&gen.Prop{Name: "zz_choice", T: gen.GenOneOf(r, cfg)},
						&gen.Prop{Name: "zz_map", T: &gen.Shape{Kind: gen.KMap, Keys: &gen.Shape{Kind: gen.KString}, Vals: &gen.Shape{Kind: gen.KInt}, Min: p64(1)}, Required: true},
						&gen.Prop{Name: "zz_list", T: &gen.Shape{Kind: gen.KList, Items: &gen.Shape{Kind: gen.KFloat}}})
				}
			}
			t, ok, _ := buildGuarded(shape)
			if !ok {
				return
			}
			var err error
			if d0, err = t.(*schema.ScopeSchema).SelfSerialize(); err != nil {
				return
			}
			descr = shape.Describe()
		}
		nodes := descNodes(d0)
		if chunk == 0 {
			c.Count("descriptions")
			c.CountN("description_nodes", int64(len(nodes)))
		}
		inputs := c10Inputs(r, shape)
		d0hash := fmt.Sprint(wk.Hash64(cmpx.Canon(d0)))
		tryMutant := func(m any, what string, viaCBOR bool) {
			c.Count("mutants")
			if traceC10 {
				fmt.Fprintf(os.Stderr, "TRACE mutant %s viaCBOR=%v %s\n", what, viaCBOR, clipStr(cmpx.Canon(m), 6000))
			}
			c.Eval(wk.Hash64(d0hash, what, fmt.Sprint(viaCBOR)), true)
			wit := map[string]any{"original_schema": clipStr(descr, 900), "mutation": what, "description": lazyCanon{m}, "via_cbor": viaCBOR}
			if viaCBOR {
				cb, err := gen.ViaCBOR(m)
				if err != nil {
					return
				}
				m = cb
			}
			if plugin {
				var s *schema.SchemaSchema
				var err error
				c.Note("UnserializeSchema " + what)
				if p, site, msg, stack := wk.Guard(func() { s, err = schema.UnserializeSchema(m) }); p {
					wit["stack"] = clipStr(stack, 2500)
					c.Violation("C10:panic:UnserializeSchema:"+site, fmt.Sprintf("UnserializeSchema panicked on a mutated description (%s): %s", what, msg), wit)
					return
				}
				if err != nil || s == nil {
					c.Count("mutants_rejected")
					return
				}
				c.Count("mutants_accepted")
				stepIDs := make([]string, 0, len(s.StepsValue))
				for id := range s.StepsValue {
					stepIDs = append(stepIDs, id)
				}
				sort.Strings(stepIDs)
				for _, id := range stepIDs {
					st := s.StepsValue[id]
					var parts []struct {
						name string
						t    schema.Serializable
					}
					p, site, msg, _ := wk.Guard(func() {
						parts = append(parts, struct {
							name string
							t    schema.Serializable
						}{id + ".input", st.Input()})
						for oid, o := range st.Outputs() {
							parts = append(parts, struct {
								name string
								t    schema.Serializable
							}{id + ".outputs." + oid, o})
						}
						for sid, sg := range st.SignalHandlers() {
							parts = append(parts, struct {
								name string
								t    schema.Serializable
							}{id + ".signal_handlers." + sid, sg.DataSchema()})
						}
						for sid, sg := range st.SignalEmitters() {
							parts = append(parts, struct {
								name string
								t    schema.Serializable
							}{id + ".signal_emitters." + sid, sg.DataSchema()})
						}
					})
					if p {
						c.Violation("C10:panic-on-use:accessors:"+site, "the plugin description was accepted, but walking its steps panics: "+msg, wit)
						return
					}
					for _, pt := range parts {
						if pt.t == nil || isNilIface(pt.t) {
							continue
						}
						// a plugin schema that was accepted is fully linked: any reference left without its object
						// panics on the first operation that reaches it
						if tt, isType := pt.t.(schema.Type); isType {
							unlinked := ""
							if pn, _, _, _ := wk.Guard(func() {
								for _, rf := range refsOf(tt) {
									if !rf.ObjectReady() {
										unlinked = fmt.Sprintf("%s (namespace %q)", rf.ID(), rf.Namespace())
									}
								}
							}); !pn && unlinked != "" {
								c.Violation("C10:accepted-with-unlinked-reference", fmt.Sprintf("UnserializeSchema accepted a description whose %s contains the reference %s that is not linked to any object", pt.name, unlinked), wit)
								return
							}
						}
						if !c10Exercise(c, pt.name, pt.t, inputs[:8], wit) {
							return
						}
					}
				}
				return
			}
			var s *schema.ScopeSchema
			var err error
			c.Note("UnserializeScope " + what)
			if p, site, msg, stack := wk.Guard(func() { s, err = schema.UnserializeScope(m) }); p {
				wit["stack"] = clipStr(stack, 2500)
				c.Violation("C10:panic:UnserializeScope:"+site, fmt.Sprintf("UnserializeScope panicked on a mutated description (%s): %s", what, msg), wit)
				return
			}
			if err != nil || s == nil {
				c.Count("mutants_rejected")
				return
			}
			c.Count("mutants_accepted")
			c.Note("ApplySelf " + what)
			if p, site, msg, stack := wk.Guard(func() { s.ApplySelf() }); p {
				wit["stack"] = clipStr(stack, 2500)
				c.Violation("C10:panic:ApplySelf:"+site, fmt.Sprintf("the description was accepted, but linking the returned scope panics (%s): %s", what, msg), wit)
				return
			}
			external := false
			for _, rf := range refsOf(s) {
				if rf.Namespace() != "" {
					external = true
				}
			}
			if external {
				c.Count("skipped:external-namespace-reference")
				return
			}
			c10Exercise(c, "scope", s, inputs, wit)
		}
		// the unmutated description first
		if chunk == 0 {
			tryMutant(cmpx.DeepCopy(d0), "none", false)
			tryMutant(cmpx.DeepCopy(d0), "none", true)
		}
		r = wk.NewRand(c.Seed, "C10-mutants", caseIdx)
		// all singles
		for ni := range nodes {
			if ni%chunks != chunk {
				continue
			}
			for _, mut := range c10MutationsAt(nodes[ni]) {
				m := cmpx.DeepCopy(d0)
				what, ok := c10Apply(m, ni, mut, r)
				if !ok {
					continue
				}
				c.Count("mutation:" + mutClass(mut))
				tryMutant(m, what, (ni+len(mut))%5 == 0)
			}
		}
		// sampled pairs
		for k := 0; k < (len(nodes)/2+10)/chunks+1; k++ {
			m := cmpx.DeepCopy(d0)
			a := r.Intn(len(nodes))
			w1, ok1 := c10Apply(m, a, wk.Pick(r, c10MutationsAt(nodes[a])), r)
			n2 := descNodes(m)
			if len(n2) == 0 || !ok1 {
				continue
			}
			b := r.Intn(len(n2))
			w2, ok2 := c10Apply(m, b, wk.Pick(r, c10MutationsAt(n2[b])), r)
			if ok2 {
				c.Count("mutation:pair")
				tryMutant(m, w1+" + "+w2, k%4 == 0)
			}
		}
		// grammar-free trees
		for k := 0; k < 4; k++ {
			tryMutant(gen.AnyValue(r, 0), "grammar-free tree", k%2 == 0)
			_, h := gen.HostileValue(r)
			tryMutant(h, "hostile value as description", false)
		}
		// through the wire: a fake server sends the mutated description in its hello
		if idx%3 == 0 {
			for k := 0; k < 2; k++ {
				m := cmpx.DeepCopy(d0)
				ni := r.Intn(len(nodes))
				what, ok := c10Apply(m, ni, wk.Pick(r, c10MutationsAt(nodes[ni])), r)
				if !ok {
					continue
				}
				var payload any = m
				if !plugin {
					payload = map[string]any{"steps": map[string]any{"s": map[string]any{"id": "s", "input": m, "outputs": map[string]any{"ok": map[string]any{"schema": cmpx.DeepCopy(m)}}}}}
				}
				c10ViaWire(c, payload, what, inputs)
			}
		}
		if idx < 2 && chunk == 0 {
			c.Sample("description", map[string]any{"schema": clipStr(descr, 600), "nodes": len(nodes)})
		}
	})
}

// lazyCanon renders the description only when a witness is actually written.
type lazyCanon struct{ v any }

func (l lazyCanon) MarshalJSON() ([]byte, error) {
	return []byte(fmt.Sprintf("%q", clipStr(cmpx.Canon(l.v), 2500))), nil
}

// anyMap views a description node that is a map with string keys (map[string]any or map[any]any) as one.
// The values are shared with the original, so editing a nested map edits the description.
func anyMap(v any) map[string]any {
	switch x := v.(type) {
	case map[string]any:
		return x
	case map[any]any:
		out := map[string]any{}
		for k, e := range x {
			if ks, ok := k.(string); ok {
				out[ks] = e
			}
		}
		return out
	}
	return nil
}

func mutClass(m string) string {
	for i := 0; i < len(m); i++ {
		if m[i] == ':' {
			return m[:i]
		}
	}
	return m
}

func isNilIface(v any) bool {
	defer func() { recover() }() //nolint
	return fmt.Sprintf("%v", v) == "<nil>"
}

func c10ViaWire(c *wk.Ctx, schemaPayload any, what string, inputs []any) {
	c2s := rig.NewPipe("c2s", rig.ModeBuffered, nil)
	s2c := rig.NewPipe("s2c", rig.ModeBuffered, nil)
	hello, err := cbor.Marshal(atp.HelloMessage{Version: 3, Schema: schemaPayload})
	if err != nil {
		return
	}
	_, _ = s2c.Write(hello)
	_ = s2c.CloseWrite()
	var done atomic.Int32
	var got *schema.SchemaSchema
	var panicMsg, panicSite string
	go func() {
		defer done.Add(1)
		if p, site, msg, _ := wk.Guard(func() {
			cli := atp.NewClient(rig.Duplex{In: s2c, Out: c2s})
			got, _ = cli.ReadSchema()
		}); p {
			panicMsg, panicSite = msg, site
		}
	}()
	res := rig.Monitor(func() bool { return done.Load() == 1 }, nil, 20*time.Second)
	_ = c2s.CloseRead()
	_ = s2c.CloseRead()
	c.Count("hello_messages")
	wit := map[string]any{"mutation": what, "via": "ATP hello"}
	if res.Outcome != "done" {
		c.Inconclusive("ReadSchema did not return: " + res.Outcome)
		return
	}
	if panicMsg != "" {
		c.Violation("C10:panic:ReadSchema:"+panicSite, fmt.Sprintf("Client.ReadSchema panicked on a hello message with a mutated schema (%s): %s", what, panicMsg), wit)
		return
	}
	if got == nil {
		return
	}
	for id, st := range got.StepsValue {
		if st == nil || st.InputValue == nil {
			continue
		}
		if !c10Exercise(c, id+".input (via ReadSchema)", st.InputValue, inputs[:6], wit) {
			return
		}
	}
}

func init() { register("C10", runC10) }
