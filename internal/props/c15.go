package props

import (
	"fmt"
	"math"
	"strings"

	"go.flow.arcalot.io/pluginsdk/schema"

	"verif/internal/gen"
	"verif/internal/ref"
	"verif/internal/wk"
)

// c15Mutate returns a copy of the shape with one feature changed at a random node.
func c15Mutate(r *wk.Rand, orig *gen.Shape) (*gen.Shape, string) {
	m := orig.Clone()
	nodes := m.Nodes()
	for try := 0; try < 20; try++ {
		n := wk.Pick(r, nodes)
		if n.Kind == gen.KScope && n == m {
			continue
		}
		switch n.Kind {
		case gen.KInt:
			switch r.Intn(3) {
			case 0:
				if n.Max != nil && *n.Max < 1<<62 {
					n.Min, n.Max = p64(*n.Max+1+int64(r.Intn(5))), nil
					if r.Bool() {
						n.Max = p64(*n.Min + 10)
					}
					return m, "int range moved above the original max"
				}
			case 1:
				if n.Min != nil && *n.Min > -(1<<62) {
					n.Max, n.Min = p64(*n.Min-1-int64(r.Intn(5))), nil
					if r.Bool() {
						n.Min = p64(*n.Max - 10)
					}
					return m, "int range moved below the original min"
				}
			default:
				*n = gen.Shape{Kind: wk.Pick(r, []gen.Kind{gen.KString, gen.KFloat, gen.KBool, gen.KList}), Items: &gen.Shape{Kind: gen.KInt}}
				return m, "int replaced by another kind"
			}
		case gen.KFloat:
			if n.FMax != nil && *n.FMax < 1e300 && r.Bool() {
				n.FMin, n.FMax = pf64(*n.FMax+1), nil
				return m, "float range moved above the original max"
			}
			if n.FMin != nil && *n.FMin > -1e300 {
				n.FMax, n.FMin = pf64(*n.FMin-1), nil
				return m, "float range moved below the original min"
			}
			*n = gen.Shape{Kind: wk.Pick(r, []gen.Kind{gen.KString, gen.KInt, gen.KBool})}
			return m, "float replaced by another kind"
		case gen.KString:
			if n.Max != nil && r.Bool() {
				n.Min, n.Max = p64(*n.Max+1), nil
				return m, "string length range moved above the original max"
			}
			if n.Min != nil && *n.Min > 0 {
				n.Max, n.Min = p64(*n.Min-1), nil
				return m, "string length range moved below the original min"
			}
			*n = gen.Shape{Kind: wk.Pick(r, []gen.Kind{gen.KInt, gen.KFloat, gen.KBool, gen.KPattern})}
			return m, "string replaced by another kind"
		case gen.KBool, gen.KPattern:
			*n = gen.Shape{Kind: wk.Pick(r, []gen.Kind{gen.KInt, gen.KString, gen.KFloat})}
			return m, "scalar replaced by another kind"
		case gen.KIntEnum:
			n.IntVals = append(n.IntVals, 424242)
			return m, "int enum offers an extra value"
		case gen.KStrEnum, gen.KTypedStrEnum:
			n.StrVals = append(n.StrVals, "extra-value")
			return m, "string enum offers an extra value"
		case gen.KList:
			switch r.Intn(3) {
			case 0:
				if n.Max != nil {
					n.Min, n.Max = p64(*n.Max+1), nil
					return m, "list size range moved above the original max"
				}
			case 1:
				if n.Min != nil && *n.Min > 0 {
					n.Max, n.Min = p64(*n.Min-1), nil
					return m, "list size range moved below the original min"
				}
			default:
				*n = gen.Shape{Kind: gen.KMap, Keys: &gen.Shape{Kind: gen.KString}, Vals: n.Items}
				return m, "list replaced by a map"
			}
		case gen.KMap:
			switch r.Intn(3) {
			case 0:
				if n.Max != nil {
					n.Min, n.Max = p64(*n.Max+1), nil
					return m, "map size range moved above the original max"
				}
			case 1:
				if n.Min != nil && *n.Min > 0 {
					n.Max, n.Min = p64(*n.Min-1), nil
					return m, "map size range moved below the original min"
				}
			default:
				*n = gen.Shape{Kind: gen.KList, Items: n.Vals}
				return m, "map replaced by a list"
			}
		case gen.KObject:
			if n.Struct != "" {
				continue
			}
			switch r.Intn(3) {
			case 0:
				n.Props = append(n.Props, &gen.Prop{Name: "added_property", T: &gen.Shape{Kind: gen.KString}})
				return m, "producer object carries an undeclared property"
			case 1:
				for i, p := range n.Props {
					if p.Required {
						n.Props = append(append([]*gen.Prop{}, n.Props[:i]...), n.Props[i+1:]...)
						for _, q := range n.Props {
							q.ReqIf, q.ReqIfNot, q.Conflicts = nil, nil, nil
						}
						return m, "producer object lacks a required property"
					}
				}
			default:
				if !n.Unenforced && n != m {
					// only for objects that are not scope members (a scope looks its objects up by ID)
					isScopeMember := false
					for _, x := range nodes {
						if x.Kind == gen.KScope {
							for _, o := range x.Objects {
								if o == n {
									isScopeMember = true
								}
							}
						}
					}
					if !isScopeMember {
						n.ID = n.ID + "Renamed"
						return m, "object ID differs"
					}
				}
			}
		case gen.KOneOfStr, gen.KOneOfInt:
			if r.Bool() && len(n.Members) > 1 {
				n.Members = n.Members[1:]
				return m, "producer one-of lacks a member"
			}
			if !n.Inlined {
				n.Disc = n.Disc + "x"
				return m, "one-of discriminator renamed"
			}
			// an inlined discriminator is a property of every member: renaming it only builds if the one-of stops
			// inlining (the members keep the old name as an ordinary property)
			n.Disc = n.Disc + "x"
			n.Inlined = false
			return m, "one-of discriminator renamed and no longer inlined"
		}
	}
	return m, "unchanged"
}

// rebuild describes a scope and rebuilds it from the description.
func rebuildScope(s *schema.ScopeSchema) (*schema.ScopeSchema, error) {
	d, err := s.SelfSerialize()
	if err != nil {
		return nil, err
	}
	r, err := schema.UnserializeScope(d)
	if err != nil {
		return nil, err
	}
	r.ApplySelf()
	return r, nil
}

func isRecursive(s *gen.Shape) bool {
	rec := false
	gen.WalkEnv(s, &gen.Env{}, func(n *gen.Shape, e *gen.Env) {
		if n.Kind == gen.KRef {
			// a reference to an object that (transitively) contains a reference: treat any ref cycle as recursive
			seen := map[*gen.Shape]bool{}
			var visit func(x *gen.Shape, env *gen.Env) bool
			visit = func(x *gen.Shape, env *gen.Env) bool {
				o, oe := env.Resolve(x)
				if o == nil {
					return false
				}
				if seen[o] {
					return true
				}
				seen[o] = true
				found := false
				gen.WalkEnv(o, oe, func(y *gen.Shape, ye *gen.Env) {
					if y.Kind == gen.KRef && !found {
						if visit(y, ye) {
							found = true
						}
					}
				})
				delete(seen, o)
				return found
			}
			if visit(n, e) {
				rec = true
			}
		}
	})
	return rec
}

func runC15(c *wk.Ctx) {
	c.Meta("rule", "ordered pairs (consumer A, producer B) of schemas built through the constructors: (1) A with itself; (2) A with a schema rebuilt from A's own description; (3) A with a single-feature mutant of A at a random depth (a bound moved so that ranges cannot overlap, a kind replaced, an enum value added, a property added / a required one removed / an ID renamed, a one-of member removed / discriminator renamed); (4) unrelated pairs; (5) the enumerated bound matrix: int / float / string-length / list-size / map-size schemas with every combination of absent/present min and max on both sides. Every call is journalled and guarded (stack exhaustion is fatal and attributed by the parent). Oracle: a verdict for every pair; the same verdict in 16 repetitions; nil for (1) and (2); an error whenever the reference statement of the rejection rules (internal/ref.Compat) says the producer can never be consumed. distinct = hash(A, B); non-trivial = pair classes 2-5")
	c.Meta("assumptions", []string{"enum into scalar of the same base, anything into any, and every pair the rejection rules do not name are unspecified: only totality and determinism are judged",
		"'size ranges that cannot overlap' is read as covering list sizes as well as string lengths and map sizes"})
	c.Floor("pairs", 2000)
	c.Floor("class:mutant-must-reject", 200)
	c.Floor("class:self", 200)
	c.Floor("class:rebuilt", 50)
	// (5) the enumerated bound matrix
	type bcase struct{ a, b *gen.Shape }
	var matrix []bcase
	optI := []*int64{nil, p64(2), p64(6)}
	for _, kind := range []gen.Kind{gen.KInt, gen.KString, gen.KList, gen.KMap, gen.KFloat} {
		for _, amin := range optI {
			for _, amax := range optI {
				for _, bmin := range []*int64{nil, p64(0), p64(4), p64(9)} {
					for _, bmax := range []*int64{nil, p64(1), p64(4), p64(9)} {
						mk := func(mn, mx *int64) *gen.Shape {
							s := &gen.Shape{Kind: kind, Min: mn, Max: mx}
							switch kind {
							case gen.KList:
								s.Items = &gen.Shape{Kind: gen.KInt}
							case gen.KMap:
								s.Keys, s.Vals = &gen.Shape{Kind: gen.KString}, &gen.Shape{Kind: gen.KInt}
							case gen.KFloat:
								s.Min, s.Max = nil, nil
								if mn != nil {
									s.FMin = pf64(float64(*mn))
								}
								if mx != nil {
									s.FMax = pf64(float64(*mx))
								}
							}
							return s
						}
						matrix = append(matrix, bcase{mk(amin, amax), mk(bmin, bmax)})
					}
				}
			}
		}
	}
	c.Meta("cov.bound_matrix_pairs", len(matrix))
	if c.Mine(0) {
		c.Begin(0, "directed pairs")
		c15Directed(c)
	}
	nGen := c.N(3000, 1200000)
	total := int64(len(matrix)) + nGen
	judge := func(class string, a, b schema.Type, sa, sb *gen.Shape, wantNil bool, descr string) {
		if isRecursive(sa) && isRecursive(sb) && class != "self" {
			c.Note("ValidateCompatibility of two distinct instances of recursive schemas")
		} else {
			c.Note(fmt.Sprintf("ValidateCompatibility class=%s", class))
		}
		c.Count("pairs")
		c.Count("class:" + class)
		var first error
		verdicts := map[bool]int{}
		wit := map[string]any{"consumer": clipStr(sa.Describe(), 900), "producer": clipStr(sb.Describe(), 900), "pair_class": class, "detail": descr}
		for rep := 0; rep < 16; rep++ {
			var err error
			p, site, msg, stack := wk.Guard(func() { err = a.ValidateCompatibility(b) })
			if p {
				wit["stack"] = clipStr(stack, 2500)
				c.Violation("C15:panic:"+site, fmt.Sprintf("ValidateCompatibility panicked for a %s pair (%s): %s", class, descr, msg), wit)
				return
			}
			if rep == 0 {
				first = err
			}
			verdicts[err == nil]++
		}
		if len(verdicts) > 1 {
			c.Violation("C15:verdict-varies:"+class, fmt.Sprintf("the verdict varies over 16 evaluations of the same pair (%d accept, %d reject): %s", verdicts[true], verdicts[false], descr), wit)
			return
		}
		if wantNil && first != nil {
			wit["error"] = first.Error()
			c.Violation("C15:not-reflexive:"+class+":"+normMsg(first), fmt.Sprintf("a schema is not compatible with %s: %v", map[string]string{"self": "itself", "rebuilt": "a schema rebuilt from its own description", "rebuilt-reverse": "the schema it was rebuilt from"}[class], first), wit)
			return
		}
		if v := ref.Compat(sa, sb, &gen.Env{}, &gen.Env{}); v.MustReject {
			c.Count("class:" + class + "-must-reject")
			if class == "mutant" {
				c.Count("class:mutant-must-reject")
			}
			if first == nil {
				wit["rule"] = v.Why
				c.Violation("C15:accepted-must-reject:"+whyClass(v.Why), fmt.Sprintf("a producer that can never be consumed is accepted (%s): %s", descr, v.Why), wit)
			}
		}
	}
	typed := c01Typed(wk.NewRand(c.Seed, "C15-typed", 0))
	c.Cases(total, func(idx int64, r *wk.Rand) {
		if idx < int64(len(typed)) {
			// the typed constructors: every schema is compatible with itself and with a twin
			sub := typed[idx]
			twin := c01Typed(r)[idx]
			c.Eval(wk.Hash64(sub.name, "typed"), true)
			judge("self", sub.t, sub.t, sub.shape, sub.shape, true, "typed constructor "+sub.name+", same instance")
			judge("twin", sub.t, twin.t, sub.shape, sub.shape, true, "typed constructor "+sub.name+", two instances")
		}
		if idx < int64(len(matrix)) {
			bc := matrix[idx]
			a, ok1, _ := buildGuarded(bc.a)
			b, ok2, _ := buildGuarded(bc.b)
			if ok1 && ok2 {
				c.Eval(wk.Hash64(bc.a.Describe(), bc.b.Describe()), true)
				judge("bound-matrix", a, b, bc.a, bc.b, false, "enumerated nil/non-nil bound combination")
				judge("bound-matrix", b, a, bc.b, bc.a, false, "enumerated nil/non-nil bound combination (reversed)")
			}
			return
		}
		cfg := gen.Full()
		cfg.Describable = true
		cfg.TypedEnum, cfg.NilDisplay, cfg.WeirdBounds, cfg.GoodDefaults = false, false, false, true
		var sa *gen.Shape
		// two distinct instances of a recursive schema cannot be compared at all (known finding); it is probed
		// on exactly two fixed cases per run - every further probe would only cost a worker restart
		recursiveRebuiltBudget, recursiveMutantBudget := 0, 0
		if tricky := gen.TrickyShapes(); idx-int64(len(matrix)) < int64(2*len(tricky)) {
			k := int(idx - int64(len(matrix)))
			sa = tricky[k%len(tricky)]
			if k == 0 {
				recursiveRebuiltBudget = 1
			}
			if k == 3 {
				recursiveMutantBudget = 1
			}
		} else if r.Chance(60) {
			sa = gen.GenScope(r, cfg)
		} else {
			sa = gen.GenType(r, cfg)
		}
		a, ok, _ := buildGuarded(sa)
		if !ok {
			c.Count("misbuilt_schemas")
			return
		}
		c.Eval(wk.Hash64(sa.Describe(), "self"), false)
		judge("self", a, a, sa, sa, true, "the same instance on both sides")
		// a second, independently built instance of the same shape
		if a2, ok2, _ := buildGuarded(sa); ok2 {
			if !isRecursive(sa) {
				c.Eval(wk.Hash64(sa.Describe(), "twin"), true)
				judge("twin", a, a2, sa, sa, true, "two instances built from the same constructors")
			}
		}
		if scope, isScope := a.(*schema.ScopeSchema); isScope {
			rec := isRecursive(sa)
			if !rec || recursiveRebuiltBudget > 0 {
				var rb *schema.ScopeSchema
				var rerr error
				if p, _, _, _ := wk.Guard(func() { rb, rerr = rebuildScope(scope) }); !p && rerr == nil {
					if rec {
						recursiveRebuiltBudget--
						c.Count("recursive_rebuilt_pairs")
					}
					c.Eval(wk.Hash64(sa.Describe(), "rebuilt"), true)
					judge("rebuilt", a, rb, sa, sa, true, "consumer original, producer rebuilt from the original's description")
					judge("rebuilt-reverse", rb, a, sa, sa, true, "consumer rebuilt, producer original")
				} else {
					c.Count("not_describable")
				}
			}
		}
		nMut := 3
		if isRecursive(sa) {
			// two distinct instances of a recursive schema cannot be compared at all (known finding): one
			// probe per worker is enough to keep reporting it, the rest would only cost restarts
			nMut = 0
			if recursiveMutantBudget > 0 {
				recursiveMutantBudget--
				nMut = 1
			}
		}
		for k := 0; k < nMut; k++ {
			sb, what := c15Mutate(r, sa)
			if what == "unchanged" {
				continue
			}
			b, ok, _ := buildGuarded(sb)
			if !ok {
				c.Count("misbuilt_mutants")
				continue
			}
			c.Eval(wk.Hash64(sa.Describe(), sb.Describe()), true)
			judge("mutant", a, b, sa, sb, false, what)
			judge("mutant-reverse", b, a, sb, sa, false, what+" (consumer and producer swapped)")
		}
		if r.Chance(30) {
			so := gen.GenType(r, cfg)
			if o, ok, _ := buildGuarded(so); ok && !isRecursive(so) && !isRecursive(sa) {
				c.Eval(wk.Hash64(sa.Describe(), so.Describe()), true)
				judge("unrelated", a, o, sa, so, false, "independently generated schemas")
			}
		}
		if idx%503 == 0 {
			c.Sample("consumer", sa.Describe())
		}
	})
}

// c15Directed: pairs built by hand through the constructors whose verdict follows from the statement (a producer
// with an incompatible property type somewhere can never be consumed), in places generated pairs do not reach:
// a recursive consumer against a finite unrolled producer, references into an external namespace behind which
// different objects were linked, and a one-of whose two keys share one member object.
type c15T struct {
	A any `json:"a"`
}

func c15Directed(c *wk.Ctx) {
	intT := func() schema.Type { return schema.NewIntSchema(nil, nil, nil) }
	strT := func() schema.Type { return schema.NewStringSchema(nil, nil, nil) }
	prop := func(t schema.Type, req bool) *schema.PropertySchema {
		return schema.NewPropertySchema(t, nil, req, nil, nil, nil, nil, nil)
	}
	type pair struct {
		name       string
		a, b       func() schema.Type
		mustReject bool
	}
	var pairs []pair
	recursive := func() schema.Type {
		return schema.NewScopeSchema(schema.NewObjectSchema("Node", map[string]*schema.PropertySchema{"value": prop(intT(), true), "next": prop(schema.NewRefSchema("Node", nil), false)}))
	}
	unrolled := func(depth, badAt int) func() schema.Type {
		return func() schema.Type {
			var build func(d int) *schema.ObjectSchema
			build = func(d int) *schema.ObjectSchema {
				props := map[string]*schema.PropertySchema{"value": prop(intT(), true)}
				if d == badAt {
					props["value"] = prop(strT(), true)
				}
				if d < depth {
					props["next"] = prop(build(d+1), false)
				}
				return schema.NewObjectSchema("Node", props)
			}
			return schema.NewScopeSchema(build(0))
		}
	}
	for depth := 0; depth <= 3; depth++ {
		pairs = append(pairs, pair{fmt.Sprintf("recursive consumer <- finite chain of depth %d, all compatible", depth), recursive, unrolled(depth, -1), false})
		for bad := 0; bad <= depth; bad++ {
			pairs = append(pairs, pair{fmt.Sprintf("recursive consumer <- finite chain of depth %d, value is a string at level %d", depth, bad), recursive, unrolled(depth, bad), true})
		}
	}
	external := func(valueType func() schema.Type, extra bool) func() schema.Type {
		return func() schema.Type {
			s := schema.NewScopeSchema(schema.NewObjectSchema("Root", map[string]*schema.PropertySchema{
				"x": prop(schema.NewNamespacedRefSchema("Ext", "things", nil), true),
				"l": prop(schema.NewListSchema(schema.NewNamespacedRefSchema("Ext", "things", nil), nil, nil), false)}))
			props := map[string]*schema.PropertySchema{"a": prop(valueType(), true)}
			if extra {
				props["undeclared_on_the_other_side"] = prop(intT(), false)
			}
			s.ApplyNamespace(map[string]*schema.ObjectSchema{"Ext": schema.NewObjectSchema("Ext", props)}, "things")
			return s
		}
	}
	pairs = append(pairs,
		pair{"same namespace and ID, same object behind it", external(intT, false), external(intT, false), false},
		pair{"same namespace and ID, property of another kind behind it", external(intT, false), external(strT, false), true},
		pair{"same namespace and ID, an undeclared property behind it", external(intT, false), external(intT, true), true})
	aliased := func() schema.Type {
		x := schema.NewObjectSchema("X", map[string]*schema.PropertySchema{"v": prop(intT(), true)})
		return schema.NewOneOfStringSchema[any](map[string]schema.Object{"a": x, "b": x}, "_type", false)
	}
	split := func(second func() schema.Type) func() schema.Type {
		return func() schema.Type {
			return schema.NewOneOfStringSchema[any](map[string]schema.Object{
				"a": schema.NewObjectSchema("X", map[string]*schema.PropertySchema{"v": prop(intT(), true)}),
				"b": schema.NewObjectSchema("X", map[string]*schema.PropertySchema{"v": prop(second(), true)})}, "_type", false)
		}
	}
	pairs = append(pairs,
		pair{"one-of with one object under two keys <- two compatible objects", aliased, split(intT), false},
		pair{"one-of with one object under two keys <- the second key's object is incompatible", aliased, split(strT), true})
	// enums of different base kinds whose values coincide once an integer is read as a code point (65 <-> "A")
	strEnum := func() schema.Type {
		return schema.NewStringEnumSchema(map[string]*schema.DisplayValue{"A": {}, "B": {}})
	}
	intEnum := func() schema.Type {
		return schema.NewIntEnumSchema(map[int64]*schema.DisplayValue{65: {}, 66: {}}, nil)
	}
	pairs = append(pairs,
		pair{"string enum {A,B} <- int enum {65,66}", strEnum, intEnum, true},
		pair{"int enum {65,66} <- string enum {A,B}", intEnum, strEnum, true},
		pair{"string enum {A,B} <- string enum {A,B}", strEnum, strEnum, false},
		pair{"string <- int enum {65,66}", strT, intEnum, true},
		pair{"int <- string enum {A,B}", intT, strEnum, true})
	// the same producers built with the typed constructors: the verdict is about the schemas, not about which
	// constructor built them
	i64 := func(v int64) *int64 { return &v }
	strTyped := func() schema.TypedType[string] { return schema.NewStringSchema(nil, nil, nil) }
	intTyped := func() schema.TypedType[int64] { return schema.NewIntSchema(nil, nil, nil) }
	listOf := func(min, max *int64) func() schema.Type {
		return func() schema.Type { return schema.NewListSchema(strT(), min, max) }
	}
	typedListOf := func(min, max *int64) func() schema.Type {
		return func() schema.Type { return schema.NewTypedListSchema[string](strTyped(), min, max) }
	}
	typedIntListOf := func(min, max *int64) func() schema.Type {
		return func() schema.Type { return schema.NewTypedListSchema[int64](intTyped(), min, max) }
	}
	mapOf := func(min, max *int64) func() schema.Type {
		return func() schema.Type { return schema.NewMapSchema(strT(), intT(), min, max) }
	}
	typedMapOf := func(min, max *int64) func() schema.Type {
		return func() schema.Type { return schema.NewTypedMapSchema[string, int64](strTyped(), intTyped(), min, max) }
	}
	objOf := func(v func() schema.Type) func() schema.Type {
		return func() schema.Type {
			return schema.NewObjectSchema("T", map[string]*schema.PropertySchema{"a": prop(v(), true)})
		}
	}
	typedObjOf := func(v func() schema.Type) func() schema.Type {
		return func() schema.Type {
			return schema.NewTypedObject[c15T]("T", map[string]*schema.PropertySchema{"a": prop(v(), true)})
		}
	}
	inList := func(f func() schema.Type) func() schema.Type {
		return func() schema.Type { return schema.NewListSchema(f(), nil, nil) }
	}
	pairs = append(pairs,
		pair{"list[string] 5..9 <- typed list[string] 0..2 (sizes cannot meet)", listOf(i64(5), i64(9)), typedListOf(i64(0), i64(2)), true},
		pair{"list[string] 5..9 <- list[string] 0..2 (sizes cannot meet)", listOf(i64(5), i64(9)), listOf(i64(0), i64(2)), true},
		pair{"list[string] 5.. <- typed list[string] ..2 (sizes cannot meet)", listOf(i64(5), nil), typedListOf(nil, i64(2)), true},
		pair{"list[string] 5..9 <- typed list[string] 5..9", listOf(i64(5), i64(9)), typedListOf(i64(5), i64(9)), false},
		pair{"list[string] <- typed list[string]", listOf(nil, nil), typedListOf(nil, nil), false},
		pair{"list[string] <- typed list[int]", listOf(nil, nil), typedIntListOf(nil, nil), true},
		pair{"list of list[string] 5..9 <- list of typed list[string] 0..2", inList(listOf(i64(5), i64(9))), inList(typedListOf(i64(0), i64(2))), true},
		pair{"map[string]int 3.. <- typed map[string]int ..1 (sizes cannot meet)", mapOf(i64(3), nil), typedMapOf(nil, i64(1)), true},
		pair{"map[string]int 3.. <- map[string]int ..1 (sizes cannot meet)", mapOf(i64(3), nil), mapOf(nil, i64(1)), true},
		pair{"map[string]int <- typed map[string]int", mapOf(nil, nil), typedMapOf(nil, nil), false},
		pair{"object{a:int} <- typed object{a:int}", objOf(intT), typedObjOf(intT), false},
		pair{"object{a:int} <- typed object{a:string}", objOf(intT), typedObjOf(strT), true},
		pair{"typed object{a:int} <- object{a:string}", typedObjOf(intT), objOf(strT), true},
		pair{"typed list[string] 5..9 <- list[string] 0..2 (sizes cannot meet)", typedListOf(i64(5), i64(9)), listOf(i64(0), i64(2)), true})
	// scopes whose roots differ, where the producer also declares an object named like the consumer's root: what is
	// compared is root against root
	itemObj := func() *schema.ObjectSchema {
		return schema.NewObjectSchema("Item", map[string]*schema.PropertySchema{"sku": prop(strT(), true)})
	}
	itemScope := func() schema.Type { return schema.NewScopeSchema(itemObj()) }
	orderScope := func() schema.Type {
		return schema.NewScopeSchema(schema.NewObjectSchema("Order", map[string]*schema.PropertySchema{
			"id": prop(intT(), true), "items": prop(schema.NewListSchema(schema.NewRefSchema("Item", nil), nil, nil), false)}), itemObj())
	}
	embed := func(f func() schema.Type) func() schema.Type {
		return func() schema.Type {
			return schema.NewScopeSchema(schema.NewObjectSchema("Outer", map[string]*schema.PropertySchema{"inner": prop(f(), true)}))
		}
	}
	pairs = append(pairs,
		pair{"scope(Item) <- scope(Order + Item): the producer's root is another object", itemScope, orderScope, true},
		pair{"scope(Order + Item) <- scope(Item)", orderScope, itemScope, true},
		pair{"scope(Item) <- scope(Item)", itemScope, itemScope, false},
		pair{"scope(Order + Item) <- scope(Order + Item)", orderScope, orderScope, false},
		pair{"Outer{inner: scope(Item)} <- Outer{inner: scope(Order + Item)}", embed(itemScope), embed(orderScope), true})
	// float ranges that do not meet, however small the gap or the numbers
	f64 := func(v float64) *float64 { return &v }
	floatOf := func(min, max *float64) func() schema.Type {
		return func() schema.Type { return schema.NewFloatSchema(min, max, nil) }
	}
	pairs = append(pairs,
		pair{"float 0..2e-10 <- float 5e-10..9e-10 (disjoint)", floatOf(f64(0), f64(2e-10)), floatOf(f64(5e-10), f64(9e-10)), true},
		pair{"float 0..1 <- float nextafter(1)..2 (disjoint by one ulp)", floatOf(f64(0), f64(1)), floatOf(f64(math.Nextafter(1, 2)), f64(2)), true},
		pair{"float 1e300..2e300 <- float 3e300..4e300 (disjoint)", floatOf(f64(1e300), f64(2e300)), floatOf(f64(3e300), f64(4e300)), true},
		pair{"float 0..1 <- float 1..2 (they meet at 1)", floatOf(f64(0), f64(1)), floatOf(f64(1), f64(2)), false},
		pair{"float ..-1e-12 <- float 0.. (disjoint)", floatOf(nil, f64(-1e-12)), floatOf(f64(0), nil), true},
		pair{"list of float 0..1e-12 <- list of float 2e-12..3e-12", inList(floatOf(f64(0), f64(1e-12))), inList(floatOf(f64(2e-12), f64(3e-12))), true})
	for _, pr := range pairs {
		c.Note("ValidateCompatibility directed: " + pr.name)
		c.Count("pairs")
		c.Count("class:directed")
		c.Eval(wk.Hash64("directed", pr.name), true)
		var a, b schema.Type
		if p, _, msg, _ := wk.Guard(func() { a, b = pr.a(), pr.b() }); p {
			c.Violation("C15:directed:cannot-build", "a hand-written schema could not be built: "+msg, map[string]any{"pair": pr.name})
			continue
		}
		verdicts := map[bool]int{}
		var first error
		wit := map[string]any{"pair": pr.name}
		panicked := false
		for rep := 0; rep < 64 && !panicked; rep++ {
			var err error
			if p, site, msg, _ := wk.Guard(func() { err = a.ValidateCompatibility(b) }); p {
				c.Violation("C15:panic:"+site, "ValidateCompatibility panicked for the hand-written pair "+pr.name+": "+msg, wit)
				panicked = true
				break
			}
			if rep == 0 {
				first = err
			}
			verdicts[err == nil]++
		}
		if panicked {
			continue
		}
		if len(verdicts) > 1 {
			c.Violation("C15:verdict-varies:directed", fmt.Sprintf("the verdict varies over 64 evaluations of the same pair (%d accept, %d reject): %s", verdicts[true], verdicts[false], pr.name), wit)
			continue
		}
		if pr.mustReject && first == nil {
			c.Violation("C15:accepted-must-reject:directed:"+strings.SplitN(pr.name, " <-", 2)[0], "a producer that can never be consumed is accepted: "+pr.name, wit)
		}
		if !pr.mustReject && first != nil {
			wit["error"] = first.Error()
			c.Violation("C15:rejected-compatible:directed:"+strings.SplitN(pr.name, " <-", 2)[0], fmt.Sprintf("a producer whose every part is identical to the consumer's is rejected (%s): %v", pr.name, first), wit)
		}
	}
}

func init() { register("C15", runC15) }
