#!/bin/bash
# usage: sweep.sh <tier> <seed> [ids...]  - runs the checks one after the other, prints one line per check
export GOFLAGS=-mod=mod GOPROXY=off GOSUMDB=off GOTOOLCHAIN=local
T=$1; S=$2; shift 2
IDS=${@:-C01 C02 C03 C04 C05 C06 C07 C08 C09 C10 C11 C12 C13 C14 C15 C16 C17 C18 C19}
cd /verif
for id in $IDS; do
  out=/tmp/sweep.$id.$T.$S.out
  VERIF_SEED=$S timeout 14400 bin/vcheck $id --tier $T > $out 2>&1
  rc=$?
  echo "rc=$rc $(grep -c '^VIOLATION' $out) viol $(grep -c '^KNOWN-FINDING' $out) known | $(tail -1 $out | cut -c1-220)"
done
