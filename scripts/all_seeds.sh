#!/bin/bash
# usage: all_seeds.sh [tier]  - applies every kept seeded change in turn, runs its property's check, restores /repo
cd /verif
T=${1:-quick}
for d in seeded/C*/; do
  n=$(basename $d); p=${n%%-*}
  scripts/try_seed.sh /verif/seeded/$n $p $T 2>&1 | tail -1 | cut -c1-260
done
git -C /repo status --short
