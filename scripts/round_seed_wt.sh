#!/bin/bash
# usage: round_seed_wt.sh <ID-k>...   confirm + try (in scratch worktrees) each ${SEEDOUT:-/tmp/seed-out}/<ID-k>
cd /verif
for n in "$@"; do
  p=${n%%-*}
  c=$(scripts/confirm_seed.sh ${SEEDOUT:-/tmp/seed-out}/$n 2>&1 | tail -1 | cut -c1-200)
  t=$(scripts/try_seed_wt.sh ${SEEDOUT:-/tmp/seed-out}/$n $p quick 2>&1 | tail -1 | cut -c1-300)
  echo "$n | $c | $t"
done
