#!/bin/bash
# usage: try_seed_wt.sh <seed-dir> <property> [tier]
# Like try_seed.sh, but applies the change to a scratch worktree of /repo HEAD (VERIF_REPO) instead of /repo
# itself, so that it can run while something else builds from /repo. Prints DETECTED / MISSED / NOAPPLY.
set -u
export GOFLAGS=-mod=mod GOPROXY=off GOSUMDB=off GOTOOLCHAIN=local
D=$(readlink -f $1); P=$2; T=${3:-quick}; N=$(basename $D)
WT=/tmp/wt-try-$N-$$
git -C /repo worktree add -q --detach $WT HEAD || { echo "FAIL worktree"; exit 9; }
cleanup() { git -C /repo worktree remove --force $WT >/dev/null 2>&1; }
trap cleanup EXIT
if ! git -C $WT apply --3way "$D/patch.diff" >/tmp/try_seed.apply.$$ 2>&1; then echo "NOAPPLY $N"; exit 3; fi
if ! (cd $WT && go build ./... >/tmp/try_seed.build.$$ 2>&1); then echo "NOBUILD $N"; exit 4; fi
cd ${VDIR:-/verif}
OUT=/tmp/try_seed.$N.$P.out
VERIF_REPO=$WT VERIF_NO_EVIDENCE=1 timeout 3000 bin/vcheck $P --tier $T > $OUT 2>&1
RC=$?
if grep -q "^VIOLATION property=$P" $OUT; then echo "DETECTED $N by $P ($T): $(grep -A1 '^VIOLATION' $OUT | grep 'key=' | head -3 | tr '\n' ' ' | cut -c1-300)"; else echo "MISSED $N by $P ($T) rc=$RC: $(tail -1 $OUT | cut -c1-200)"; fi
