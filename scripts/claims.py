# Executed by mkmanifest.py. claimed[id] = (category, technique, level text, level note, design ref)
not_applicable = {}
claimed["C16"] = (
    "exploration",
    "runtime oracle: format->parse round-trip monitor + big-rational reference parser over swept and generated inputs",
    "Every integer in [0,200000] for 8 unit sets (complete sweep) plus generated definitions, boundary integers, floats and generated well-formed / near-miss strings are pushed through the real Format*/Parse* and IntSchema/FloatSchema.Unserialize; an independent exact (math/big) parser decides what each string denotes. Held on what was observed; the integer sweep is complete, the rest sampled.",
    "trusts math/big and the harness' own grammar (DESIGN.md App. A); floats limited to <=6 decimals because the SDK prints %f; unspecified strings (bare numbers, repeated units) only checked for 'never a wrong number'",
    "DESIGN.md §3 C16",
)

claimed["C18"] = (
    "exploration",
    "runtime oracle: exhaustive signature x declaration matrix through the real constructors and Call, compared with a reference acceptance predicate; recording handlers",
    "Handlers are synthesised with reflect.MakeFunc for the full matrix of 0..3 (thorough: 0..4) parameters over 11 native types x 11 result shapes (incl. a non-error type named `error`, extra results, error first) x declared inputs/output/error flag; NewCallableFunction and NewDynamicCallableFunction verdicts are compared with an independently written predicate, and every accepted function is called with 0..4 arguments, with and without a handler error. The matrix is enumerated completely.",
    "trusts reflect.FuncOf/MakeFunc; only signatures vary, not handler bodies; dynamic handlers returning a non-empty interface are unspecified and skipped",
    "DESIGN.md §3 C18",
)
claimed["C19"] = (
    "exploration",
    "runtime monitor over generator subprocess runs: exit status, go/parser re-parse against the expected struct/field multiset, byte-identity across repeated runs",
    "The generator binary is rebuilt from the working tree and run 6x per (generated YAML, argument form) in a private directory; failures, unparseable output, wrong struct/field sets and run-to-run differences (map iteration order) are violations. Held on the generated inputs; one known finding (type_id map).",
    "identifiers are ASCII without underscores and unique ignoring case (title-casing is delegated to x/text); Go keywords are not identifiers and are not generated as names",
    "DESIGN.md §3 C19",
)
claimed["C06"] = (
    "exploration",
    "controlled schedule exploration with a stop-the-world quiescence (deadlock) monitor over yield points inserted before every statement of atp/*.go (build overlay)",
    "The real client and the real RunATPServer run in one process over in-memory transports. A build overlay puts a yield point before every statement of atp/client.go and atp/server.go of the working tree; for each of 10 session histories every reached (point, hit<=3) is paused singly, pairs are sampled. A paused goroutine is held until a goroutine snapshot (runtime.Stack all, world stopped) shows all others blocked, then released - logical time, no sleeps. A snapshot in which every goroutine is blocked on chan/cond/mutex/WaitGroup, nothing is parked and no SDK timer is pending, while an Execute/Close has not returned, is a definite deadlock; goroutines with client frames blocked after Close are leaks. Held on the schedules explored (singles complete per history, pairs sampled).",
    "trusts runtime.Stack's goroutine states; the SDK's two timer selects are recognised by function name (a run parked there is inconclusive, never a violation); statement-granularity single/pair pauses only",
    "DESIGN.md §1, §3 C06",
)
