# Executed by mkmanifest.py. claimed[id] = (category, technique, level text, level note, design ref)
not_applicable = {}
claimed["C16"] = (
    "exploration",
    "runtime oracle: format->parse round-trip monitor + big-rational reference parser over swept and generated inputs",
    "Every integer in [0,200000] for 8 unit sets (complete sweep) plus generated definitions, boundary integers, floats and generated well-formed / near-miss strings are pushed through the real Format*/Parse* and IntSchema/FloatSchema.Unserialize; an independent exact (math/big) parser decides what each string denotes. Held on what was observed; the integer sweep is complete, the rest sampled.",
    "trusts math/big and the harness' own grammar (DESIGN.md App. A); floats limited to <=6 decimals because the SDK prints %f; unspecified strings (bare numbers, repeated units) only checked for 'never a wrong number'",
    "DESIGN.md §3 C16",
)

claimed["C18"] = (
    "exploration",
    "runtime oracle: exhaustive signature x declaration matrix through the real constructors and Call, compared with a reference acceptance predicate; recording handlers",
    "Handlers are synthesised with reflect.MakeFunc for the full matrix of 0..3 (thorough: 0..4) parameters over 11 native types x 11 result shapes (incl. a non-error type named `error`, extra results, error first) x declared inputs/output/error flag; NewCallableFunction and NewDynamicCallableFunction verdicts are compared with an independently written predicate, and every accepted function is called with 0..4 arguments, with and without a handler error. The matrix is enumerated completely.",
    "trusts reflect.FuncOf/MakeFunc; only signatures vary, not handler bodies; dynamic handlers returning a non-empty interface are unspecified and skipped",
    "DESIGN.md §3 C18",
)
claimed["C19"] = (
    "exploration",
    "runtime monitor over generator subprocess runs: exit status, go/parser re-parse against the expected struct/field multiset, byte-identity across repeated runs",
    "The generator binary is rebuilt from the working tree and run 6x per (generated YAML, argument form) in a private directory; failures, unparseable output, wrong struct/field sets and run-to-run differences (map iteration order) are violations. Held on the generated inputs; one known finding (type_id map). Odd runs regenerate over an existing, longer output file.",
    "identifiers are ASCII without underscores and unique ignoring case (title-casing is delegated to x/text); Go keywords are not identifiers and are not generated as names",
    "DESIGN.md §3 C19",
)
claimed["C06"] = (
    "exploration",
    "controlled schedule exploration with a stop-the-world quiescence (deadlock) monitor over yield points inserted before every statement of atp/*.go (build overlay)",
    "The real client and the real RunATPServer run in one process over in-memory transports. A build overlay puts a yield point before every statement of atp/client.go and atp/server.go of the working tree; for each of 10 session histories every reached (point, hit<=3) is paused singly, pairs are sampled. A paused goroutine is held until a goroutine snapshot (runtime.Stack all, world stopped) shows all others blocked, then released - logical time, no sleeps. A snapshot in which every goroutine is blocked on chan/cond/mutex/WaitGroup, nothing is parked and no SDK timer is pending, while an Execute/Close has not returned, is a definite deadlock; goroutines with client frames blocked after Close are leaks. Also: three histories over rendezvous pipes (error-message backlogs, Close in the middle of the traffic, a slow client reader; plain and with every reached statement paused singly), where a state in which only the plugin's 60 s send timer is pending while a caller waits is a verdict (one shape of it is a known finding), and signal traffic from the step played by a scripted peer (fault-free C08 transcripts with emitted signals and late consumers) under every single pause of the client's statements. Held on the schedules explored (singles complete per history, pairs sampled).",
    "trusts runtime.Stack's goroutine states; the SDK's two timer selects are recognised by function name (a run parked there is inconclusive, never a violation); statement-granularity single/pair pauses only",
    "DESIGN.md §1, §3 C06",
)
claimed["C05"] = (
    "exploration",
    "runtime differential monitor (Execute vs in-process CallStep on a fresh plugin) + offline event-log checker over tapped byte streams, under chunking transports, yield-point pauses and the race detector",
    "Generated sessions (1..12 executes, serial/concurrent/staggered, valid and schema-rejected inputs, every handler behaviour, to-step signals) run against the real client and server over sync / buffered / chunked in-memory transports (and a fake ATP v1 server), with random pauses at yield points (overlay build) and again under -race. Every Execute result is compared with CallStep on a fresh identical plugin after CBOR normalisation; the tapped streams are re-parsed independently: framing, exactly one terminal message per started run, none for unknown runs, the run's nonce in its own result, no two writers inside Write at once. Held on the sessions explored (sampled).",
    "handlers are pure functions of the input that embed the run's unique nonce; trusts fxamacker/cbor for the independent stream parse; sessions are sampled, not enumerated",
    "DESIGN.md §3 C05",
)
claimed["C07"] = (
    "fault_enumeration",
    "scripted hostile client against the real RunATPServer under process supervision + quiescence deadlock monitor + offline checker of the tapped output (terminal messages per accepted run); Go race detector on the same scripts",
    "Directed scripts put every production of a client-behaviour grammar (malformed envelopes, undecodable CBOR, unknown step/signal/message IDs, duplicate run IDs, signals for unstarted runs, traffic after client-done) right after a valid (finished / still running / panicking) work-start; random scripts add mixtures. Each script is delivered whole (burst and one message per quiescent point), with gated steps released before or after end of input, with the output closed early, and cut at EVERY byte offset. A fatal crash of the worker, a recovered panic, a quiescent state in which RunATPServer has not returned, or a count of terminal messages per run that differs from the number of accepted work-starts (computed from the delivered bytes by an independent decoder) is a violation. Every second session runs on stdin/stdout ends with os.File close semantics (a second Close is an error); the whole-script deliveries and a sample of the cuts are repeated in a -race build, where every race report with an SDK frame is a violation.",
    "accepted = well-formed envelope with non-empty run and step ID delivered before client-done / first undecodable item / cut; output is a never-blocking pipe unless the case closes it; trusts fxamacker/cbor for the independent parse",
    "DESIGN.md §3 C07",
)
claimed["C08"] = (
    "fault_enumeration",
    "transcript replay by a request-gated fake server with stream faults at every byte offset; quiescence monitor for hangs; intact-delivery oracle from message boundaries",
    "Nine server transcripts (v3 and v1; serial, concurrent with emitted signals and errors, server-fatal midway, trailing messages) and ten hellos that must be refused are replayed against the real client; the server->client stream is cut with EOF / read error / garbage tail at every offset of the runtime part and (thorough) of the hello, the write side fails independently from write #j. A recovered or fatal panic, a call that has not returned when every goroutine is blocked, or a success whose work-done (hello) did not end before the cut, or that differs from the transcript, is a violation. A single flipped byte (5 masks) inside one runtime message, after which the stream ends, is judged for panics, hangs and return counts only. Flips that hit the header or an envelope key of a work-done message also decide 'no success'. Two transcripts have emitted signals whose consumers start late, and the work-start write may be delivered and then report an error while the first signal is being handed over.",
    "a broken client->server stream is modelled as the server seeing end of input and closing its output; in-payload corruption is not demanded (only an all-0xff garbage tail makes 'not intact' decidable); the SDK's 5 s close timeout is waited for in real time",
    "DESIGN.md §3 C08",
)
claimed["C04"] = (
    "exploration",
    "supervised worker processes (recovered panics, fatal-crash attribution by journal, CPU-time non-termination verdict) over generated schemas x hostile value domain at every position",
    "Generated schemas of all 15 kinds (map-based and struct-mapped objects, typed enums, one-of, treat-empty-as-default, recursive references) are hit with ~66 classes of hostile values (nil, typed nils, wrong kinds, NaN/Inf, 2^63, []byte, cbor.Tag, big.Int, typed maps/slices, odd map keys, named scalars, pointers, wrong structs, funcs) at the root, substituted at random positions of valid inputs and of unserialized natives, plus alternative representations, CBOR images and 2000-deep nesting, through Unserialize, data-mode ValidateCompatibility, Validate and Serialize. Any recovered panic, fatal exit (stack overflow) or 20 s of CPU on one journalled call is a violation. Held on the calls made (sampled pairs of schema position x dynamic type).",
    "struct-mapped objects range over a fixed pool of Go types; nesting depth 2000 (quadratic error-message building makes deeper inputs slow but terminating, which is not demanded)",
    "DESIGN.md §3 C04",
)
claimed["C01"] = (
    "exploration",
    "metamorphic runtime monitor: unserialize/validate/serialize/re-unserialize chains in memory and through the CBOR encoding ATP uses, typed vs untyped entry points compared by reflection",
    "For generated schemas of every kind (incl. struct-mapped objects over a pool of Go types, one-of, references, hand-written tricky reference shapes) and 9 typed-constructor schemas, generated valid inputs in random representations, their CBOR images and near-boundary perturbations are pushed through v=U(r); Validate(v); w=S(v); U(w)=v; U(cbor(w))=v; S idempotent; cbor(w) stable; UnserializeType/ValidateType/SerializeType agree with the untyped calls. No reference model is involved. Held on the chains run (sampled).",
    "equality is typed deep equality with NaN=NaN, -0=0, nil slice/map = empty; struct-mapped optional properties on non-pointer fields are made required or treat-empty-as-default by the generator (a Go struct cannot represent their absence); one-of members sharing a Go struct type are not generated (the SDK cannot tell them apart when serializing)",
    "DESIGN.md §3 C01",
)
claimed["C02"] = (
    "exploration",
    "runtime differential against an independent reference interpreter of the declared constraints, over an enumerated boundary x representation space for scalars and generated containers; native-form mutation checks for Validate/Serialize",
    "Every combination of absent/present bounds (incl. +-2^63, +-Inf, -0, min>max), units and patterns for int/float/string/bool/pattern/enum schemas is run against its boundary set in every Go representation (enumerated: ~20k cases, in both tiers); generated lists/maps/any add valid inputs in random representations, CBOR images, perturbed and hostile leaves and exact size boundaries. The reference (internal/ref, written from the property text, three-valued) says must-accept(value) / must-reject / unspecified; the SDK's Unserialize must agree and return exactly the denoted value; on unspecified conversions an accepted result must still satisfy every constraint. Validate and Serialize are checked on values in native form: accepted exactly when the reference's constraint check passes, and every accepted native is mutated to break one constraint and must then be rejected by both.",
    "trusts the reference interpreter (self-consistent with C01 chains and hand-checked tables); string length = bytes; conversions the statement does not name are unspecified",
    "DESIGN.md §3 C02, App. A",
)
claimed["C03"] = (
    "exploration",
    "runtime differential against the reference interpreter over an enumerated space of small objects (flags x rule graphs x supplied subsets) and one-of dispatch cases, map-based and struct-mapped; native-form checks for Validate/Serialize",
    "Objects with 1 and 2 properties are enumerated over the full product of required / default / disabled and all required_if / required_if_not / conflicts subsets, objects with 3 properties over required x default x one rule kind per property with every subset of the others, each with all supplied subsets, on a map-based object and on a struct-mapped one (quick: all of k<=2 and a 1/8 slice of k=3; thorough: everything); one-of schemas are enumerated over key type x inlining x member kinds x discriminator representations x payloads x map key types; generated objects and scopes add larger shapes. Unserialize must agree with the reference (acceptance and denoted value, defaults never overriding supplied values, presence rules after defaulting); Validate and Serialize must accept a native map / struct exactly when it satisfies the key, type, presence and dispatch rules.",
    "k=3 restricts each property to one rule kind; disabled+default-only and absent by-value sub-objects of struct-mapped parents are unspecified; trusts the reference interpreter",
    "DESIGN.md §3 C03, App. A",
)
claimed["C17"] = (
    "exploration",
    "single-fault injection into valid inputs with the path known by construction; runtime check of errors.As(*ConstraintError).Path",
    "Generated nested schemas (map-based objects, lists, maps, one-of, references, scopes) with an input that both the reference and the SDK accept; every leaf, collection, required property and presence rule on the way is corrupted one at a time (wrong type, below min, above max, pattern miss, not in enum, undeclared key, missing required property, a violated required_if / required_if_not / conflicts rule with exactly one violating property). The error of Unserialize and of Validate (on native-form trees) must be a ConstraintError whose path, without one-of markers and decoration, equals the injector's path; undeclared keys must be named in the message. The evidence holds the (corruption kind x innermost container) matrix. Map entries are also addressed by keys written differently from their canonical form and by keys of the wrong type; one case in five breaks one scalar leaf of a struct-mapped Go value and demands the path in property IDs from Validate.",
    "struct-mapped objects are not injected into; corrupted inputs that the reference does not classify as must-reject are skipped",
    "DESIGN.md §3 C17",
)
claimed["C15"] = (
    "exploration",
    "supervised runtime monitor over generated ordered schema pairs: totality (recovered panics, fatal stack overflow attribution), 16-fold repetition for determinism, reflexivity, and a reference statement of the must-reject rules",
    "Consumer/producer pairs are built through the constructors: a schema with itself, with an independently built twin, with the schema rebuilt from its own description, with single-feature mutants at random depth (ranges made disjoint, kinds replaced, enum values added, properties added/removed, IDs renamed, one-of members removed, discriminators renamed), unrelated pairs, the 9 typed-constructor schemas, and an enumerated matrix of absent/present bounds on both sides for int/float/string/list/map (720 pairs, both directions). Each ValidateCompatibility call is journalled, guarded and repeated 16 times. Violations: no verdict (panic, stack overflow, hang), a verdict that varies, an error for self/twin/rebuilt, nil where internal/ref.Compat says the producer can never be consumed. One known finding (two distinct recursive instances).",
    "only must-reject classes named by the statement are judged; list sizes are read as size ranges; recursive pairs are probed on two fixed cases per run because each costs a worker restart",
    "DESIGN.md §3 C15",
)
claimed["C12"] = (
    "exploration",
    "runtime metamorphic monitor: N-fold repetition, deep argument snapshots, call histories on a used instance compared with a fresh instance and with its own earlier self-description, in-place scrambling of returned values",
    "For each generated shape two instances are built. A probe set (Unserialize / Validate / Serialize / data- and schema-mode ValidateCompatibility, valid, perturbed, hostile, default-filling and rejected arguments) is evaluated on the fresh one; the used one goes through a random history of 1..30 calls with every argument deep-snapshotted before and after and every container of every result overwritten in place; then every probe is evaluated 16 times on it. Violations: an argument changed by a call or by scrambling the result, two evaluations that differ, an outcome that differs from the fresh instance, a self-description that differs from the one taken before the history or from a never-used instance.",
    "GetDefaults() is not compared; inputs with keys that collide after normalisation are excluded from determinism; distinct recursive instances are not compared with each other (C15 known finding)",
    "DESIGN.md §3 C12",
)
claimed["C14"] = (
    "exploration",
    "runtime metamorphic monitor: scope with references vs the same scope with references mechanically inlined by the harness' own lexical resolution; link-state monitor over references enumerated through public accessors around every ApplyNamespace; supervised recursion probes",
    "Generated non-recursive scope trees (nested scopes with colliding IDs, references under properties/lists/maps/one-ofs, up to two external namespaces applied in every order, external objects shadowing local IDs), the scope rebuilt from its own description, and the inlined comparison schema are run on the same inputs: verdicts and unserialized values must coincide and agree with the reference interpreter. Before, between and after the ApplyNamespace calls ValidateReferences()==nil must hold exactly when all enumerated references report ObjectReady(), and references of other namespaces must keep state and target. Hand-written recursive / mutually recursive / rho-shaped scopes are driven with finite inputs of depth 1..500 and non-map values under process supervision. A hand-written finite scope must be constructible, and a generated scope must be whenever its inlined equivalent is.",
    "inlining is only defined for non-recursive graphs; namespaced references are not generated directly under a one-of; external namespace objects have no references of their own",
    "DESIGN.md §3 C14",
)
claimed["C09"] = (
    "exploration",
    "runtime metamorphic monitor: describe -> rebuild -> describe fixed point over direct / CBOR / YAML legs and a real ATP hello; behavioural differential between original and rebuilt schema on generated inputs",
    "Generated scopes using every feature the meta-schema has an entry for, a one-per-constructor matrix for the rest, and whole plugin schemas (steps, several outputs, signal handlers and emitters with their own data scopes) are described with SelfSerialize; the description is passed directly, through CBOR and through YAML into UnserializeScope (+ApplySelf) / UnserializeSchema, and through RunATPServer <-> Client.ReadSchema over chunking pipes; the rebuilt schema must describe itself identically and accept / reject / (map-based) unserialize generated inputs like the original, for every step input, output and signal data schema. Nine known findings: constructors whose schemas cannot be described. A tenth: a struct-mapped parent materialises an absent by-value sub-object, the rebuilt map-based schema does not.",
    "rebuilding a scope includes ApplySelf; struct-mapped objects are rebuilt map-based, so only their acceptance is compared",
    "DESIGN.md §3 C09",
)
claimed["C10"] = (
    "fault_enumeration",
    "supervised mutation of valid schema descriptions at every node, through UnserializeScope / UnserializeSchema / Client.ReadSchema, followed by exercising whatever was accepted (recovered panics, fatal-crash attribution, CPU-time hang verdict)",
    "Descriptions produced by SelfSerialize for generated scopes and plugin schemas (each carrying at least a one-of, a map and a list) are mutated exhaustively per description: at every node every applicable single mutation (delete, retype, rename, duplicate, re-point ids / roots / namespaces / discriminator names, all 15 type ids, grafting a complete description of another type, bad defaults and patterns, flipped flags, extreme bounds, bad unit multipliers), plus sampled pairs, grammar-free trees and hostile values; also after CBOR and in the hello message of a fake ATP server. Accepted results are linked and then driven through Unserialize / ValidateCompatibility / Validate / Serialize with valid, perturbed, hostile and unknown-discriminator inputs and through the accessors. Any panic at load, while linking or on use is a violation.",
    "a scope from UnserializeScope whose only unlinked references point to an EXTERNAL namespace is not exercised (linking those is the caller's job); quick enumerates 24 descriptions, thorough 900",
    "DESIGN.md §3 C10",
)
claimed["C11"] = (
    "exploration",
    "recording handlers + reference-interpreter oracle over generated plugins; controlled schedule exploration (yield-point overlay of schema/step.go and schema/schema.go with quiescence-driven release) and the Go race detector for the once-per-run initialisation",
    "Generated plugins (1-3 steps, generated input / output / signal-data scopes, several outputs, several signal handlers, a token-issuing initialiser) are called through CallableSchema.CallStep / CallSignal with valid, alternately represented, perturbed, property-dropped and hostile inputs, existing and unknown step / signal IDs, and handlers returning declared+conforming, declared+non-conforming or undeclared outputs. An independent three-valued interpreter of the schema decides whether the handler must have run (exactly once, with exactly the denoted value) and which error class must come back. Then the step call and the signal calls of the same and of different run IDs are issued one after the other in shuffled orders, together from up to 16 goroutines, with every reached statement of schema/step.go / schema.go paused singly (overlay build), and under -race: initialiser calls == run IDs, one step-data object per run, none shared across runs, no deadlock (stop-the-world goroutine snapshot), no panic, no race report. First-use rounds run on fresh twin plugins; the returned data is compared with the output schema's own Serialize of the handler's value; a rendezvous step (the signal handler hands a value to its running step over an unbuffered channel, both arrival orders) must complete.",
    "inputs whose acceptance the reference leaves unspecified only get the 'at most once' check; handler argument identity is judged on values (handlers take `any`); pauses are single, at statement granularity; the context value is how handler invocations are attributed to run IDs",
    "DESIGN.md §3 C11",
)
claimed["C13"] = (
    "exploration",
    "Go race detector over first-use races of fresh schema instances, plus a concurrent-equals-isolated result oracle; package-level values raced in a child process per trial",
    "Per trial two equal instances exist: one is used sequentially (the 'in isolation' outcome of every call, taken twice), the other is touched for the first time by 2..16 goroutines released together, each running the calls in its own shuffled order. Instances: generated shapes built with freshly constructed unit definitions; scopes rebuilt by UnserializeScope; generated callable plugins (CallStep / CallSignal with per-call and shared run IDs, plus rounds in which all goroutines use one new run ID at once); plugin schemas rebuilt by UnserializeSchema after CBOR; and the package-level unit definitions and meta-schemas, for which every trial is a child process whose very first SDK calls are the racing ones (compared with a sequential child). The whole workload runs in a plain and in a -race build; every race report (keyed by the two SDK functions), every outcome that differs from the isolated one, every runtime fatal (concurrent map access) and every extra initialiser run is a violation. A step whose signal handler hands a value to the running step (rendezvous, both arrival orders, quiescence monitor) must complete: a lock held across a handler is invisible to the race detector.",
    "the race detector only sees the interleavings that happen: evidence reports trials, goroutine counts and how many distinct first operations collided; errors are compared by presence; cross-instance ValidateCompatibility is skipped for recursive shapes (C15 known finding)",
    "DESIGN.md §3 C13",
)

# Round-5 additions to the level texts (what was added to each workload).
_extra = {
    "C01": " Inlined one-of members may declare their discriminator as an enum (typed string enum, string enum, int enum); struct pools include fields narrower than the declared bounds and objects built with the typed constructors.",
    "C02": " Also: maps whose keys are two spellings of one key in four Go map types (size bounds 2..2), and the first use of fresh unit definitions by 8 goroutines through IntSchema.Unserialize, compared with a twin used by one goroutine.",
    "C03": " Enumerated struct natives are also validated with one field out of bounds and then intact again (state must not leak from a failed validation into the next); an integer the mapped Go field cannot hold must be refused.",
    "C04": " Also: shorthand cycles through typed objects / typed scopes, valid values of recursive struct-mapped schemas nested up to 400 deep, free-form (any) positions under deep nesting.",
    "C05": " Sessions also issue empty step IDs and, in error bursts, a run ID a second time while the first run is pending.",
    "C07": " Scripts also contain work-starts the step refuses followed by valid signals for that run ID, and valid signal data on which the plugin's handler panics.",
    "C10": " A property whose type is a one-of also receives defaults that select a member by its discriminator (key as number and as text).",
    "C11": " Handlers are also registered under keys that differ from their own IDs, unknown signal IDs are also handed to the step object directly, and a many-runs round (up to 5 000 other runs between two uses of a run's step data) is included.",
    "C12": " A directed probe feeds maps whose keys are the same number in different Go integer types; the error returned by the first of 16 evaluations is read again after the others and must read as it did.",
    "C13": " A directed round validates and serializes valid and invalid struct values from 8 goroutines and is judged by the reference interpreter (not by an earlier call of the same process).",
    "C14": " Default loops that are closed only by a reference into another namespace must be refused at link time or terminate.",
    "C15": " Directed pairs include producers built with the typed list / map / object constructors.",
    "C16": " A first-use round lets 8 goroutines parse and format with a definition nobody has used yet (8 000 definitions in the quick tier) and compares with a twin used by one goroutine; definitions may have a unit with multiplier 1.",
    "C17": " Free-form (any) values get unsupported leaves below long keys, integer keys and list indices; struct-mapped objects get a directed Unserialize case (required by-value sub-objects left out).",
    "C18": " Wrong-count argument lists also contain untyped nils (and the nil list).",
    "C19": " Descriptions span several lines (literal and folded blocks, escapes); later runs start the generator under another program name.",
}
_extra6 = {
    "C02": " Round 6: look-alike boolean words with non-ASCII letters; an integer for a string enum is its decimal text.",
    "C03": " Round 6: string properties also get bare (unquoted) defaults, incl. the empty text.",
    "C05": " Round 6: any-payloads with integer-keyed maps.",
    "C06": " Round 6: refused calls that carry signal channels; client writes that return late (parked after delivery) so that a run ID can be reused between 'result stored' and 'result collected'; scripted-peer transcripts with a run-less step-fatal error, one message held back until quiescence.",
    "C08": " Round 6: flip masks 0x07 / 0x04; decidable rules for the payload header, the inner keys, messages that are not work-done messages, and the UTF-8 of the output ID's text.",
    "C09": " Round 6: steps that receive and emit a signal under the same ID.",
    "C11": " Round 6: an initialiser that panics for one run (later calls must still return, quiescence monitor).",
    "C12": " Round 6: a struct-mapped member under several one-of keys, serialized 300 times; first evaluations on fresh unit definitions by 8 goroutines.",
    "C14": " Round 6: one-of members that are references into other namespaces (both application orders, also with a target that contradicts the inlining flag); a holder that keeps a self-referential node by value.",
    "C15": " Round 6: scope pairs whose producer contains an object named like the consumer's root; float ranges one ulp / 1e-10 apart.",
    "C17": " Round 6: whole-value injections at one-of positions, numbers beyond int64 under any, the path of a number that does not fit its Go field.",
    "C18": " Round 6: variadic handlers called with every wrong count; dynamic functions whose type handler refuses.",
}
_extra7 = {
    "C01": " Round 7: a directed round trip of an inlined one-of whose keys are aliases of one struct-mapped member; narrow pointer fields.",
    "C03": " Round 7: bare defaults with white space at either end.",
    "C04": " Round 7: list properties held in fixed-size array fields; chains of objects with two defaulted references each (build, describe and load must return).",
    "C05": " Round 7: run IDs of white space only; an integer-keyed one-of in the fixture's step input; panic values and undeclared output IDs that are not valid UTF-8.",
    "C06": " Round 7: a call issued while Close is called on an idle client (the plugin modelled as a process whose exit ends its output).",
    "C07": " Round 7: step / run / signal IDs of 1-2 kB of non-ASCII text at four byte alignments; panic values and output IDs that are not valid UTF-8.",
    "C08": " Round 7: a plugin that talks on after a hello the client refused, with three calls at once; a queued signal in a held signal channel.",
    "C09": " Round 7: patterns with white space at either end; property IDs that are not identifier-shaped.",
    "C10": " Round 7: step displays with and without name; loading descriptions of chains of defaulted references must return.",
    "C12": " Round 7: one property schema shared by two struct-mapped objects with fields of different integer types.",
    "C13": " Round 7: malformed unit strings in the package-level trials.",
    "C16": " Round 7: counts padded with leading zeros to 20-70 digits (a count is a decimal numeral).",
    "C17": " Round 7: undeclared keys that are not strings; injections below references into another namespace.",
    "C18": " Round 7: (any, error) handlers for every second parameter list; handlers returning the zero value of their result type (the type survives).",
    "C19": " Round 7: schemas of tens of kilobytes of generated source; references to objects named like type IDs.",
}
_extra8 = {
    "C01": " Round 8: perturbed inputs put an explicit null where a leaf was.",
    "C02": " Round 8: every enumerated case and a third of the sampled ones also run on the schema rebuilt from its own description.",
    "C03": " Round 8: struct values of inlined one-of members whose discriminator field is unset (nil pointer, treat-empty-as-default).",
    "C04": " Round 8: chains of 4-49 single-property objects around a bounded integer, lone values of every kind.",
    "C05": " Round 8: a step mode in which the step finishes only when the signal passed along with the call has reached it; signal handlers that take until the session's calls are over. CPU-time rule of 60 s per journalled session for computations that never end.",
    "C06": " Round 8: histories with steps that need their signal to finish and with a signal handler that takes its time while other calls go on. CPU-time rule of 60 s per journalled session.",
    "C07": " Round 8: a step whose input is a chain of single-property objects, with scalars in place of its input; run IDs that differ only in surrounding white space. CPU-time rule of 60 s per journalled session.",
    "C08": " Round 8: fault kind read-timeout (an error whose Timeout() is true, returned by every later read); hellos with a schema that does not load from a plugin that talks on. CPU-time rule of 60 s per journalled session.",
    "C09": " Round 8: plain schemas (NewSchema) whose step keys differ from the step IDs, one step under two keys.",
    "C10": " Round 8: descriptions of chains of 4-49 single-property objects.",
    "C12": " Round 8: schema comparisons of enums in which only some values carry display names.",
    "C13": " Round 8: 16 goroutines inside one any-typed property with values nested 1-40 levels.",
    "C14": " Round 8: ValidateReferences on the hand-written recursive scopes, struct-mapped ones included.",
    "C16": " Round 8: unit names that differ in case only; near-miss strings with the case of letters changed.",
    "C17": " Round 8: every judged rejection is repeated on the same value; offending elements 3-120 levels down a recursive value.",
    "C18": " Round 8: handlers that call functions themselves (recursion, mutual recursion, nested calls).",
}
_extra9 = {
    "C03": " Rounds 9-10: digit-only property IDs asked with the same digits as numeric keys; container defaults with every accepted result overwritten in place before the same input is asked again.",
    "C09": " Round 9: generated schemas also use custom unit definitions that carry the names of built-in ones with other factors.",
    "C10": " Round 9: 108 directed documents in which a nested object repeats an outer ID above a broken part.",
    "C11": " Round 10: 53 sequences of refused calls (rejected wire / native input, rejected signal data, unknown IDs, undeclared output) between a run's signals and its valid step call: one step-data instance per run ID.",
    "C12": " Round 9: unit strings and their near-variants (white space, dropped / doubled characters, case) asked after the original on one definition and cold on a twin.",
    "C14": " Round 9: rings of 2-3 scopes referring to each other across namespaces, linked in every order, same outcomes whatever the order.",
    "C16": " Round 9: sibling definitions with the same names and other multipliers used in the same process.",
}
for _id, _txt in _extra9.items():
    _extra[_id] = _extra.get(_id, "") + _txt
for _id, _txt in _extra8.items():
    _extra[_id] = _extra.get(_id, "") + _txt
for _id, _txt in _extra7.items():
    _extra[_id] = _extra.get(_id, "") + _txt
for _id, _txt in _extra6.items():
    _extra[_id] = _extra.get(_id, "") + _txt
for _id, _txt in _extra.items():
    _c = list(claimed[_id])
    _c[2] = _c[2] + _txt
    claimed[_id] = tuple(_c)
