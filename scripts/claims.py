# Executed by mkmanifest.py. claimed[id] = (category, technique, level text, level note, design ref)
not_applicable = {}
claimed["C16"] = (
    "exploration",
    "runtime oracle: format->parse round-trip monitor + big-rational reference parser over swept and generated inputs",
    "Every integer in [0,200000] for 8 unit sets (complete sweep) plus generated definitions, boundary integers, floats and generated well-formed / near-miss strings are pushed through the real Format*/Parse* and IntSchema/FloatSchema.Unserialize; an independent exact (math/big) parser decides what each string denotes. Held on what was observed; the integer sweep is complete, the rest sampled.",
    "trusts math/big and the harness' own grammar (DESIGN.md App. A); floats limited to <=6 decimals because the SDK prints %f; unspecified strings (bare numbers, repeated units) only checked for 'never a wrong number'",
    "DESIGN.md §3 C16",
)
