#!/bin/bash
# usage: all_seeds_wt.sh [tier] - every kept seeded change, each applied to a scratch worktree (never to /repo itself)
cd /verif
T=${1:-quick}
for d in seeded/C*/; do
  n=$(basename $d); p=${n%%-*}
  scripts/try_seed_wt.sh /verif/seeded/$n $p $T 2>&1 | tail -1 | cut -c1-260
done
