#!/usr/bin/env python3
"""keep_seed.py <seed-dir> <property> <detected-by-text> : copies a confirmed seed into /verif/seeded/<name>/"""
import json, os, shutil, sys
src, prop, det = sys.argv[1], sys.argv[2], sys.argv[3]
name = os.path.basename(src.rstrip('/'))
dst = f"/verif/seeded/{name}"
if os.path.exists(dst):
    shutil.rmtree(dst)
os.makedirs(dst)
shutil.copy(f"{src}/patch.diff", f"{dst}/patch.diff")
shutil.copytree(f"{src}/demo", f"{dst}/demo")
meta = json.load(open(f"{src}/meta.json"))
out = {
    "property": prop,
    "summary": meta.get("summary"),
    "needs_to_manifest": meta.get("needs_to_manifest"),
    "files_changed": meta.get("files_changed"),
    "author": "independent sub-agent given only the property text and a scratch worktree",
    "how_verified_by_author": meta.get("how_verified"),
    "confirmed_by_me": "scripts/confirm_seed.sh in a scratch worktree of /repo HEAD: patch applies, builds, the repository suite (both modules) passes with it, demo/run.sh exits non-zero with the patch and 0 without",
    "check_result": det,
    "what_i_ran": f"scripts/try_seed_wt.sh {dst} {prop} (scratch worktree of /repo HEAD with the patch applied, VERIF_REPO pointing at it; bin/vcheck {prop} --tier quick; worktree removed)",
}
json.dump(out, open(f"{dst}/meta.json", "w"), indent=1)
print("kept", dst)
