#!/bin/bash
# usage: confirm_seed.sh <seed-dir>
# Confirms in a scratch worktree of /repo HEAD: patch applies, tree builds, existing suite passes with
# the patch, demo fails with the patch and passes without. Prints CONFIRMED or the failing step.
set -u
export GOFLAGS=-mod=mod GOPROXY=off GOSUMDB=off GOTOOLCHAIN=local
D=$(readlink -f $1); N=$(basename $D)
WT=/tmp/wt-confirm-$N
git -C /repo worktree remove --force $WT >/dev/null 2>&1
git -C /repo worktree add -q --detach $WT HEAD || { echo "FAIL worktree"; exit 9; }
cleanup() { git -C /repo worktree remove --force $WT >/dev/null 2>&1; }
trap cleanup EXIT
cd $WT
# the demos were written against the agent's worktree path; rewrite it
run_demo() { rm -rf /tmp/demo-$N; cp -r $D/demo /tmp/demo-$N; grep -rlE "/tmp/wt[0-9]*-C" /tmp/demo-$N 2>/dev/null | xargs -r sed -i -E "s#/tmp/wt[0-9]*-C[0-9]+#$WT#g"; (cd $WT && timeout 900 sh /tmp/demo-$N/run.sh >/tmp/demo-$N.out 2>&1); rc=$?; rm -rf /tmp/demo-$N; (cd $WT && git clean -fdq); return $rc; }
run_demo; base=$?
if [ $base -ne 0 ]; then echo "FAIL $N: demo fails on the unpatched tree (rc=$base): $(tail -3 /tmp/demo-$N.out | tr '\n' ' ' | cut -c1-300)"; exit 1; fi
git update-index -q --refresh; git apply --3way $D/patch.diff >/tmp/confirm.$N.apply 2>&1 || { echo "FAIL $N: patch does not apply: $(head -3 /tmp/confirm.$N.apply | tr '\n' ' ')"; exit 2; }
git reset -q
go build ./... >/tmp/confirm.$N.build 2>&1 || { echo "FAIL $N: does not build"; exit 3; }
(go test -vet=off -count=1 ./... && cd cmd/arcaflow-codegen && go test -vet=off -count=1 ./...) >/tmp/confirm.$N.test 2>&1 || { echo "FAIL $N: existing suite fails with the patch: $(grep -m3 -- '--- FAIL\|^FAIL' /tmp/confirm.$N.test | tr '\n' ' ')"; exit 4; }
run_demo; with=$?
if [ $with -eq 0 ]; then echo "FAIL $N: demo passes with the patch"; exit 5; fi
echo "CONFIRMED $N (demo rc with patch=$with, without=0; suite passes with patch)"
