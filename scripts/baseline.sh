#!/bin/sh
# Runs the repository's own test suite with the verif guard OFF (no tags, no overlay).
export GOFLAGS=-mod=mod GOPROXY=off GOSUMDB=off GOTOOLCHAIN=local
set -e
REPO=${VERIF_REPO:-/repo}
cd "$REPO" && go build ./... && go test -vet=off -count=1 -timeout 25m ./...
cd "$REPO/cmd/arcaflow-codegen" && go build -o /dev/null ./... && go test -vet=off -count=1 -timeout 25m ./...
