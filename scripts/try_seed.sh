#!/bin/bash
# usage: try_seed.sh <seed-dir> <property> [tier]
# Applies <seed-dir>/patch.diff to /repo, runs the property's check, restores /repo.
# Prints DETECTED / MISSED / NOAPPLY.
set -u
export GOFLAGS=-mod=mod GOPROXY=off GOSUMDB=off GOTOOLCHAIN=local
D=$1; P=$2; T=${3:-quick}
cd /repo || exit 9
if [ -n "$(git status --porcelain --untracked-files=no)" ]; then echo "REPO-DIRTY"; exit 9; fi
if ! git apply --3way "$D/patch.diff" >/tmp/try_seed.apply 2>&1; then
  git reset -q --hard HEAD; echo "NOAPPLY $(basename $D)"; exit 3
fi
git reset -q
if ! go build ./... >/tmp/try_seed.build 2>&1; then git checkout -- .; echo "NOBUILD $(basename $D)"; exit 4; fi
cd /verif
OUT=/tmp/try_seed.$(basename $D).$P.out
VERIF_NO_EVIDENCE=1 timeout 3000 bin/vcheck $P --tier $T > $OUT 2>&1
RC=$?
cd /repo && git checkout -- . && git clean -fdq -e cmd/arcaflow-codegen/codegen
if grep -q "^VIOLATION property=$P" $OUT; then echo "DETECTED $(basename $D) by $P ($T): $(grep -A1 '^VIOLATION' $OUT | grep 'key=' | head -3 | tr '\n' ' ' | cut -c1-300)"; else echo "MISSED $(basename $D) by $P ($T) rc=$RC: $(tail -1 $OUT | cut -c1-200)"; fi
